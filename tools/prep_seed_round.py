#!/usr/bin/env python3
"""Prepare the working area for one seed agent:  tools/prep_seed_round.py <round-dir> <Cxx> [n_changes]

Creates <round-dir>/<Cxx>/wt (a detached git worktree of /repo HEAD), <round-dir>/<Cxx>/out/ and
<round-dir>/<Cxx>/PROMPT.md.  The prompt holds ONLY the property text, one-line summaries of the changes earlier
rounds already produced for this property (so that the agent looks elsewhere) and the working rules — nothing about
how /verif checks anything.  Remove the worktree afterwards with
    git -C /repo worktree remove --force <round-dir>/<Cxx>/wt
"""
import glob
import json
import os
import subprocess
import sys

VERIF = os.path.dirname(os.path.dirname(os.path.abspath(__file__)))

RULES = """
# Task: a realistic change to TatSu that breaks ONE stated property, and a demonstration

You have your own git worktree of the TatSu repository (neogeny/TatSu, pure Python, a PEG parser generator) at
`{wt}`.  Work ONLY there and in `{out}`.  Do not look at or touch `/repo`, `/verif` or any other directory outside these two
(your work must be independent of whatever checking exists elsewhere).  Interpreter: `/venv/bin/python` (3.12, TatSu's
dependencies installed; run things with `cd {wt} && PYTHONPATH={wt} /venv/bin/python ...`).  No network.

## The property
```json
{prop}
```

## What to produce: {n} different changes (each in its own directory `{out}/1`, `{out}/2`, …)
Each is a small, realistic source change to TatSu (the kind of thing a contributor could plausibly commit: an
optimisation, a clean-up, a refactoring slip, a "hardening", a caching shortcut, a reordering, an off-by-one) such that
* the property above is BROKEN (for some grammar / input / configuration / sequence of calls / schedule …),
* the package still imports, and the repository's own test suite still passes:
  `cd {wt} && /venv/bin/python -m pytest -q -p no:cacheprovider --timeout=900 --continue-on-collection-errors --deselect tests/cli_test.py --deselect tests/cling_test.py`
  (same result as on the unchanged worktree),
* it needs **something specific to manifest** — a particular interleaving, a fault or failure at a particular point, a
  multi-step sequence of operations, an unusual (but legitimate) grammar shape / input / setting, or two cooperating
  sites that each look fine alone.  NOT something ordinary use would expose at once, and not a blatant sabotage.
* it is different in mechanism from the earlier changes listed below, and the {n} changes differ from each other
  (different files / different mechanisms where possible).

For each change write into `{out}/<k>/`:
* `patch.diff` — `git diff` of the worktree against HEAD for this change alone (`git -C {wt} diff > …`; then
  `git -C {wt} checkout -- .` before starting the next change).  It must apply with `patch -p1` to a clean export of HEAD.
* `demo.py` — a small stand-alone program, first line exactly
  `import os, sys; sys.path.insert(0, os.environ['TATSU_PATH'])`
  that uses only TatSu's public behaviour, exits 0 on the unchanged tree (`TATSU_PATH={wt}` at HEAD) and exits 1 (printing
  what went wrong) with the change applied.  It must test the PROPERTY (what a user relies on), not an implementation
  detail, and must finish within a minute.  Verify both outcomes yourself.
* `meta.json` — `{{"property": "{pid}", "summary": "<what was changed and why it looks innocent>", "needs": "<exactly what
  is required for the breakage to manifest, and what is unaffected>", "files": ["tatsu/..."], "tests_pass": true,
  "demo_fails_with_change": true, "demo_passes_without_change": true}}`

If, while exploring, you find that the UNCHANGED worktree already breaks the property for some input, do not use that as
a change; describe it (with a reproducer) in `{out}/FOUND_ON_UNCHANGED.md`.

## Changes earlier rounds already produced for this property (find something ELSE — other mechanism, other site)
{earlier}

When done, leave the worktree clean (`git -C {wt} checkout -- .`, no untracked files) and reply with a short list: for
each change one line (file, mechanism, what it needs), plus anything found on the unchanged tree.
"""


def main():
    rdir, pid = sys.argv[1], sys.argv[2]
    n = int(sys.argv[3]) if len(sys.argv) > 3 else 2
    base = os.path.join(rdir, pid)
    wt, out = os.path.join(base, 'wt'), os.path.join(base, 'out')
    os.makedirs(out, exist_ok=True)
    if not os.path.exists(wt):
        subprocess.run(['git', '-C', '/repo', 'worktree', 'add', '--detach', wt, 'HEAD'], check=True,
                       capture_output=True)
    prop = None
    for line in open(os.path.join(VERIF, 'properties.jsonl')):
        p = json.loads(line)
        if p['id'] == pid:
            prop = p
    earlier = []
    for d in sorted(glob.glob(os.path.join(VERIF, 'seeded', pid + '-*')), key=lambda s: int(s.rsplit('-', 1)[1])):
        m = json.load(open(os.path.join(d, 'meta.json')))
        earlier.append(f"* ({', '.join(m.get('files', []))}) {m['summary'][:420]}")
    text = RULES.format(wt=wt, out=out, n=n, pid=pid, prop=json.dumps(prop, indent=1, ensure_ascii=False),
                        earlier='\n'.join(earlier) or '(none)')
    with open(os.path.join(base, 'PROMPT.md'), 'w') as f:
        f.write(text)
    print(os.path.join(base, 'PROMPT.md'))


if __name__ == '__main__':
    main()
