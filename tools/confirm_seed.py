#!/usr/bin/env python3
"""Confirm one independently produced change and (optionally) run the property's check against it.

    tools/confirm_seed.py <agent-output-dir> <new-id> [--origin TEXT] [--no-check] [--tier quick]

<agent-output-dir> holds patch.diff, demo.py, meta.json as written by a seed agent.  Steps, all in a scratch
copy of /repo's HEAD outside /repo and /verif (deleted afterwards):
  1. demo.py with TATSU_PATH=/repo            -> must exit 0
  2. patch -p1, demo.py with TATSU_PATH=<copy> -> must exit 1
  3. the repository's test suite in the copy (minus the 7 tests that need `uv`) -> must pass
  4. the change is kept as seeded/<new-id>/ only if 1-3 hold
  5. ./check <property> <tier> with VERIF_REPO=<copy>; outcome recorded in meta.json['checks']
"""
import json
import os
import shutil
import subprocess
import sys
import tempfile
import time

VERIF = os.path.dirname(os.path.dirname(os.path.abspath(__file__)))
REPO = '/repo'
PY = '/venv/bin/python'


def run(cmd, **kw):
    return subprocess.run(cmd, capture_output=True, text=True, **kw)


def main():
    args = sys.argv[1:]
    origin = 'independent sub-agent (fifth round) given only the property text, summaries of earlier changes to avoid and its own git worktree (nothing from /verif)'
    tier = 'quick'
    nocheck = False
    pos = []
    i = 0
    while i < len(args):
        if args[i] == '--origin':
            origin = args[i + 1]
            i += 2
        elif args[i] == '--tier':
            tier = args[i + 1]
            i += 2
        elif args[i] == '--no-check':
            nocheck = True
            i += 1
        else:
            pos.append(args[i])
            i += 1
    src, newid = pos
    meta = json.load(open(os.path.join(src, 'meta.json')))
    prop = meta['property']
    tmp = tempfile.mkdtemp(prefix='vt-confirm-')
    try:
        subprocess.run(f'git -C {REPO} archive HEAD | tar -x -C {tmp}', shell=True, check=True)
        demo = os.path.join(src, 'demo.py')
        env = dict(os.environ, PYTHONDONTWRITEBYTECODE='1', PYTHONHASHSEED='0')
        env.pop('PYTHONPATH', None)
        try:
            r0 = run([PY, demo], env=dict(env, TATSU_PATH=REPO), cwd=tmp + '/..', timeout=600)
            rc0 = r0.returncode
        except subprocess.TimeoutExpired:
            rc0 = 'timeout'
        r = run(['patch', '-p1', '-s', '-i', os.path.join(src, 'patch.diff')], cwd=tmp)
        if r.returncode:
            print('REJECT: patch does not apply', r.stdout, r.stderr)
            return 2
        try:
            r1 = run([PY, demo], env=dict(env, TATSU_PATH=tmp), cwd=tmp + '/..', timeout=600)
            rc1 = r1.returncode
            out1 = (r1.stdout + r1.stderr)[-600:]
        except subprocess.TimeoutExpired:
            rc1, out1 = 'timeout', ''
        print(f'demo: unchanged exit={rc0} changed exit={rc1}')
        if rc0 != 0 or rc1 in (0,):
            print('REJECT: demo does not discriminate', out1)
            return 2
        t = run([PY, '-m', 'pytest', '-q', '-p', 'no:cacheprovider', '--timeout=900', '--continue-on-collection-errors',
                 '--deselect', 'tests/cli_test.py', '--deselect', 'tests/cling_test.py'], cwd=tmp, env=env)
        tail = t.stdout.strip().splitlines()[-1] if t.stdout.strip() else ''
        print('pytest exit', t.returncode, tail)
        if t.returncode != 0:
            print('REJECT: test suite not green', '\n'.join(t.stdout.splitlines()[-15:]))
            return 2
        dst = os.path.join(VERIF, 'seeded', newid)
        os.makedirs(dst, exist_ok=True)
        shutil.copy(os.path.join(src, 'patch.diff'), dst)
        shutil.copy(demo, dst)
        meta['origin'] = origin
        meta['confirmed_by_us'] = {
            'how': 'scratch copy of /repo HEAD + patch -p1; demo.py with TATSU_PATH=<copy> and TATSU_PATH=/repo; repo test suite in the copy (tools/confirm_seed.py)',
            'repo_head': run(['git', '-C', REPO, 'rev-parse', '--short', 'HEAD']).stdout.strip(),
            'demo_exit_with_change': rc1, 'demo_exit_without_change': rc0, 'pytest_exit_with_change': t.returncode,
            'pytest_tail': tail}
        meta.setdefault('checks', {})
        if not nocheck:
            t0 = time.time()
            p = run([os.path.join(VERIF, 'check'), prop, tier], cwd=VERIF, env=dict(os.environ, VT_SUMMARY='0', VERIF_REPO=tmp, VT_EVIDENCE_DIR=os.path.join(tmp, '.vt-evidence')))
            lines = [l for l in p.stdout.splitlines() if l.startswith('VIOLATION') or l.startswith('  what')]
            summary = p.stdout.strip().splitlines()[-1] if p.stdout.strip() else ''
            meta['checks'][prop] = {'tier': tier, 'first_run_exit': p.returncode, 'first_run_summary': summary,
                                    'first_run_first_violation': (lines[1][:500] if len(lines) > 1 else (lines[0][:500] if lines else None)),
                                    'missed_at_first': p.returncode != 1, 'wall_s': round(time.time() - t0, 1)}
            print(f'check {prop} {tier}: exit {p.returncode} {summary}')
            if lines:
                print('   ', lines[-1][:400])
        json.dump(meta, open(os.path.join(dst, 'meta.json'), 'w'), indent=1)
        print('KEPT', dst)
        return 0
    finally:
        shutil.rmtree(tmp, ignore_errors=True)


if __name__ == '__main__':
    sys.exit(main())
