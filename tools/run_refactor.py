#!/usr/bin/env python3
"""False-alarm test: run quick tiers against a BEHAVIOUR-PRESERVING refactoring of TatSu.

    tools/run_refactor.py refactors/<id> [Cxx ...]

refactors/<id>/ holds patch.diff (applies with patch -p1 to /repo's HEAD) and meta.json (with "checks": the
properties whose monitors watch the refactored area; overridden by the Cxx arguments).  /repo's HEAD is exported
to a scratch copy outside /repo and /verif, the patch is applied there and each check's quick tier runs with
VERIF_REPO pointing at the copy; the copy is deleted afterwards.  Every check must stay SILENT (exit 0): the
refactored tree still has the property, so an alarm is a false alarm of a monitor that leans on an internal name
(DESIGN.md 2.1).  Results: refactors/<id>/result.json.  Nothing is committed in /repo.
"""
import json
import os
import shutil
import subprocess
import sys
import tempfile
import time

VERIF = os.path.dirname(os.path.dirname(os.path.abspath(__file__)))
REPO = '/repo'


def main():
    d = os.path.abspath(sys.argv[1])
    meta = json.load(open(os.path.join(d, 'meta.json')))
    checks = sys.argv[2:] or meta.get('checks') or []
    if not checks:
        sys.exit('no checks named (meta.json "checks" or arguments)')
    tmp = tempfile.mkdtemp(prefix='vt-refactor-')
    results = {}
    try:
        subprocess.run(f'git -C {REPO} archive HEAD | tar -x -C {tmp}', shell=True, check=True)
        r = subprocess.run(['patch', '-p1', '-s', '-i', os.path.join(d, 'patch.diff')], cwd=tmp, capture_output=True, text=True)
        if r.returncode:
            sys.exit(f'patch does not apply: {r.stdout} {r.stderr}')
        head = subprocess.run(['git', '-C', REPO, 'rev-parse', '--short', 'HEAD'], capture_output=True, text=True).stdout.strip()
        for c in checks:
            t0 = time.time()
            env = dict(os.environ, VT_SUMMARY='1', VERIF_REPO=tmp, VT_EVIDENCE_DIR=os.path.join(tmp, '.vt-evidence'))
            p = subprocess.run([os.path.join(VERIF, 'check'), c, 'quick'], capture_output=True, text=True, cwd=VERIF, env=env)
            lines = [l for l in p.stdout.splitlines() if l.startswith(('VIOLATION', '  what', 'INCONCLUSIVE'))]
            results[c] = {'exit': p.returncode, 'silent': p.returncode == 0, 'wall_s': round(time.time() - t0, 1),
                          'repo_head': head, 'alarm': lines[:4],
                          'summary': p.stdout.strip().splitlines()[-1] if p.stdout.strip() else ''}
            print(c, 'exit', p.returncode, results[c]['summary'])
            for l in lines[:4]:
                print('   ', l[:300])
    finally:
        shutil.rmtree(tmp, ignore_errors=True)
    out = os.path.join(d, 'result.json')
    prev = json.load(open(out)) if os.path.exists(out) else {}
    prev.update(results)
    json.dump(prev, open(out, 'w'), indent=1)
    return 0 if all(v['silent'] for v in results.values()) else 1


if __name__ == '__main__':
    sys.exit(main())
