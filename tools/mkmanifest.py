#!/usr/bin/env python3
"""Regenerate MANIFEST.json from the check modules that exist (vt/checks/cXX.py: MANIFEST dict)."""
import importlib
import json
import os
import sys

HERE = os.path.dirname(os.path.dirname(os.path.abspath(__file__)))
sys.path.insert(0, HERE)

ALL = [f'C{i:02d}' for i in range(1, 21)]


def main():
    checks = []
    na = []
    claimed = set(open(os.path.join(HERE, 'tools', 'claimed.txt')).read().split())
    for pid in ALL:
        path = os.path.join(HERE, 'vt', 'checks', pid.lower() + '.py')
        if not os.path.exists(path) or pid not in claimed:
            na.append({'property_id': pid, 'reason': 'check not built yet (see DESIGN.md section 3 for the planned monitor)'})
            continue
        mod = importlib.import_module(f'vt.checks.{pid.lower()}')
        m = getattr(mod, 'MANIFEST', None)
        if m is None or not m.get('claimed', True):
            na.append({'property_id': pid, 'reason': (m or {}).get('reason', 'check exists but is not claimed yet')})
            continue
        checks.append({
            'property_id': pid,
            'quick_cmd': f'./check {pid} quick',
            'thorough_cmd': f'./check {pid} thorough',
            'evidence_file': f'evidence/{pid}.json',
            'replay_cmd_template': f'./check {pid} --replay {{path}}',
            'engine': 'vt',
            'level_claimed': {'category': mod.LEVEL, 'text': m['level_text'], 'design_ref': m.get('design_ref', f'DESIGN.md section 3, {pid}')},
            'level_note': m['level_note'],
            'technique': m['technique'],
        })
    manifest = {
        'version': 1,
        'setup_cmd': 'sh ./setup.sh',
        'hooks': {
            'guard': 'TATSU_VERIF',
            'enable': 'no source hooks: every monitor observes from outside (wrapping, subclassing, tracing, audit hooks, '
                      'semantics objects, heart objects); ./check sets TATSU_VERIF=1 for uniformity only',
            'baseline_off_cmd': 'cd /repo && /venv/bin/python -m pytest -ra -q -p no:cacheprovider --timeout=900 --continue-on-collection-errors',
            'source_commits': [],
            'add_only': True,
        },
        'engines': [{'name': 'vt', 'path': 'vt/', 'serves_properties': [c['property_id'] for c in checks],
                     'kind_free_text': 'runtime monitoring: reference-model oracle (vt/ref.py), differential/metamorphic '
                                       'monitors, event-log checkers, schedule/crash-point enumeration with the real code in the loop'}],
        'checks': checks,
        'not_applicable': na,
        'notes': 'Every check runs /venv/bin/python with PYTHONPATH=/repo first (current working tree), shards in fresh '
                 'subprocesses, three-valued verdicts (exit 0 held / 1 violated / 2 inconclusive). Known genuine defects: known_findings.json.',
    }
    with open(os.path.join(HERE, 'MANIFEST.json'), 'w') as f:
        json.dump(manifest, f, indent=1)
        f.write('\n')
    print(f'{len(checks)} checks claimed, {len(na)} not claimed')


if __name__ == '__main__':
    main()
