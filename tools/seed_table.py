#!/usr/bin/env python3
"""Print the table of independently seeded changes (markdown) from seeded/*/meta.json and result.json:

    tools/seed_table.py [--round TEXT]      # e.g. --round sixth  (matches meta['origin'])

Columns: id, files, what it needs (first sentence), caught at first (when recorded), latest outcome of the
property's own quick tier (result.json written by tools/run_seeded.py / meta['checks'] by tools/confirm_seed.py).
"""
import glob
import json
import os
import sys

VERIF = os.path.dirname(os.path.dirname(os.path.abspath(__file__)))


def key(d):
    p, n = os.path.basename(d).split('-')
    return p, int(n)


def main():
    rnd = sys.argv[sys.argv.index('--round') + 1] if '--round' in sys.argv else None
    rows = []
    tot = caught = 0
    for d in sorted(glob.glob(os.path.join(VERIF, 'seeded', 'C*-*')), key=key):
        if not os.path.exists(os.path.join(d, 'meta.json')):
            continue   # being confirmed right now
        m = json.load(open(os.path.join(d, 'meta.json')))
        if rnd and rnd not in m.get('origin', ''):
            continue
        sid = os.path.basename(d)
        prop = m['property']
        res = {}
        if os.path.exists(os.path.join(d, 'result.json')):
            res = json.load(open(os.path.join(d, 'result.json')))
        ck = (m.get('checks') or {}).get(prop) or {}
        first = ck.get('missed_at_first')
        latest = None
        if prop in res and isinstance(res[prop], dict):
            latest = res[prop].get('exit')
        elif isinstance(ck, dict):
            latest = ck.get('rerun_exit', ck.get('exit', ck.get('first_run_exit')))
        status = m.get('status_note') or {1: 'caught', 0: 'MISSED', 2: 'inconclusive'}.get(latest, 'caught' if latest is None and first is False else str(latest))
        tot += 1
        caught += status.startswith('caught')
        needs = m.get('needs', '').split('. ')[0][:170].replace('|', '\\|')
        rows.append(f"| {sid} | {', '.join(os.path.basename(f) for f in m.get('files', []))[:60]} | {needs} | "
                    f"{'missed' if first else ('caught' if first is False else '–')} | {status} |")
    print('| seed | files | needs | first run | latest |')
    print('|---|---|---|---|---|')
    print('\n'.join(rows))
    print(f'\n{tot} changes, {caught} caught by the quick tier of their own property at the latest run')


if __name__ == '__main__':
    main()
