#!/usr/bin/env python3
"""Run registered checks against one seeded change:  tools/run_seeded.py seeded/<id> [Cxx ...]

Default (safe while other jobs use /repo): exports /repo's HEAD to a scratch copy outside /repo and /verif,
applies seeded/<id>/patch.diff there and runs the checks with VERIF_REPO pointing at the copy, then deletes
it.  With --in-repo it applies the patch to /repo's working tree (git apply), runs, and ALWAYS restores
/repo (git checkout -- .).  Either way nothing is committed in /repo.  Results: seeded/<id>/result.json.
"""
import json
import os
import subprocess
import sys
import time

VERIF = os.path.dirname(os.path.dirname(os.path.abspath(__file__)))
REPO = '/repo'


def sh(*a, **kw):
    return subprocess.run(a, capture_output=True, text=True, **kw)


def scratch_mode(d, checks):
    import shutil
    import tempfile
    tmp = tempfile.mkdtemp(prefix='vt-seeded-')
    try:
        subprocess.run(f'git -C {REPO} archive HEAD | tar -x -C {tmp}', shell=True, check=True)
        r = sh('patch', '-p1', '-s', '-i', os.path.join(d, 'patch.diff'), cwd=tmp)
        if r.returncode:
            sys.exit(f'patch does not apply: {r.stdout} {r.stderr}')
        results = {}
        for c in checks:
            t0 = time.time()
            env = dict(os.environ, VT_SUMMARY='0', VERIF_REPO=tmp, VT_EVIDENCE_DIR=os.path.join(tmp, '.vt-evidence'))
            p = subprocess.run([os.path.join(VERIF, 'check'), c, 'quick'], capture_output=True, text=True, cwd=VERIF, env=env)
            lines = [l for l in p.stdout.splitlines() if l.startswith('VIOLATION') or l.startswith('  what')]
            results[c] = {'exit': p.returncode, 'wall_s': round(time.time() - t0, 1), 'mode': 'scratch-copy',
                          'first_violation': lines[1][:400] if len(lines) > 1 else None,
                          'summary': p.stdout.strip().splitlines()[-1] if p.stdout.strip() else ''}
            print(c, 'exit', p.returncode, results[c]['summary'])
            if results[c]['first_violation']:
                print('   ', results[c]['first_violation'])
    finally:
        shutil.rmtree(tmp, ignore_errors=True)
    out = os.path.join(d, 'result.json')
    prev = json.load(open(out)) if os.path.exists(out) else {}
    prev.update(results)
    json.dump(prev, open(out, 'w'), indent=1)


def main():
    args = [a for a in sys.argv[1:] if a != '--in-repo']
    in_repo = '--in-repo' in sys.argv
    d = os.path.abspath(args[0])
    meta = json.load(open(os.path.join(d, 'meta.json')))
    checks = args[1:] or [meta['property']]
    if not in_repo:
        return scratch_mode(d, checks)
    dirty = sh('git', '-C', REPO, 'status', '--porcelain', '--untracked-files=no').stdout.strip()
    if dirty:
        sys.exit(f'/repo has uncommitted changes, refusing:\n{dirty}')
    patch = os.path.join(d, 'patch.diff')
    r = sh('git', '-C', REPO, 'apply', patch)
    if r.returncode:
        sys.exit(f'patch does not apply: {r.stderr}')
    results = {}
    try:
        for c in checks:
            t0 = time.time()
            env = dict(os.environ, VT_SUMMARY='0')
            p = subprocess.run([os.path.join(VERIF, 'check'), c, 'quick'], capture_output=True, text=True, cwd=VERIF, env=env)
            lines = [l for l in p.stdout.splitlines() if l.startswith('VIOLATION') or l.startswith('  what')]
            results[c] = {'exit': p.returncode, 'wall_s': round(time.time() - t0, 1),
                          'first_violation': lines[1][:400] if len(lines) > 1 else None,
                          'summary': p.stdout.strip().splitlines()[-1] if p.stdout.strip() else ''}
            print(c, 'exit', p.returncode, results[c]['summary'])
            if results[c]['first_violation']:
                print('   ', results[c]['first_violation'])
    finally:
        sh('git', '-C', REPO, 'checkout', '--', '.')
        # evidence files written while /repo was patched do not describe the unchanged tree
        sh('git', '-C', VERIF, 'checkout', '--', 'evidence')
    out = os.path.join(d, 'result.json')
    prev = {}
    if os.path.exists(out):
        prev = json.load(open(out))
    prev.update(results)
    json.dump(prev, open(out, 'w'), indent=1)


if __name__ == '__main__':
    main()
