#!/bin/sh
# offline setup: install the contract libraries beside the repository's interpreter (git-ignored .deps)
HERE="$(cd "$(dirname "$0")" && pwd)"
PY="${VERIF_PY:-/venv/bin/python}"
if [ ! -d "$HERE/.deps/icontract" ]; then
  "$PY" -m pip install --quiet --no-index --find-links /opt/veriftools/wheels --target "$HERE/.deps" icontract deal 2>&1 | tail -2
fi
"$PY" -c "import sys; sys.path.insert(0,'$HERE/.deps'); import icontract, deal; print('deps ok', icontract.__version__)" || echo "deps missing: monitors fall back to plain wrappers"
exit 0
