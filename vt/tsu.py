"""Adapters around the REAL TatSu (imported from /repo): boundary observation helpers."""
from __future__ import annotations

import types

from . import lang as L
from .ref import canon

WRAP_START = 'VTSTART'
WRAP_REST = 'VTREST'


def FailedParse():
    from tatsu.exceptions import FailedParse as FP
    return FP


class StepHeart:
    """logical step budget through TatSu's public Heart protocol (dead() is polled per rule call)"""

    def __init__(self, budget):
        self.budget = budget
        self.calls = 0

    def beat(self, mark, total):
        pass

    def dead(self):
        self.calls += 1
        return self.calls > self.budget


def wrapped(g: L.Grammar, start: str) -> L.Grammar:
    """end-position wrapper (DESIGN 2.1): named elements, upper-case rules (no ws skipping)"""
    extra = [
        L.Rule(WRAP_START, L.Seq((L.Named('v', L.Call(start)), L.Named('r', L.Call(WRAP_REST))))),
        L.Rule(WRAP_REST, L.Pat('(?s).*')),
    ]
    return L.Grammar(list(g.rules) + extra, dict(g.directives), tuple(g.keywords))


def build(g: L.Grammar, name='T', route='object', **settings):
    if route == 'object':
        return L.to_model(g, name=name, **settings)
    import tatsu
    return tatsu.compile(L.grammar_text(g), name=name, **settings)


def outcome(parse, text, **kw):
    """run a real parse -> ('ok', canon(ast)) | ('fail', pos) | ('EXC', class, msg)"""
    from tatsu.exceptions import FailedParse
    try:
        return ('ok', canon(parse(text, **kw)))
    except FailedParse as e:
        return ('fail', getattr(e, 'pos', None))
    except RecursionError:
        return ('EXC', 'RecursionError', '')
    except Exception as e:  # noqa: BLE001 - the class IS the observation
        return ('EXC', type(e).__name__, str(e)[:160])


def run_wrapped(model, text, budget=None, **kw):
    """parse with the VTSTART wrapper -> ('ok', consumed, canon(v)) | ('fail',) | ('EXC', cls, msg)"""
    from tatsu.exceptions import FailedParse
    heart = StepHeart(budget) if budget else None
    try:
        res = model.parse(text, start=WRAP_START, heart=heart, **kw)
        v, rest = res['v'], res['r']
        return ('ok', len(text) - len(rest), canon(v))
    except FailedParse:
        return ('fail',)
    except RecursionError:
        return ('EXC', 'RecursionError', '')
    except Exception as e:  # noqa: BLE001
        if type(e).__name__ == 'HeartDied':
            return ('EXC', 'StepBudget', str(budget))
        return ('EXC', type(e).__name__, str(e)[:160])


def gen_parser(model, name=None):
    """model -> (ParserClass, source) through the real code generator; exec in a throw-away module"""
    from tatsu.ngcodegen.ngparser_gen import pythongen
    src = pythongen(model)
    mod = types.ModuleType('vt_generated')
    code = compile(src, '<generated>', 'exec')
    exec(code, mod.__dict__)  # noqa: S102
    cls = None
    for k, v in mod.__dict__.items():
        if k.endswith('Parser') and isinstance(v, type) and v.__module__ == 'vt_generated':
            cls = v
    return cls, src


def same_model(m1, m2):
    try:
        return m1.asjson() == m2.asjson()
    except Exception:  # noqa: BLE001
        return False
