"""Delta-debugging of (grammar, start, text) witnesses, used to give violations a readable,
small form and a mechanism signature (relation tag + node kinds left after shrinking)."""
from __future__ import annotations

from .lang import (Call, Choice, Grammar, Rule, Seq, Tok, children, grammar_kinds, rebuild, walk)


def reachable(g: Grammar, start: str) -> Grammar:
    rm = g.rulemap()
    seen, todo = set(), [start]
    while todo:
        n = todo.pop()
        if n in seen or n not in rm:
            continue
        seen.add(n)
        r = rm[n]
        for x in walk(r.body):
            if isinstance(x, Call) or type(x).__name__ == 'Include':
                todo.append(x.name)
        if r.base:
            todo.append(r.base)
    return Grammar([r for r in g.rules if r.name in seen], dict(g.directives), tuple(g.keywords))


def exp_variants(e):
    """smaller expressions derived from e (one step)"""
    kids = children(e)
    for k in kids:
        yield k  # hoist a child
    if isinstance(e, Seq) and len(e.items) > 1:
        for i in range(len(e.items)):
            items = e.items[:i] + e.items[i + 1:]
            yield items[0] if len(items) == 1 else Seq(items)
    if isinstance(e, Choice) and len(e.opts) > 1:
        for i in range(len(e.opts)):
            opts = e.opts[:i] + e.opts[i + 1:]
            yield opts[0] if len(opts) == 1 else Choice(opts)
    if kids:
        for i, k in enumerate(kids):
            for v in exp_variants(k):
                nk = list(kids)
                nk[i] = v
                yield rebuild(e, nk)
    elif not isinstance(e, Tok):
        yield Tok('a')


def grammar_variants(g: Grammar, start: str):
    for i, r in enumerate(g.rules):
        if r.decorators or r.params or r.kwparams:
            yield _with_rule(g, i, Rule(r.name, r.body, base=r.base))
        for v in exp_variants(r.body):
            yield _with_rule(g, i, Rule(r.name, v, r.decorators, r.params, r.kwparams, r.base))
    for k in list(g.directives):
        d = dict(g.directives)
        del d[k]
        yield Grammar(list(g.rules), d, tuple(g.keywords))
    if g.keywords:
        for i in range(len(g.keywords)):
            yield Grammar(list(g.rules), dict(g.directives), g.keywords[:i] + g.keywords[i + 1:])


def _with_rule(g, i, r):
    rules = list(g.rules)
    rules[i] = r
    return Grammar(rules, dict(g.directives), tuple(g.keywords))


def text_variants(t: str):
    n = len(t)
    if n == 0:
        return
    for size in (n // 2, 1):
        if size < 1:
            continue
        for i in range(0, n - size + 1):
            yield t[:i] + t[i + size:]
        if size == 1:
            break


def gsize(g: Grammar) -> int:
    return sum(sum(1 for _ in walk(r.body)) + 1 for r in g.rules)


def shrink(g: Grammar, start: str, text: str, pred, budget=250):
    """pred(g, start, text) -> bool (still the same failure).  Greedy first-improvement."""
    calls = 0
    g = reachable(g, start)
    improved = True
    while improved and calls < budget:
        improved = False
        for t2 in text_variants(text):
            calls += 1
            if calls > budget:
                break
            try:
                if pred(g, start, t2):
                    text = t2
                    improved = True
                    break
            except Exception:  # noqa: BLE001
                pass
        if improved:
            continue
        base = gsize(g)
        for g2 in grammar_variants(g, start):
            g2 = reachable(g2, start)
            if gsize(g2) >= base and len(g2.rules) >= len(g.rules) and g2.directives == g.directives \
                    and g2.keywords == g.keywords:
                continue
            calls += 1
            if calls > budget:
                break
            try:
                if pred(g2, start, text):
                    g = g2
                    improved = True
                    break
            except Exception:  # noqa: BLE001
                pass
    return g, text


def kind_sig(g: Grammar) -> str:
    return '+'.join(sorted(grammar_kinds(g)))
