"""Semantics-object probes: TatSu's official extension point used as the event recorder.

A probe answers every rule-like attribute name with an action that records
`(rule, ast, params, kwparams, pos)`; it implements `set_context` (to read `ctx.pos` at the
instant of the call) and `safe_context`.
"""
from __future__ import annotations

from .ref import canon


class Recorder:
    """records every action invocation; `transform(rule, ast, n)` decides the returned value"""

    def __init__(self, transform=None, record=True, tag_params=False):
        self.__dict__['tag_params'] = tag_params
        self.__dict__['events'] = []
        self.__dict__['ctx'] = None
        self.__dict__['transform'] = transform
        self.__dict__['record'] = record
        self.__dict__['calls'] = 0

    def set_context(self, ctx):
        self.__dict__['ctx'] = ctx

    def safe_context(self):
        return {}

    def __getattr__(self, name):
        if name.startswith('__') or name in ('set_context', 'safe_context', '_default'):
            raise AttributeError(name)
        d = self.__dict__

        def action(ast, *params, **kwparams):
            d['calls'] += 1
            kwparams.pop('parseinfo', None)
            pos = None
            ctx = d['ctx']
            if ctx is not None:
                try:
                    pos = ctx.pos
                except Exception:  # noqa: BLE001
                    pos = None
            if d['record']:
                d['events'].append((name, canon(ast), list(params), dict(kwparams), pos))
            t = d['transform']
            if t is None:
                return ast
            if d['tag_params']:
                # the parameters the action received are part of what the back-ends must agree on
                return (*t(name, ast, d['calls']), list(params), sorted(kwparams.items()))
            return t(name, ast, d['calls'])

        action.__name__ = name
        return action


def tagging(rule, ast, n):
    return ('T', rule, ast)


def make_semantics(name):
    if name == 'none':
        return None
    if name == 'identity':
        return Recorder(record=False)
    if name == 'tagging':
        return Recorder(transform=tagging, record=False)
    if name == 'tagging+params':
        return Recorder(transform=tagging, record=False, tag_params=True)
    raise ValueError(name)
