"""OUR grammar AST for TatSu's expression language, with printers.

Three back-ends: grammar text (``grammar_text``), ``tatsu.peg`` model objects
(``to_model`` — the "object route", ~25x cheaper than compiling text), and JSON
(``to_json``/``from_json`` for replays and shrinking).  Shares nothing with tatsu
except, in ``to_model``, the public node constructors.
"""
from __future__ import annotations

from dataclasses import dataclass, field, fields, is_dataclass
from typing import Any


class E:  # expression base
    pass


@dataclass(frozen=True)
class Tok(E):
    s: str


@dataclass(frozen=True)
class Pat(E):
    rx: str


@dataclass(frozen=True)
class Call(E):
    name: str


@dataclass(frozen=True)
class Seq(E):
    items: tuple


@dataclass(frozen=True)
class Choice(E):
    opts: tuple


@dataclass(frozen=True)
class Group(E):
    e: E


@dataclass(frozen=True)
class SkipGroup(E):
    e: E


@dataclass(frozen=True)
class Opt(E):
    e: E


@dataclass(frozen=True)
class Clo(E):
    e: E


@dataclass(frozen=True)
class PClo(E):
    e: E


@dataclass(frozen=True)
class Join(E):
    sep: E
    e: E
    positive: bool = False
    gather: bool = False
    assoc: str = ''   # 'left' | 'right': the documented s<{e}+ / s>{e}+ (always positive, separators kept)


@dataclass(frozen=True)
class LA(E):
    e: E


@dataclass(frozen=True)
class NLA(E):
    e: E


@dataclass(frozen=True)
class Named(E):
    n: str
    e: E


@dataclass(frozen=True)
class NamedList(E):
    n: str
    e: E


@dataclass(frozen=True)
class Over(E):
    e: E


@dataclass(frozen=True)
class OverList(E):
    e: E


@dataclass(frozen=True)
class Const(E):
    text: str


@dataclass(frozen=True)
class Alert(E):
    text: str
    level: int = 1


@dataclass(frozen=True)
class Void(E):
    pass


@dataclass(frozen=True)
class Fail(E):
    pass


@dataclass(frozen=True)
class EOF(E):
    pass


@dataclass(frozen=True)
class EOL(E):
    pass


@dataclass(frozen=True)
class Dot(E):
    pass


@dataclass(frozen=True)
class SkipTo(E):
    e: E


@dataclass(frozen=True)
class Empty(E):
    pass


@dataclass(frozen=True)
class Cut(E):
    pass


@dataclass(frozen=True)
class Meta(E):
    kind: str  # int uint float bool name


@dataclass(frozen=True)
class Include(E):
    name: str  # >rule


@dataclass
class Rule:
    name: str
    body: E
    decorators: tuple = ()
    params: tuple = ()
    kwparams: tuple = ()   # tuple of (k, v)
    base: str | None = None


@dataclass
class Grammar:
    rules: list
    directives: dict = field(default_factory=dict)
    keywords: tuple = ()

    def rule(self, name):
        for r in self.rules:
            if r.name == name:
                return r
        raise KeyError(name)

    def rulemap(self):
        return {r.name: r for r in self.rules}


ALL_NODES = {c.__name__: c for c in (
    Tok, Pat, Call, Seq, Choice, Group, SkipGroup, Opt, Clo, PClo, Join, LA, NLA, Named,
    NamedList, Over, OverList, Const, Alert, Void, Fail, EOF, EOL, Dot, SkipTo, Empty, Cut,
    Meta, Include)}


# ------------------------------------------------------------------ traversal
def children(e: E) -> list:
    if isinstance(e, Seq):
        return list(e.items)
    if isinstance(e, Choice):
        return list(e.opts)
    if isinstance(e, Join):
        return [e.sep, e.e]
    if hasattr(e, 'e'):
        return [e.e]
    return []


def walk(e: E):
    yield e
    for c in children(e):
        yield from walk(c)


def size(e: E) -> int:
    return sum(1 for _ in walk(e))


def kinds(e: E) -> set:
    return {type(x).__name__ for x in walk(e)}


def grammar_kinds(g: Grammar) -> set:
    out = set()
    for r in g.rules:
        out |= kinds(r.body)
    return out


def rebuild(e: E, kids: list) -> E:
    if isinstance(e, Seq):
        return Seq(tuple(kids))
    if isinstance(e, Choice):
        return Choice(tuple(kids))
    if isinstance(e, Join):
        return Join(kids[0], kids[1], e.positive, e.gather, e.assoc)
    if isinstance(e, (Named, NamedList)):
        return type(e)(e.n, kids[0])
    if hasattr(e, 'e'):
        return type(e)(kids[0])
    return e


# ------------------------------------------------------------------ JSON
def to_json(x: Any) -> Any:
    if isinstance(x, E):
        d = {'k': type(x).__name__}
        for f in fields(x):
            d[f.name] = to_json(getattr(x, f.name))
        return d
    if isinstance(x, Rule):
        return {'name': x.name, 'body': to_json(x.body), 'decorators': list(x.decorators),
                'params': list(x.params), 'kwparams': [list(p) for p in x.kwparams], 'base': x.base}
    if isinstance(x, Grammar):
        return {'rules': [to_json(r) for r in x.rules], 'directives': dict(x.directives),
                'keywords': list(x.keywords)}
    if isinstance(x, tuple):
        return [to_json(i) for i in x]
    return x


def from_json(d: Any) -> Any:
    if isinstance(d, dict) and 'k' in d:
        cls = ALL_NODES[d['k']]
        kw = {}
        for f in fields(cls):
            v = d[f.name]
            if isinstance(v, list):
                v = tuple(from_json(i) for i in v)
            else:
                v = from_json(v)
            kw[f.name] = v
        return cls(**kw)
    if isinstance(d, dict) and 'rules' in d:
        return Grammar([from_json(r) for r in d['rules']], dict(d.get('directives', {})),
                       tuple(d.get('keywords', ())))
    if isinstance(d, dict) and 'body' in d:
        return Rule(d['name'], from_json(d['body']), tuple(d.get('decorators', ())),
                    tuple(d.get('params', ())), tuple(tuple(p) for p in d.get('kwparams', ())),
                    d.get('base'))
    return d


# ---------------------------------------------------------------- text printer
def tok_text(s: str) -> str:
    # TatSu strings: python-like escapes, either quote kind
    if "'" not in s:
        q = "'"
    elif '"' not in s:
        q = '"'
    else:
        q = "'"
    body = s.replace('\\', '\\\\').replace(q, '\\' + q).replace('\n', '\\n').replace('\t', '\\t').replace('\r', '\\r')
    return q + body + q


def pat_text(rx: str) -> str:
    if '/' in rx:
        return '?"' + rx.replace('"', '\\"') + '"' if '"' in rx and "'" not in rx else "?'" + rx + "'"
    return f'/{rx}/'


def txt(e: E) -> str:
    if isinstance(e, Tok):
        return tok_text(e.s)
    if isinstance(e, Pat):
        return pat_text(e.rx)
    if isinstance(e, Call):
        return e.name
    if isinstance(e, Seq):
        if not e.items:
            return '()'
        return ' '.join(txt_item(i) for i in e.items)
    if isinstance(e, Choice):
        return ' | '.join(f'({txt(o)})' if isinstance(o, Choice) else txt(o) for o in e.opts)
    if isinstance(e, Group):
        return f'({txt(e.e)})'
    if isinstance(e, SkipGroup):
        return f'(?: {txt(e.e)})'
    if isinstance(e, Opt):
        return f'[{txt(e.e)}]'
    if isinstance(e, Clo):
        return '{' + txt(e.e) + '}'
    if isinstance(e, PClo):
        return '{' + txt(e.e) + '}+'
    if isinstance(e, Join):
        if e.assoc:
            return f'{txt_term(e.sep)}{"<" if e.assoc == "left" else ">"}{{{txt(e.e)}}}+'
        op = '.' if e.gather else '%'
        return f'{txt_term(e.sep)}{op}{{{txt(e.e)}}}' + ('+' if e.positive else '')
    if isinstance(e, LA):
        return '&' + txt_term(e.e)
    if isinstance(e, NLA):
        return '!' + txt_term(e.e)
    if isinstance(e, Named):
        return f'{e.n}:{txt_term(e.e)}'
    if isinstance(e, NamedList):
        return f'{e.n}+:{txt_term(e.e)}'
    if isinstance(e, Over):
        return '@:' + txt_term(e.e)
    if isinstance(e, OverList):
        return '@+:' + txt_term(e.e)
    if isinstance(e, Const):
        return f'`{e.text}`'
    if isinstance(e, Alert):
        return '^' * e.level + f'`{e.text}`'
    if isinstance(e, Void):
        return '()'
    if isinstance(e, Fail):
        return '!()'
    if isinstance(e, EOF):
        return '$'
    if isinstance(e, EOL):
        return '$->'
    if isinstance(e, Dot):
        return '/./'
    if isinstance(e, SkipTo):
        return '->' + txt_term(e.e)
    if isinstance(e, Empty):
        return '{}'
    if isinstance(e, Cut):
        return '~'
    if isinstance(e, Meta):
        return '@' + e.kind
    if isinstance(e, Include):
        return '>' + e.name
    raise TypeError(e)


def txt_term(e):
    if isinstance(e, (Seq, Choice, Named, NamedList, Over, OverList, LA, NLA, SkipTo)):
        return f'({txt(e)})'
    return txt(e)


def txt_item(e):
    if isinstance(e, (Choice, Seq)):
        return f'({txt(e)})'
    return txt(e)


def param_text(p):
    if isinstance(p, str) and p.isidentifier():
        return p
    return repr(p)


def grammar_text(g: Grammar, name: str | None = None) -> str:
    out = []
    if name:
        out.append(f'@@grammar :: {name}')
    for k, v in g.directives.items():
        if k in ('whitespace', 'comments', 'eol_comments'):
            if v is None or v == '':
                out.append(f'@@{k} :: None')   # `//` would start a comment in the grammar language
            else:
                out.append(f'@@{k} :: {pat_text(v)}')
        elif k == 'namechars':
            out.append(f'@@{k} :: {v!r}')
        else:
            out.append(f'@@{k} :: {v}')
    for kw in g.keywords:
        out.append('@@keyword :: ' + (kw if kw.isidentifier() else repr(kw)))
    for r in g.rules:
        for d in r.decorators:
            out.append(f'@{d}')
        ps = [param_text(p) for p in r.params] + [f'{k}={param_text(v)}' for k, v in r.kwparams]
        p = f'[{", ".join(ps)}]' if ps else ''
        base = f' < {r.base}' if r.base else ''
        out.append(f'{r.name}{p}{base} = {txt(r.body)} ;')
    return '\n'.join(out) + '\n'


# ------------------------------------------------------------- model builder
def to_model(g: Grammar, name='T', **settings):
    """object route: build tatsu.peg nodes directly (the route tatsu/g2e uses)"""
    from tatsu import peg

    def b(e):
        if isinstance(e, Tok):
            return peg.Token(token=e.s)
        if isinstance(e, Pat):
            return peg.Pattern(pattern=e.rx)
        if isinstance(e, Call):
            return peg.Call(name=e.name)
        if isinstance(e, Seq):
            if len(e.items) == 1:
                return b(e.items[0])
            return peg.Sequence(sequence=[peg.Group(exp=b(i)) if isinstance(i, (Choice, Seq)) else b(i)
                                          for i in e.items])
        if isinstance(e, Choice):
            return peg.Choice(options=[peg.Option(exp=peg.Group(exp=b(o)) if isinstance(o, Choice) else b(o))
                                       for o in e.opts])
        if isinstance(e, Group):
            return peg.Group(exp=b(e.e))
        if isinstance(e, SkipGroup):
            return peg.SkipGroup(exp=b(e.e))
        if isinstance(e, Opt):
            return peg.Optional(exp=b(e.e))
        if isinstance(e, Clo):
            return peg.Closure(exp=b(e.e))
        if isinstance(e, PClo):
            return peg.PositiveClosure(exp=b(e.e))
        if isinstance(e, Join):
            if e.assoc:
                return (peg.LeftJoin if e.assoc == 'left' else peg.RightJoin)(exp=b(e.e), sep=bt(e.sep))
            cls = {(False, False): peg.Join, (True, False): peg.PositiveJoin,
                   (False, True): peg.Gather, (True, True): peg.PositiveGather}[(e.positive, e.gather)]
            return cls(exp=b(e.e), sep=bt(e.sep))
        if isinstance(e, LA):
            return peg.Lookahead(exp=bt(e.e))
        if isinstance(e, NLA):
            return peg.NegativeLookahead(exp=bt(e.e))
        if isinstance(e, Named):
            return peg.Named(name=e.n, exp=bt(e.e))
        if isinstance(e, NamedList):
            return peg.NamedList(name=e.n, exp=bt(e.e))
        if isinstance(e, Over):
            return peg.Override(exp=bt(e.e))
        if isinstance(e, OverList):
            return peg.OverrideList(exp=bt(e.e))
        if isinstance(e, Const):
            lit = const_literal(e.text)
            # the text route delivers the value as the node's ast; a falsy number given as `literal=` would be dropped
            return peg.Constant(ast=lit) if not isinstance(lit, str) else peg.Constant(literal=lit)
        if isinstance(e, Alert):
            return peg.Alert(literal=e.text, level=e.level)
        if isinstance(e, Void):
            return peg.Void()
        if isinstance(e, Fail):
            return peg.Fail()
        if isinstance(e, EOF):
            return peg.EOF()
        if isinstance(e, EOL):
            return peg.EOL()
        if isinstance(e, Dot):
            return peg.Dot()
        if isinstance(e, SkipTo):
            return peg.SkipTo(exp=bt(e.e))
        if isinstance(e, Empty):
            return peg.EmptyClosure()
        if isinstance(e, Cut):
            return peg.Cut()
        if isinstance(e, Include):
            return peg.RuleInclude(name=e.name)
        if isinstance(e, Meta):
            cls = {'int': peg.IntMeta, 'uint': peg.UIntMeta, 'float': peg.FloatMeta,
                   'bool': peg.BoolMeta, 'name': peg.NameMeta}[e.kind]
            return cls()
        raise TypeError(e)

    def bt(e):
        # operand position of a prefix operator: text needs parentheses there, so the
        # model gets the Group the text route would produce
        if isinstance(e, (Seq, Choice, Named, NamedList, Over, OverList, LA, NLA, SkipTo)):
            return peg.Group(exp=b(e))
        return b(e)

    rules = []
    byname = {}
    for r in g.rules:
        if r.base:
            # a based rule refers to an EARLIER rule (as the grammar language requires)
            rule = peg.BasedRule(name=r.name, exp=b(r.body), baserule=byname[r.base], base=r.base,
                                 decorators=list(r.decorators), params=tuple(r.params), kwparams=dict(r.kwparams))
        else:
            rule = peg.Rule(name=r.name, exp=b(r.body), decorators=list(r.decorators),
                            params=tuple(r.params), kwparams=dict(r.kwparams))
        byname[r.name] = rule
        rules.append(rule)
    return peg.Grammar(name, rules, directives=directive_values(g.directives), keywords=tuple(g.keywords),
                       **settings)


def const_literal(text: str):
    """the literal the grammar-text route stores for a constant: numbers are converted, everything else stays text"""
    import ast
    try:
        v = ast.literal_eval(text.strip())
    except Exception:  # noqa: BLE001 - not a literal (literal_eval raises TypeError for `{{1}}`, MemoryError ...)
        return text
    if isinstance(v, (int, float)) and not isinstance(v, bool):
        return v
    return text


def directive_values(d: dict) -> dict:
    """directive values as the grammar-text route delivers them (booleans, None, strings)"""
    out = {}
    for k, v in d.items():
        if v == 'True':
            v = True
        elif v == 'False':
            v = False
        elif v == 'None':
            v = None
        out[k] = v
    return out
