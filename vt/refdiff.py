"""Online oracle: one execution of the real grammar model compared with REF."""
from __future__ import annotations

from . import lang as L
from . import shrink as S
from .ref import ref_run
from .tsu import StepHeart, build, run_wrapped, wrapped  # noqa: F401


def step_budget(g: L.Grammar, text: str) -> int:
    """generous logical budget (rule invocations) for one parse: far above any legitimate need"""
    # calibrated on the unchanged tree: the largest observed ratio calls / (n * (len+1)) over the C01 and C03
    # workloads is 1.5, so this leaves a margin of >25x and still ends a runaway parse within seconds
    n = S.gsize(g)
    return 1000 + 40 * n * (len(text) + 1)


class Case:
    """a grammar + start rule with its real model built once"""

    def __init__(self, g: L.Grammar, start: str | None = None, route='object', settings=None,
                 parse_settings=None):
        self.g = g
        self.start = start or g.rules[0].name
        self.route = route
        self.settings = settings or {}          # REF-side effective settings
        self.parse_settings = parse_settings or {}  # passed to model.parse
        self.build_error = None
        try:
            self.model = build(wrapped(g, self.start), route=route)
        except Exception as e:  # noqa: BLE001
            self.model = None
            self.build_error = (type(e).__name__, str(e)[:200])

    def tatsu(self, text):
        if self.model is None:
            return ('EXC', 'build:' + self.build_error[0], self.build_error[1])
        return run_wrapped(self.model, text, budget=step_budget(self.g, text), **self.parse_settings)

    def ref(self, text, max_steps=30000):
        return ref_run(self.g, text, self.start, settings=self.settings, max_steps=max_steps)


def relation(a, b, flagged) -> str | None:
    """tag of the disagreement between REF outcome a and TatSu outcome b (None = agree)"""
    if b[0] == 'EXC':
        return 'exc:' + b[1]
    if a[0] != b[0]:
        return 'accept' if a[0] == 'ok' else 'reject'   # what REF says should have happened
    if a[0] == 'ok':
        if a[1] != b[1]:
            return 'len'
        if not flagged and a[2] != b[2]:
            return 'ast'
    return None


def compare(case: Case, text: str):
    """-> (tag|None, ref_outcome, tatsu_outcome, ref)   tag 'ref-budget' = inconclusive"""
    a, r = case.ref(text)
    if a[0] == 'budget':
        return 'ref-budget', a, None, r
    b = case.tatsu(text)
    tag = relation(a, b, bool(r.nonw))
    if tag is not None and 'failing-constant' in r.nonw:
        # second reading of a constant that fails to evaluate: the failure is local to the expression
        a2, r2 = ref_run(case.g, text, case.start, settings=dict(case.settings, constfail='local'), max_steps=30000)
        if a2[0] != 'budget' and relation(a2, b, bool(r2.nonw)) is None:
            r.nonw.add('failing-constant:local-reading')
            return None, a2, b, r
    return tag, a, b, r


def shrink_case(g, start, text, tag, route='object', settings=None, parse_settings=None, budget=200):
    def pred(g2, s2, t2):
        c = Case(g2, s2, route=route, settings=settings, parse_settings=parse_settings)
        if c.model is None and not tag.startswith('exc:build'):
            return False
        t, *_ = compare(c, t2)
        return t == tag
    try:
        return S.shrink(g, start, text, pred, budget=budget)
    except Exception:  # noqa: BLE001
        return S.reachable(g, start), text


def witness(g, start, text, a, b, r=None, **extra):
    w = {'grammar': L.to_json(g), 'grammar_text': L.grammar_text(g), 'start': start, 'text': text,
         'ref': a, 'tatsu': b}
    if r is not None:
        w['ref_flags'] = sorted(r.nonw)
    w.update(extra)
    return w
