"""Shared helpers: tree identity, hashing, the per-shard accumulator."""
from __future__ import annotations

import hashlib
import json
import os
import subprocess
import sys
import time
from typing import Any

VERIF = os.path.dirname(os.path.dirname(os.path.abspath(__file__)))
REPO = os.environ.get('VERIF_REPO', '/repo')


def h64(*parts: Any) -> int:
    """stable 63-bit hash of a case description (used for distinct counting)"""
    s = json.dumps(parts, sort_keys=True, default=repr, ensure_ascii=True)
    return int.from_bytes(hashlib.blake2b(s.encode(), digest_size=8).digest(), 'big') >> 1


def hs(*parts: Any) -> str:
    s = json.dumps(parts, sort_keys=True, default=repr, ensure_ascii=True)
    return hashlib.blake2b(s.encode(), digest_size=6).hexdigest()


def tree_identity() -> dict:
    def git(*a):
        try:
            return subprocess.run(['git', '-C', REPO, *a], capture_output=True, text=True,
                                  timeout=30).stdout
        except Exception as e:  # pragma: no cover
            return f'<{type(e).__name__}>'
    head = git('rev-parse', 'HEAD').strip()
    diff = git('diff', 'HEAD', '--', 'tatsu')
    return {'repo': REPO, 'head': head,
            'worktree_diff_sha': hashlib.sha1(diff.encode()).hexdigest()[:12] if diff else None}


def assert_repo_tatsu():
    import tatsu
    f = os.path.realpath(tatsu.__file__)
    if not f.startswith(os.path.realpath(REPO) + os.sep):
        raise SystemExit(f'tatsu imported from {f}, not from {REPO}')
    return f


def jsonable(v: Any, depth: int = 0) -> Any:
    """best-effort conversion of a witness/sample to JSON data"""
    if depth > 40:
        return '<deep>'
    if v is None or isinstance(v, (bool, int, float, str)):
        if isinstance(v, float) and v != v:
            return 'nan'
        return v
    if isinstance(v, dict):
        return {str(k): jsonable(x, depth + 1) for k, x in v.items()}
    if isinstance(v, (list, tuple, set, frozenset)):
        return [jsonable(x, depth + 1) for x in v]
    return repr(v)[:300]


class Acc:
    """what one shard observed"""

    MAX_SAMPLES = 4
    MAX_VIOLATIONS = 40
    MAX_NONTRIVIAL = 400_000

    def __init__(self):
        self.evaluations = 0
        self.counters: dict[str, int] = {}
        self.nontrivial: set[int] = set()
        self.samples: list = []
        self.violations: list[dict] = []
        self.violation_count = 0
        self.notes: list[str] = []
        self.t0 = time.monotonic()

    def count(self, name: str, n: int = 1):
        self.counters[name] = self.counters.get(name, 0) + n

    def peak(self, name: str, v: int):
        if v > self.counters.get(name, 0):
            self.counters[name] = v

    def nontriv(self, *parts):
        if len(self.nontrivial) < self.MAX_NONTRIVIAL:
            self.nontrivial.add(h64(*parts))

    def sample(self, s):
        if len(self.samples) < self.MAX_SAMPLES:
            self.samples.append(jsonable(s))

    def violation(self, sig: str, what: str, witness: dict):
        """sig: mechanism signature (matched against known_findings.json)"""
        self.violation_count += 1
        self.count('violations:' + sig)
        n_same = sum(1 for v in self.violations if v['sig'] == sig)
        if len(self.violations) < self.MAX_VIOLATIONS and n_same < 3:
            self.violations.append({'sig': sig, 'what': what, 'witness': jsonable(witness)})

    def note(self, s: str):
        if len(self.notes) < 20 and s not in self.notes:
            self.notes.append(s)

    def result(self) -> dict:
        return {
            'evaluations': self.evaluations,
            'counters': self.counters,
            'nontrivial': sorted(self.nontrivial),
            'samples': self.samples,
            'violations': self.violations,
            'violation_count': self.violation_count,
            'notes': self.notes,
            'wall_s': round(time.monotonic() - self.t0, 2),
        }


def eprint(*a):
    print(*a, file=sys.stderr, flush=True)
