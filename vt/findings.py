"""known_findings.json: committed list of genuine defects, keyed by mechanism signature.

Never written at run time.  status "known" suppresses the VIOLATION for that signature
(a KNOWN-FINDING line is printed instead); status "fixed" suppresses nothing.
"""
from __future__ import annotations

import fnmatch
import json
import os

from .common import VERIF

PATH = os.path.join(VERIF, 'known_findings.json')


def load() -> list[dict]:
    try:
        with open(PATH) as f:
            return json.load(f).get('findings', [])
    except FileNotFoundError:
        return []


def match(kf: list[dict], prop: str, sig: str) -> dict | None:
    for e in kf:
        if e.get('status') != 'known' or e.get('property') != prop:
            continue
        pat = e.get('sig', '')
        if pat == sig or (e.get('glob') and fnmatch.fnmatchcase(sig, pat)):
            return e
    return None
