"""C08 oracle pieces: exception-class judge at the API boundary, failure position/info/rendering judge,
logical step bound for acyclic grammars, hostile-text and grammar-text-mutation generators.

Shares nothing with tatsu/input: the line splitter below is one left-to-right scan.
"""
from __future__ import annotations

import os
import re
import traceback

from .. import lang as L
from ..common import REPO

# ------------------------------------------------------------------------------ line splitter
# characters (besides CR, LF) that python's str.splitlines treats as line boundaries.  The statement fixes
# "line" only for CR / LF / CRLF; for texts containing one of these the oracle accepts either reading.
UNI_BREAKS = '\x0b\x0c\x1c\x1d\x1e\x85\u2028\u2029'


def split_lines(text: str, extra: str = '') -> list[tuple[int, int, int]]:
    """[(start, end_without_break, end_with_break)] for every line with at least one character"""
    out = []
    i = start = 0
    n = len(text)
    while i < n:
        c = text[i]
        if c == '\r' and i + 1 < n and text[i + 1] == '\n':
            out.append((start, i, i + 2))
            i = start = i + 2
        elif c == '\r' or c == '\n' or c in extra:
            out.append((start, i, i + 1))
            i = start = i + 1
        else:
            i += 1
    if start < n:
        out.append((start, n, n))
    return out


def _candidates(lines, n, pos):
    """acceptable (line, col, start, end_wo, end_with) for an offset; two readings at pos == len"""
    def at(p):
        for k, (s, e, eb) in enumerate(lines):
            if s <= p < eb:
                return (k, p - s, s, e, eb)
        raise AssertionError(p)

    if pos < n:
        return [at(pos)]
    ends_with_break = bool(lines) and lines[-1][1] != lines[-1][2]
    if not lines or ends_with_break:
        onepast = (len(lines), 0, n, n, n)
    else:
        s, e, eb = lines[-1]
        onepast = (len(lines) - 1, n - s, s, e, eb)
    out = [onepast]
    if n:
        clamped = at(n - 1)
        if clamped != onepast:
            out.append(clamped)
    return out


def has_unicode_breaks(text: str) -> bool:
    return any(c in UNI_BREAKS for c in text)


def info_problem(text: str, pos: int, info) -> str | None:
    """judge a LineInfo-like (source, line, col, start, end, text) against `pos` -> None | what is wrong.
    Whether a line's text carries its line break is left open: both accepted if text == source[start:end]."""
    try:
        _src, line, col, start, end, ltext = info
    except Exception:  # noqa: BLE001
        return 'shape'
    if not all(isinstance(v, int) for v in (line, col, start, end)) or not isinstance(ltext, str):
        return 'shape'
    n = len(text)
    readings = [split_lines(text)]
    if has_unicode_breaks(text):
        readings.append(split_lines(text, UNI_BREAKS))
    first = None
    for lines in readings:
        for (k, c, s, e, eb) in _candidates(lines, n, pos):
            if line != k:
                bad = 'line'
            elif col != c:
                bad = 'col'
            elif start != s:
                bad = 'start'
            elif end not in (e, eb):
                bad = 'end'
            elif ltext != text[s:end]:
                bad = 'text'
            else:
                return None
            first = first or bad
    return first


def pos_kind(text: str, pos: int) -> str:
    n = len(text)
    if n == 0:
        return 'empty-text'
    if pos >= n:
        return 'end-of-text'
    if pos == 0:
        return 'zero'
    c = text[pos]
    if c in '\r\n':
        return 'line-end'
    return 'inside'


# ------------------------------------------------------------------------------ exception judge
_TATSU_ROOT = os.path.join(os.path.realpath(REPO), 'tatsu') + os.sep


def innermost_tatsu_function(e: BaseException) -> str:
    name = None
    try:
        for fr in traceback.extract_tb(e.__traceback__):
            if os.path.realpath(fr.filename).startswith(_TATSU_ROOT) and not fr.name.startswith('<'):
                name = fr.name
    except Exception:  # noqa: BLE001
        pass
    return name or '?'


def innermost_boot_rule(e: BaseException) -> str:
    """the grammar-language rule (a method of the bootstrap parser) that was being parsed when e was raised"""
    name = None
    try:
        for fr in traceback.extract_tb(e.__traceback__):
            fn = fr.filename.replace(os.sep, '/')
            if fn.endswith('/boot/bootstrap.py') and not fr.name.startswith(('_', '<')):
                name = fr.name
    except Exception:  # noqa: BLE001
        pass
    return name or '?'


def class_name(e: BaseException) -> str:
    if isinstance(e, re.error):
        return 're.error'
    return type(e).__name__


def escape_sig(e: BaseException) -> str:
    """mechanism signature of a non-TatSu exception escaping the boundary: class @ innermost tatsu function
    (+ a lexeme tag for the number converters)"""
    if isinstance(e, RecursionError):
        return 'exc:RecursionError'
    fn = innermost_tatsu_function(e)
    sig = f'exc:{class_name(e)}@{fn}'
    if isinstance(e, ValueError) and fn in ('matchint', 'matchuint', 'matchsigned', 'matchfloat'):
        msg = str(e)
        if 'Exceeds the limit' in msg:
            sig += ':digit-limit'
        elif msg.rstrip().endswith("''"):
            sig += ':empty-lexeme'
        else:
            lex = msg.rsplit(': ', 1)[-1].strip().strip("'")
            if lex.startswith('_'):
                sig += ':leading-underscore'
            elif any(c.isdigit() and not c.isdecimal() for c in lex):
                sig += ':non-decimal-digit'
            elif any(c in '+-' for c in lex[1:]) and fn == 'matchfloat' and not re.search(r'[eE][+-]', lex):
                sig += ':sign-in-fraction'
            else:
                sig += ':bad-lexeme'
    return sig


def is_tatsu_exception(e) -> bool:
    from tatsu.exceptions import TatSuException
    return isinstance(e, TatSuException)


def judge_failure(e, text: str) -> tuple[list[tuple[str, str]], dict]:
    """a FailedParse against the text it was raised for -> ([(sig, what)], stats)"""
    from tatsu.ztyle import Color
    problems = []
    st = {'pos_kind': None, 'renders': 0, 'unicode_breaks': has_unicode_breaks(text)}
    try:
        pos, info = e.pos, e.info
    except Exception as x:  # noqa: BLE001
        return [(f'failure:attr:{escape_sig(x)}', f'reading .pos/.info raised {type(x).__name__}: {x}')], st
    n = len(text)
    if not isinstance(pos, int) or isinstance(pos, bool) or pos < 0 or pos > n:
        problems.append(('failure:pos-out-of-range', f'{type(e).__name__}.pos={pos!r} for a text of length {n}'))
    else:
        st['pos_kind'] = pos_kind(text, pos)
        bad = info_problem(text, pos, info)
        if bad:
            where = st['pos_kind'] if st['pos_kind'] in ('end-of-text', 'empty-text') else 'in-text'
            uni = ':unicode-breaks' if st['unicode_breaks'] else ''
            try:
                shown = tuple(info)[1:5]
            except Exception:  # noqa: BLE001
                shown = repr(info)[:80]
            problems.append((f'failure:info:{bad}:{where}{uni}',
                             f'{type(e).__name__} at pos {pos} carries (line, col, start, end)={shown!r}; independent '
                             f'splitter: {[c[:3] + (c[4],) for c in _candidates(split_lines(text), n, pos)]!r}'))
    for name, fn in (('str', lambda: str(e)), ('render', lambda: e.render(Color.never()))):
        try:
            s = fn()
            st['renders'] += 1
            if not isinstance(s, str):
                problems.append((f'failure:{name}:not-a-string', f'{name}() of {type(e).__name__} returned {type(s).__name__}'))
        except Exception as x:  # noqa: BLE001
            problems.append((f'failure:{name}:{escape_sig(x)}',
                             f'{name}() of {type(e).__name__} at pos {pos!r} raised {type(x).__name__}: {str(x)[:120]}'))
    return problems, st


# ------------------------------------------------------------------------------ logical step bound
SAT = 10 ** 15


def poll_bound(g: L.Grammar, start: str, n: int) -> int | None:
    """upper bound on rule invocations (= heart polls) of a parse of a text of length n WITHOUT memoization,
    for a grammar whose rules do not call each other recursively; None if there is recursion or an unknown rule.
    Every loop (closure, join, skip-to) must advance at least one character per iteration."""
    rules = g.rulemap()
    memo: dict = {}
    active = set()

    def rule_cost(name):
        if name in memo:
            return memo[name]
        if name in active or name not in rules:
            raise LookupError(name)
        active.add(name)
        c = 1 + cost(rules[name].body)
        active.discard(name)
        memo[name] = min(c, SAT)
        return memo[name]

    def cost(e):
        if isinstance(e, (L.Call, L.Include)):
            return rule_cost(e.name)
        kids = L.children(e)
        c = sum(cost(k) for k in kids)
        if isinstance(e, (L.Clo, L.PClo, L.Join)):
            c *= (n + 2)
        elif isinstance(e, L.SkipTo):
            c *= (n + 3)
        return min(c, SAT)

    try:
        for r in g.rules:
            if r.base:
                return None
        return rule_cost(start)
    except LookupError:
        return None


# ------------------------------------------------------------------------------ hostile texts
HOSTILE = {
    'numeric-debris': ['+', '-', '.', '_', 'e', 'E', '+.', '-_', '1_', '_1', '1e', '1e+', '1.', '.5', '1.+5', '1.-5',
                       '1._5', '1__2', '+-1', '0x1', '1e5', '-3', '+7', '1_000', '3.25', '1.5e-3', '1.e5', '1e', '--'],
    'unicode-digits': ['\u0661\u0662', '\u00b2', '\u2460', '\U0001d7d9', '\u0969', '\u00bd', '5\u00b2', '\u2082'],
    'control': ['\x00', '\x01', '\x07', '\x08', '\x1b', '\x1f', '\x7f', '\x1b[31m'],
    'line-breaks': ['\r', '\r\n', '\n', '\n\r', '\r\r', '\n\n', ' \r', '\r '],
    'unicode-breaks': ['\x85', '\u2028', '\u2029', '\x0b', '\x0c', '\x1c', '\x1d', '\x1e'],
    'spaces': [' ', '\t', '  ', '\xa0', '\u3000', '\u200b', '\ufeff', '\u2003'],
    'astral': ['\U0001f600', '\U00010348', '\U0010ffff', '\U0001f468\u200d\U0001f469', '\ud800'],
    'combining': ['a\u0301', '\u0301', 'e\u0323\u0301', '\u0300\u0300', 'c\u0327'],
    'words': ['true', 'True', 'false', 'False', 'TRUE', 'tru', 'a', 'b', 'c', 'ab', 'abc', ',', '1', '42', 'name_1',
              '\u00e9t\u00e9', '\u00df', '\u0130', 'A', 'B', 'x', '_x', 'a1'],
}
HOSTILE_CLASSES = sorted(HOSTILE)
HOSTILE_ALPHABET = ''.join(sorted({p for ps in HOSTILE.values() for p in ps if len(p) == 1}))


def long_line(rng) -> str:
    n = rng.choice([1500, 4000, 6000])
    unit = rng.choice(['a', 'a ', '1', '1_', 'a,', 'ab ', '\u0301', '1.', '+', 'true ', '\U0001f600', 'b'])
    s = (unit * (n // len(unit) + 1))[:n]
    if rng.random() < 0.3:
        k = rng.randrange(len(s))
        s = s[:k] + rng.choice(['!', '\x00', '\r', ',']) + s[k:]
    return s


def hostile_text(rng, seedtext: str = '') -> tuple[str, set]:
    """-> (text, classes used)"""
    r = rng.random()
    used = set()
    if r < 0.03:
        return '', {'empty'}
    if r < 0.05:
        return long_line(rng), {'long-line'}
    parts = []
    k = rng.choice([1, 1, 2, 2, 3, 4, 5, 8])
    for _ in range(k):
        q = rng.random()
        if seedtext and q < 0.3:
            parts.append(seedtext)
            used.add('derived')
        else:
            c = rng.choice(HOSTILE_CLASSES)
            used.add(c)
            parts.append(rng.choice(HOSTILE[c]))
        if rng.random() < 0.35:
            sep = rng.choice([' ', ' ', '\n', '\r\n', '\r', '\t', '\x85', '\u2028', ','])
            parts.append(sep)
    return ''.join(parts), used


# ------------------------------------------------------------------------------ grammar-text mutation
GRAMMAR_TOKEN_RE = re.compile(
    r"""@@[A-Za-z_]+|@\+:|@:|@[A-Za-z_]+|\$->|->|\+:|::|'(?:\\.|[^'\\\n])*'|"(?:\\.|[^"\\\n])*"|"""
    r"""\?'[^'\n]*'|\?"[^"\n]*"|/(?:\\.|[^/\\\n])+/|`[^`\n]*`|[A-Za-z_][A-Za-z_0-9]*|\d+|\s+|.""", re.S)

GRAMMAR_VOCAB = ['=', ';', '|', '(', ')', '[', ']', '{', '}', '}+', '}*', '+', '*', '~', '&', '!', ':', '+:', '@:', '@+:',
                 '->', '$', '$->', '%', '.', ',', '<', '>', '^', '`', '``', '`x`', '^`w`', '/./', '/a/', '/(/', '/[/', '//',
                 "''", '""', "'a'", '"b"', "'", '"', '/', '?', "?'a'", '?/a/?', '@@', '@@whitespace', '@@keyword',
                 '@@nameguard', '@@ignorecase', '@@left_recursion', '@@parseinfo', '@@grammar', '@@namechars',
                 '@@comments', '@@eol_comments', '@@foo', '::', ':=', 'None', 'True', 'False', '@int', '@uint', '@float',
                 '@bool', '@name', '@foo', '@', '@override', '@nomemo', '@name\n', '()', '{}', '[]', '(?:', '(*', '*)',
                 '#', '# c\n', '//', '#include :: "nofile"', 'start', 'x', 'start =', '\n', '\n\n', ' ', '\\', '\\x',
                 '(?i)', '\x00', '\x85', '\u2028', '\U0001f600', '\u00e9', '\ufeff', '0', '1.5', '0x1F', '-1', '=>', '>>',
                 '...', '..', '\'\'\'', '"""', '\'\'\'a\'\'\'', '<<', 'r\'a\'', '[a, b=1]', '::T', '(T)', '\u00a7']

CHAR_POOL = "=;|()[]{}+*~&!:@->$%.,<>^`/'\"?#\\ \n\t\rax1_" + '\x00\x85\u2028\U0001f600\u00e9\ufeff'


def tokens_of(text: str) -> list[str]:
    return GRAMMAR_TOKEN_RE.findall(text)


def mutate_chars(rng, s: str) -> tuple[str, str]:
    op = rng.choice(['insert', 'delete', 'transpose', 'duplicate'])
    if not s:
        return rng.choice(CHAR_POOL), 'char-insert'
    i = rng.randrange(len(s))
    if op == 'insert':
        return s[:i] + rng.choice(CHAR_POOL) + s[i:], 'char-insert'
    if op == 'delete':
        k = rng.choice([1, 1, 1, 2, 5])
        return s[:i] + s[i + k:], 'char-delete'
    if op == 'transpose':
        if i + 1 >= len(s):
            i = max(0, len(s) - 2)
        return s[:i] + s[i + 1:i + 2] + s[i:i + 1] + s[i + 2:], 'char-transpose'
    k = rng.choice([1, 1, 2, 4, 12])
    return s[:i] + s[i:i + k] + s[i:], 'char-duplicate'


def mutate_tokens(rng, s: str) -> tuple[str, str]:
    toks = tokens_of(s)
    op = rng.choice(['insert', 'delete', 'transpose', 'duplicate'])
    if not toks:
        return rng.choice(GRAMMAR_VOCAB), 'token-insert'
    solid = [i for i, t in enumerate(toks) if not t.isspace()] or list(range(len(toks)))
    i = rng.choice(solid)
    if op == 'insert':
        toks.insert(i, rng.choice(GRAMMAR_VOCAB))
        return ''.join(toks), 'token-insert'
    if op == 'delete':
        del toks[i]
        return ''.join(toks), 'token-delete'
    if op == 'transpose':
        j = rng.choice(solid)
        toks[i], toks[j] = toks[j], toks[i]
        return ''.join(toks), 'token-transpose'
    toks.insert(i, toks[i])
    return ''.join(toks), 'token-duplicate'


def rule_blocks(src: str) -> list[str]:
    """a shipped grammar cut at blank lines (rules, directive groups)"""
    return [b for b in re.split(r'\n[ \t]*\n', src) if b.strip()]


def nesting_depth(text: str) -> int:
    d = m = 0
    for c in text:
        if c in '([{':
            d += 1
            m = max(m, d)
        elif c in ')]}':
            d = max(0, d - 1)
    return m


# ------------------------------------------------------------------------------ logical clocks and watchdog
class StepsExceeded(BaseException):
    """the counting input ran out of its logical budget"""


class Watchdog(BaseException):
    """wall-clock watchdog (=> inconclusive, never a violation)"""


def ops_bound(g: L.Grammar, start: str, n: int) -> int | None:
    """upper bound on expression evaluations of a parse of a text of length n WITHOUT memoization for an acyclic
    grammar (every loop advances >= 1 character per iteration); None when the rules are recursive"""
    rules = g.rulemap()
    memo: dict = {}
    active = set()

    def rule_cost(name):
        if name in memo:
            return memo[name]
        if name in active or name not in rules:
            raise LookupError(name)
        active.add(name)
        c = 2 + cost(rules[name].body)
        active.discard(name)
        memo[name] = min(c, SAT)
        return memo[name]

    def cost(e):
        if isinstance(e, (L.Call, L.Include)):
            return rule_cost(e.name)
        c = 1 + sum(cost(k) for k in L.children(e))
        if isinstance(e, (L.Clo, L.PClo, L.Join)):
            c = 1 + (n + 2) * (c + 1)
        elif isinstance(e, L.SkipTo):
            c = 1 + (n + 3) * (c + 2)
        return min(c, SAT)

    try:
        if any(r.base for r in g.rules):
            return None
        return rule_cost(start)
    except LookupError:
        return None


_COUNTING: dict = {}


def counting_text_class(kind='TextLines'):
    """a real TextLines (or legacy Buffer) whose real cursor counts the calls made through the public Cursor protocol"""
    if kind in _COUNTING:
        return _COUNTING[kind]
    if kind == 'Buffer':
        from tatsu.input.buffer import Buffer as Base, BufferCursor as BaseCursor
    else:
        from tatsu.input.textlines import TextLines as Base, TextLinesCursor as BaseCursor

    def ticking(name):
        base = getattr(BaseCursor, name)

        def method(self, *a, **kw):
            box = self.input.vt_clock
            box[0] += 1
            if box[0] > box[1]:
                raise StepsExceeded(box[1])
            return base(self, *a, **kw)
        method.__name__ = name
        return method

    names = [n for n in ('goto', 'move', 'next', 'next_token', 'match', 'matchre', 'matcheol', 'matchname', 'matchint',
                         'matchuint', 'matchfloat', 'matchbool', 'atend') if callable(getattr(BaseCursor, n, None))]
    CountingCursor = type('CountingCursor', (BaseCursor,), {n: ticking(n) for n in names})

    class CountingText(Base):
        def __init__(self, text, budget, **settings):
            self.vt_clock = [0, budget]
            super().__init__(text, **settings)

        def newcursor(self):
            if kind == 'Buffer':
                return CountingCursor(self, pos=self.pos)
            return CountingCursor(self)

    _COUNTING[kind] = CountingText
    return CountingText


class watchdog:
    """with watchdog(seconds): ...  raises Watchdog inside the block after that much CPU time of this process
    (ITIMER_PROF: independent of machine load)"""

    def __init__(self, seconds):
        self.seconds = seconds

    def _fire(self, _sig, _frame):
        raise Watchdog(self.seconds)

    def __enter__(self):
        import signal
        self._old = signal.signal(signal.SIGPROF, self._fire)
        # repeating: an exception raised by the handler inside a weakref/GC callback is swallowed
        # ("Exception ignored in ..."), so keep firing until it propagates
        signal.setitimer(signal.ITIMER_PROF, self.seconds, 0.25)
        return self

    def __exit__(self, *exc):
        import signal
        signal.setitimer(signal.ITIMER_PROF, 0)
        signal.signal(signal.SIGPROF, self._old)
        return False


class Stalled(StepsExceeded):
    """the call clock saw too many Python function calls without either logical clock advancing"""


class stall_clock:
    """with stall_clock(progress, limit): ...   a third logical clock for loops that make neither rule invocations nor
    cursor operations (e.g. a constant re-evaluated forever): sys.monitoring counts Python function entries; when more
    than `limit` of them happen while progress() (rule invocations + cursor operations) stays the same, Stalled is
    raised inside the monitored code.  Stalled is a BaseException, so `except Exception` in the code under test cannot
    swallow it.  Nothing in the repository is named: any pure-Python loop that calls functions is seen."""
    TOOL = 4
    CHECK_EVERY = 2048

    def __init__(self, progress, limit):
        self.progress = progress
        self.limit = limit
        self.n = 0
        self.mark = 0
        self.last = None
        self.peak_gap = 0
        self.armed = False

    def _cb(self, _code, _offset):
        self.n += 1
        if self.n % self.CHECK_EVERY:
            return
        p = self.progress()
        if p != self.last:
            self.last = p
            self.mark = self.n
            return
        gap = self.n - self.mark
        if gap > self.peak_gap:
            self.peak_gap = gap
        if gap > self.limit:
            self.mark = self.n
            raise Stalled(self.limit)

    def __enter__(self):
        import sys
        mon = getattr(sys, 'monitoring', None)
        if mon is None:
            return self
        try:
            mon.use_tool_id(self.TOOL, 'vt-stall-clock')
        except ValueError:
            return self
        mon.register_callback(self.TOOL, mon.events.PY_START, self._cb)
        mon.set_events(self.TOOL, mon.events.PY_START)
        self.armed = True
        return self

    def __exit__(self, *exc):
        import sys
        if self.armed:
            mon = sys.monitoring
            mon.set_events(self.TOOL, 0)
            mon.register_callback(self.TOOL, mon.events.PY_START, None)
            mon.free_tool_id(self.TOOL)
        return False


def debool(g: L.Grammar) -> L.Grammar:
    """the same grammar with @bool replaced by the pattern it is documented to match (counterfactual for mechanism
    classification)"""
    def rw(e):
        if isinstance(e, L.Meta) and e.kind == 'bool':
            return L.Pat('true|True|false|False')
        kids = L.children(e)
        return L.rebuild(e, [rw(k) for k in kids]) if kids else e
    return L.Grammar([L.Rule(r.name, rw(r.body), r.decorators, r.params, r.kwparams, r.base) for r in g.rules],
                     dict(g.directives), tuple(g.keywords))
