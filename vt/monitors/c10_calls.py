"""C10 helper: API call descriptors, their evaluator against the REAL tatsu, canonical results,
the STATE monitor around every parse, and the worker main used both as the fresh-process oracle
(a history of one step) and as the long-lived history worker.

    python -m vt.monitors.c10_calls        (job as JSON on stdin, observations as JSON on stdout)

A descriptor is pure JSON -- the *arguments* of one client-level call sequence

    via='compile'   obj = tatsu.compile(G, **c)          ; probe 'parse': obj.parse(text, **p)
                                                           probe 'info' : what the compiled model is
    via='api'       tatsu.parse(G, text, **c)
    via='gen'       src = tatsu.to_python_sourcecode(G, **c) ; exec ; obj = <Parser>(**k) ; obj.parse(text, **p)
    via='src'       tatsu.to_python_sourcecode(G, **c)   (digest + class names)
    via='modelsrc'  tatsu.to_python_model(G, **c)        (digest + class names)
    via='genmodel'  exec(tatsu.to_python_model(G, **c)) ; obj = tatsu.compile(G, semantics=<X>ModelBuilderSemantics())
                    ; obj.parse(text, **p)

Nothing of TatSu is reimplemented here; the oracle for a descriptor inside a history is the same
descriptor evaluated alone by this same evaluator in a fresh interpreter.
"""
from __future__ import annotations

import gc
import hashlib
import json
import re
import sys
import types
import weakref

# ----------------------------------------------------------------------------------------------
# grammar families: the same text is used with different options (that is what meets the cache)
# ----------------------------------------------------------------------------------------------

GRAMMARS = {
    'typed': r'''
start::Top = left:item {op:'+' right+:item}* $ ;
item::Item = number | name ;
number::Num = /\d+/ ;
name::Name = /[a-z]+/ ;
''',
    # same class names as 'typed', other base-class specifications
    'typed2': r'''
@@grammar :: Second
start::Top = left:item {op:'-' right+:item}* $ ;
item::Item::Operand = number | name ;
number::Num::Operand = /\d+/ ;
name::Name = /[a-z]+/ ;
''',
    'plain': r'''
start = left:item {op:'+' right+:item}* $ ;
item = number | name ;
number = /\d+/ ;
name = /[a-z]+/ ;
''',
    'kw': r'''
@@keyword :: if then
start = {stmt}+ $ ;
stmt = 'if' cond:ident 'then' body:ident | call:ident ;
@name
ident = /[a-z]+/ ;
''',
    'lrec': r'''
start = expr $ ;
expr = left:expr op:'+' right:term | left:expr op:'-' right:term | term ;
term = /\d+/ ;
''',
    'ws': r'''
@@whitespace :: /[\t ]+/
@@ignorecase :: True
@@eol_comments :: /#[^\n]*/
start = {line}+ $ ;
line = 'let' name:ident '=' value:num nl ;
ident = /[a-z]+/ ;
num = /\d+/ ;
nl = /\n/ ;
''',
}

# texts: (good ones, failing ones) per family
TEXTS = {
    'typed': (['1 + a', '12', 'x + 3 + y'], ['1 +', '+ 2', '1 2']),
    'typed2': (['1 - a', '7', 'x - 3 - y'], ['1 -', '- 2', '1 + 2']),
    'plain': (['1 + a', '12', 'x + 3 + y'], ['1 +', '+ 2', '1 2']),
    'kw': (['if a then b', 'foo bar', 'if x then y z'], ['if', 'if then then b', 'a if']),
    'lrec': (['1', '1 + 2', '1 + 2 - 3'], ['+', '1 +', '1 2']),
    'ws': (['let a = 1\n', 'LET b = 2 # c\nlet c = 3\n', 'let\tz = 9\n'], ['let a 1\n', 'let = 1\n', 'let a = 1']),
}


# ----------------------------------------------------------------------------------------------
# client-side objects that appear as argument values (all stateless: their behaviour is a
# function of their constructor arguments only)
# ----------------------------------------------------------------------------------------------

class SemUpper:
    def name(self, ast):
        return str(ast).upper()

    def ident(self, ast):
        return str(ast).upper()


class SemTag:
    def number(self, ast):
        return {'num': ast}

    def term(self, ast):
        return {'term': ast}

    def _default(self, ast):
        return ast


class SemScale:
    """per-instance configuration: two instances are different semantics"""

    def __init__(self, k):
        self.k = k

    def number(self, ast):
        return int(ast) * self.k

    def term(self, ast):
        return int(ast) * self.k

    def num(self, ast):
        return int(ast) * self.k


class SemNone:
    """a semantics object without any action: nothing TatSu caches for it keeps it alive, so its id() is reused soon"""

    def __init__(self):
        self.k = 0   # same instance layout as SemScale: a freed SemNone's address suits the next SemScale


class SemInfo:
    """an action that asks for the parseinfo keyword"""

    def number(self, ast, parseinfo=None):
        return ('n', ast, None if parseinfo is None else (parseinfo.pos, parseinfo.endpos))

    def name(self, ast, *args, **kwargs):
        return ('id', ast, len(args), sorted(kwargs))


def _bases():
    from tatsu.objectmodel import Node

    class BaseA(Node):
        pass

    class BaseB(Node):
        pass

    BaseA.__module__ = BaseB.__module__ = 'vtc10'
    BaseA.__qualname__, BaseB.__qualname__ = 'BaseA', 'BaseB'
    return {'BaseA': BaseA, 'BaseB': BaseB}


def _ctor_item_v1(ast):
    return ('item-v1', ast)


def _ctor_item_v2(*, ast=None, exp=None):
    return ('item-v2', ast)


def _mk_ctor(which):
    # a NEW function object per call (so that it can be dropped and its id() reused)
    if which == 'item1':
        def Item(ast):
            return ('item-v1', ast)
    elif which == 'item2':
        def Item(*, ast=None):
            return ('item-v2', ast)
    else:
        raise KeyError(which)
    return Item


SEM_FACTORIES = {
    'upper': lambda: SemUpper(),
    'tag': lambda: SemTag(),
    'scale2': lambda: SemScale(2),
    'scale3': lambda: SemScale(3),
    'info': lambda: SemInfo(),
    'none': lambda: SemNone(),
}


class Env:
    """harness-side state of one worker process (nothing of TatSu's)"""

    def __init__(self):
        self.objects = {}       # obtain_key -> obj
        self.classes = {}       # class key -> generated parser class / model module
        self.sems = {}          # (name, slot) -> instance
        self.bases = None
        self.dead_ids = set()   # ids of client objects verified collected
        self.tracked = []       # (weakref, id)
        self.counters = {}
        self.state_events = []
        self.nmod = 0

    def count(self, k, n=1):
        self.counters[k] = self.counters.get(k, 0) + n

    def _new_tracked(self, factory, kind):
        """create the object; among up to 16 equivalent candidates prefer one whose id() belonged
        to a client object that has been collected (id reuse against id-keyed caches)"""
        cands = [factory() for _ in range(16 if self.dead_ids else 1)]
        pick = cands[0]
        for c in cands:
            if id(c) in self.dead_ids:
                pick = c
                self.count('id_reused:' + kind)
                self.dead_ids.discard(id(c))
                break
        try:
            self.tracked.append([weakref.ref(pick), id(pick), kind, False])
        except TypeError:
            pass
        self.count('client_objects_created:' + kind)
        return pick

    def sem(self, name, slot):
        if slot is None:
            return self._new_tracked(SEM_FACTORIES[name], 'semantics')
        key = (name, slot)
        if key not in self.sems:
            self.sems[key] = self._new_tracked(SEM_FACTORIES[name], 'semantics')
        return self.sems[key]

    def ctor(self, which):
        return self._new_tracked(lambda: _mk_ctor(which), 'constructor')

    def base(self, name):
        if self.bases is None:
            self.bases = _bases()
        return self.bases[name]

    def drop(self):
        """forget every client object the harness holds, collect, and learn which ids are free"""
        self.sems.clear()
        self.objects.clear()
        self.classes.clear()
        gc.collect()
        alive = []
        for t in self.tracked:
            ref, i, kind, counted = t
            if ref() is None:
                self.dead_ids.add(i)
                self.count('client_objects_collected:' + kind)
            else:
                if not counted:
                    t[3] = True
                    self.count('client_objects_retained_by_tatsu:' + kind)
                alive.append(t)
        self.tracked = alive
        self.count('drops')


# ----------------------------------------------------------------------------------------------
# canonical results
# ----------------------------------------------------------------------------------------------

_ADDR = re.compile(r'0x[0-9A-Fa-f]{4,}')
_INFRA = {'object', 'BaseNode', 'JSONBase', 'AsJSONMixin', 'Generic', 'Protocol'}


def scrub(s):
    return _ADDR.sub('0x?', s)


def clsname(t):
    mod = getattr(t, '__module__', '') or ''
    if mod.startswith('vtc10gen'):
        mod = 'vtc10gen'
    return f'{mod}.{t.__qualname__}'


def canon(v, depth=0):
    if depth > 60:
        return '<deep>'
    if v is None or isinstance(v, (bool, int, str)):
        return v
    if isinstance(v, float):
        return repr(v)
    t = type(v)
    if isinstance(v, dict):
        out = {str(k): canon(x, depth + 1) for k, x in v.items()}
        if t is not dict:
            out['@dict'] = t.__name__
        return out
    if isinstance(v, tuple) and hasattr(v, '_fields'):     # namedtuple (ParseInfo, ...)
        d = {f: canon(getattr(v, f), depth + 1) for f in v._fields if f not in ('cursor', 'tokenizer', 'buffer')}
        d['@nt'] = t.__name__
        return d
    if isinstance(v, (list, tuple, set, frozenset)):
        items = [canon(x, depth + 1) for x in (sorted(v, key=repr) if isinstance(v, (set, frozenset)) else v)]
        if t is list:
            return items
        return {'@seq': t.__name__, 'items': items}
    try:
        from tatsu.objectmodel.basenode import BaseNode
    except Exception:  # noqa: BLE001
        BaseNode = ()
    if BaseNode and isinstance(v, BaseNode):
        try:
            pub = v.__pub__()
        except Exception as e:  # noqa: BLE001
            pub = {'@pub-failed': type(e).__name__}
        d = {str(k): canon(x, depth + 1) for k, x in pub.items()}
        d['@class'] = clsname(t)
        d['@bases'] = [clsname(b) for b in t.__mro__[1:] if b.__name__ not in _INFRA]
        pi = getattr(v, 'parseinfo', None)
        if pi is not None:
            d['@parseinfo'] = canon(pi, depth + 1)
        return d
    return {'@obj': clsname(t), 'repr': scrub(repr(v))[:120]}


def canon_exc(e):
    d = {'@exc': type(e).__name__}
    pos = getattr(e, 'pos', None)
    if isinstance(pos, int):
        d['pos'] = pos
    msg = getattr(e, 'message', None)
    if not isinstance(msg, str):
        msg = str(e).split('\n', 1)[0]
    d['msg'] = scrub(str(msg))[:160]
    return d


def canon_config(cfg, idmap=True):
    """ParserConfig -> comparable dict; object-valued settings by class (and identity within a process)"""
    out = {}
    try:
        items = cfg.asdict().items()
    except Exception as e:  # noqa: BLE001
        return {'@asdict-failed': type(e).__name__}
    for k, v in items:
        if v is None or isinstance(v, (bool, int, float, str)):
            out[k] = v
        elif isinstance(v, (tuple, list)):
            out[k] = [x if isinstance(x, (str, int, float, bool, type(None))) else repr(type(x).__name__) for x in v]
        elif isinstance(v, re.Pattern):
            out[k] = 're:' + v.pattern
        elif isinstance(v, type):
            out[k] = 'type:' + v.__name__
        else:
            out[k] = 'obj:' + type(v).__name__ + (f'#{id(v)}' if idmap else '')
    return out


def digest(s):
    return hashlib.blake2b(s.encode(), digest_size=8).hexdigest()


def model_digest(model):
    return digest(scrub(json.dumps(model.asjson(), sort_keys=True, default=repr)))


# ----------------------------------------------------------------------------------------------
# option decoding:  JSON value -> real argument object
# ----------------------------------------------------------------------------------------------

def decode_opts(opts, env, semslot, passed_configs):
    out = {}
    for k, v in (opts or {}).items():
        if k == 'semantics':
            out[k] = None if v is None else env.sem(v, semslot)
        elif k == 'basetype':
            out[k] = env.base(v)
        elif k == 'constructors':
            out[k] = [env.ctor(x) for x in v]
        elif k == 'typedefs':
            out[k] = [dict((n, env.base(n)) for n in v)]
        elif k == 'config':
            from tatsu.config import ParserConfig
            inner = decode_opts(v, env, semslot, passed_configs)
            cfg = ParserConfig(**inner)
            passed_configs.append(cfg)
            out[k] = cfg
        elif k == 'builderconfig':
            from tatsu.objectmodel.builder import BuilderConfig
            out[k] = BuilderConfig(**decode_opts(v, env, semslot, passed_configs))
        else:
            out[k] = v
    return out


def obtain_key(desc):
    return json.dumps([desc['fam'], desc['via'], desc.get('c') or {}, desc.get('k') or {}], sort_keys=True)


def class_key(desc):
    return json.dumps([desc['fam'], desc['via'], desc.get('c') or {}], sort_keys=True)


def desc_key(desc):
    """identity of a call = its arguments (the 'id' label is not part of it)"""
    return json.dumps([desc['fam'], desc['via'], desc.get('c') or {}, desc.get('k') or {}, desc.get('p') or {},
                       desc.get('text'), desc.get('probe', 'parse')], sort_keys=True)


def _exec_module(src, env):
    env.nmod += 1
    mod = types.ModuleType(f'vtc10gen{env.nmod}')
    sys.modules[mod.__name__] = mod      # generated dataclasses look their module up
    exec(compile(src, f'<vtc10gen{env.nmod}>', 'exec'), mod.__dict__)  # noqa: S102
    return mod


def _find_class(mod, suffix):
    for k, v in mod.__dict__.items():
        if isinstance(v, type) and k.endswith(suffix) and v.__module__ == mod.__name__:
            return v
    raise LookupError(suffix)


# ----------------------------------------------------------------------------------------------
# STATE monitor: a parse must not change the model, its configuration, or a passed ParserConfig
# ----------------------------------------------------------------------------------------------

def snapshot(obj, passed):
    snap = {}
    try:
        from tatsu.peg.base import Grammar
        if isinstance(obj, Grammar):
            snap['model'] = model_digest(obj)
            snap['model_name'] = obj.name
    except Exception as e:  # noqa: BLE001
        snap['model'] = '@failed:' + type(e).__name__
    cfg = getattr(obj, 'config', None)
    if cfg is not None and hasattr(cfg, 'asdict'):
        snap['config'] = canon_config(cfg)
    # a parser object: its permanent configuration (what the next bare call starts from)
    perm = getattr(obj, 'self_config', None) if obj is not None else None
    if perm is not None and hasattr(perm, 'asdict'):
        snap['self_config'] = canon_config(perm)
    snap['passed'] = [canon_config(c) for c in passed]
    return snap


def state_diff(before, after):
    """-> list of (what, fields) alterations"""
    out = []
    if before.get('model') != after.get('model') or before.get('model_name') != after.get('model_name'):
        out.append(('model', ['asjson']))
    for key in ('config', 'self_config'):
        b, a = before.get(key), after.get(key)
        if b != a:
            fields = sorted(k for k in set(b or {}) | set(a or {}) if (b or {}).get(k) != (a or {}).get(k))
            out.append((key, fields))
    for i, (b, a) in enumerate(zip(before.get('passed', []), after.get('passed', []))):
        if b != a:
            fields = sorted(k for k in set(b) | set(a) if b.get(k) != a.get(k))
            out.append(('passed-config', fields))
    return out


# ----------------------------------------------------------------------------------------------
# the evaluator
# ----------------------------------------------------------------------------------------------

def obtain(desc, env, semslot, passed):
    import tatsu
    G = GRAMMARS[desc['fam']]
    via = desc['via']
    c = decode_opts(desc.get('c'), env, semslot, passed)
    if via == 'compile':
        return tatsu.compile(G, **c)
    if via in ('gen', 'genmodel'):
        ck = class_key(desc)
        cls = env.classes.get(ck) if desc.get('_reuse') else None
        if cls is None:
            if via == 'gen':
                src = tatsu.to_python_sourcecode(G, **c)
                cls = _find_class(_exec_module(src, env), 'Parser')
            else:
                src = tatsu.to_python_model(G, **c)
                cls = _find_class(_exec_module(src, env), 'ModelBuilderSemantics')
            env.classes[ck] = cls
            env.count('codegen_exec')
        else:
            env.count('generated_class_reused')
        if via == 'gen':
            k = decode_opts(desc.get('k'), env, semslot, passed)
            return cls(**k)
        return tatsu.compile(G, semantics=cls())
    raise KeyError(via)


def info(model):
    sem = getattr(model, 'semantics', None)
    cfg = canon_config(model.config, idmap=False)
    return {'name': model.name, 'json': model_digest(model),
            'semantics': None if sem is None else type(sem).__name__,
            'rules': [r.name for r in model.rules],
            'config': cfg}


def evaluate(desc, env, reuse=None, phase='full', semslot=None):
    """-> canonical result (None for an obtain-only step).  Every exception class that escapes a
    TatSu call is the observation.  reuse: None (obtain anew) | 'obj' (the object an earlier step
    obtained with the same obtaining arguments) | 'cls' (a new instance of the generated class)"""
    import tatsu
    via = desc['via']
    passed = []
    desc = dict(desc)
    desc['_reuse'] = bool(reuse)
    try:
        if via == 'api':
            c = decode_opts(desc.get('c'), env, semslot, passed)
            before = snapshot(None, passed)
            try:
                return canon(tatsu.parse(GRAMMARS[desc['fam']], desc['text'], **c))
            finally:
                _state_check(env, desc, before, snapshot(None, passed))
        if via in ('src', 'modelsrc'):
            c = decode_opts(desc.get('c'), env, semslot, passed)
            f = tatsu.to_python_sourcecode if via == 'src' else tatsu.to_python_model
            src = f(GRAMMARS[desc['fam']], **c)
            return {'digest': digest(src), 'classes': re.findall(r'^class (\w+)', src, re.M)}
        ok = obtain_key(desc)
        obj = env.objects.get(ok) if reuse == 'obj' else None
        if obj is None:
            obj = obtain(desc, env, semslot, passed)
            env.objects[ok] = obj
            env.count('objects_obtained')
        else:
            env.count('objects_reused')
        if phase == 'obtain':
            return None
        if desc.get('probe', 'parse') == 'info':
            return info(obj)
        p = decode_opts(desc.get('p'), env, semslot, passed)
        before = snapshot(obj, passed)
        try:
            return canon(obj.parse(desc['text'], **p))
        finally:
            env.count('parses_state_monitored')
            _state_check(env, desc, before, snapshot(obj, passed))
    except RecursionError:
        return {'@exc': 'RecursionError'}
    except Exception as e:  # noqa: BLE001 - the class IS the observation
        return canon_exc(e)


def _state_check(env, desc, before, after):
    for what, fields in state_diff(before, after):
        env.state_events.append({'what': what, 'fields': fields, 'desc': {k: v for k, v in desc.items() if k != '_reuse'}})


# ----------------------------------------------------------------------------------------------
# the descriptor pool
# ----------------------------------------------------------------------------------------------

def _shapes():
    S = {}
    S['typed'] = [
        ('compile', {}, None, {}, 'g0'),
        ('compile', {'asmodel': True}, None, {}, 'g0'),
        ('compile', {'basetype': 'BaseA'}, None, {}, 'g0'),
        ('compile', {'basetype': 'BaseB'}, None, {}, 'g0'),
        ('api', {}, None, None, 'g0'),
        ('api', {'asmodel': True}, None, None, 'g0'),
        ('api', {'basetype': 'BaseA'}, None, None, 'g0'),
        ('compile', {}, None, {'asmodel': True}, 'g0'),
        ('compile', {}, None, None, 'info'),
        ('compile', {'asmodel': True}, None, None, 'info'),
        ('compile', {'name': 'Foo'}, None, None, 'info'),
        ('compile', {'name': 'Foo', 'asmodel': True}, None, {}, 'g1'),
        ('compile', {'name': 'Foo'}, None, {}, 'g1'),
        ('compile', {'semantics': 'upper'}, None, {}, 'g0'),
        ('compile', {'semantics': 'upper', 'asmodel': True}, None, {}, 'g0'),
        ('compile', {}, None, {}, 'b0'),
        ('compile', {'asmodel': True}, None, {}, 'b0'),
        ('genmodel', {}, None, {}, 'g0'),
        ('modelsrc', {}, None, None, None),
        ('modelsrc', {'name': 'Foo'}, None, None, None),
        ('gen', {}, {}, {}, 'g0'),
        ('gen', {}, {'semantics': 'upper'}, {}, 'g0'),
        ('compile', {'constructors': ['item1']}, None, {}, 'g1'),
        ('compile', {'constructors': ['item2']}, None, {}, 'g1'),
        ('api', {'constructors': ['item1']}, None, None, 'g1'),
        ('api', {'constructors': ['item2']}, None, None, 'g1'),
        ('compile', {'typedefs': ['BaseA']}, None, {}, 'g1'),
        ('compile', {}, None, {'semantics': 'upper'}, 'g2'),
    ]
    S['typed2'] = [
        ('compile', {'asmodel': True}, None, {}, 'g0'),
        ('api', {'asmodel': True}, None, None, 'g0'),
        ('compile', {}, None, {}, 'g0'),
        ('compile', {'basetype': 'BaseA'}, None, {}, 'g0'),
        ('compile', {}, None, None, 'info'),
        ('compile', {'name': 'Typed'}, None, None, 'info'),
        ('src', {}, None, None, None),
        ('compile', {}, None, {'asmodel': True}, 'g2'),
        ('compile', {}, None, {}, 'b2'),
    ]
    S['plain'] = [
        ('compile', {}, None, {'semantics': 'none'}, 'g0'),
        ('api', {'semantics': 'none'}, None, None, 'g0'),
        ('gen', {}, {}, {'semantics': 'none'}, 'g0'),
        ('compile', {}, None, {}, 'g0'),
        ('compile', {'semantics': 'upper'}, None, {}, 'g0'),
        ('compile', {'semantics': 'scale2'}, None, {}, 'g0'),
        ('compile', {'semantics': 'scale3'}, None, {}, 'g0'),
        ('compile', {}, None, {'semantics': 'scale2'}, 'g0'),
        ('compile', {}, None, {'semantics': 'scale3'}, 'g0'),
        ('compile', {'semantics': 'upper'}, None, {'semantics': 'tag'}, 'g0'),
        ('api', {'semantics': 'scale2'}, None, None, 'g0'),
        ('api', {'semantics': 'scale3'}, None, None, 'g0'),
        ('api', {}, None, None, 'g0'),
        ('compile', {}, None, {'start': 'item'}, '12'),
        ('compile', {}, None, {'start': 'name'}, 'abc'),
        ('compile', {}, None, {}, 'b0'),
        ('compile', {}, None, {}, 'b1'),
        ('compile', {}, None, {'config': {'start': 'item', 'parseinfo': True}}, '12'),
        ('compile', {}, None, {'parseinfo': True, 'semantics': 'info'}, 'g0'),
        ('compile', {}, None, {'semantics': 'info'}, 'g0'),
        ('compile', {'asmodel': True}, None, {}, 'g0'),
        ('compile', {'whitespace': 'x'}, None, {}, '1x+xa'),
        ('compile', {}, None, {}, '1x+xa'),
        ('compile', {}, None, {'whitespace': 'x'}, '1x+xa'),
        ('compile', {'ignorecase': True}, None, {}, 'g0'),
        ('compile', {'start': 'item'}, None, {}, '12'),
        ('gen', {}, {}, {}, 'g0'),
        ('gen', {}, {'semantics': 'scale2'}, {}, 'g0'),
        ('gen', {}, {}, {}, 'b0'),
        ('gen', {'name': 'Foo'}, {}, {}, 'g0'),
        ('gen', {}, {}, {'start': 'item'}, '12'),
        ('gen', {}, {}, {'semantics': 'scale3'}, 'g0'),
        ('gen', {}, {}, {'whitespace': 'x'}, '1x+xa'),
        ('src', {}, None, None, None),
        ('src', {'name': 'Foo'}, None, None, None),
        ('api', {'start': 'item'}, None, None, '12'),
        ('api', {'name': 'Foo'}, None, None, 'g2'),
        ('compile', {'name': 'Foo'}, None, None, 'info'),
        ('compile', {}, None, None, 'info'),
        ('compile', {'semantics': 'upper'}, None, None, 'info'),
    ]
    S['kw'] = [
        ('compile', {}, None, {}, 'g0'),
        ('compile', {}, None, {}, 'b1'),
        ('compile', {}, None, {'ignorecase': True}, 'IF a THEN b'),
        ('compile', {'ignorecase': True}, None, {}, 'IF a THEN b'),
        ('compile', {}, None, {'nameguard': False}, 'ifa thenb'),
        ('compile', {}, None, {}, 'ifa thenb'),
        ('gen', {}, {}, {}, 'g0'),
        ('gen', {}, {}, {}, 'b1'),
        ('gen', {}, {'nameguard': False}, {}, 'ifa thenb'),
        ('compile', {'semantics': 'upper'}, None, {}, 'g0'),
        ('api', {}, None, None, 'g0'),
        ('api', {'ignorecase': True}, None, None, 'IF a THEN b'),
        ('compile', {}, None, {'config': {'ignorecase': True}}, 'IF a THEN b'),
        ('compile', {}, None, None, 'info'),
    ]
    S['lrec'] = [
        ('compile', {}, None, {}, 'g2'),
        ('compile', {}, None, {}, 'b1'),
        ('compile', {'semantics': 'scale2'}, None, {}, 'g2'),
        ('compile', {}, None, {'left_recursion': False}, 'g2'),
        ('compile', {'left_recursion': False}, None, {}, 'g2'),
        ('gen', {}, {}, {}, 'g2'),
        ('gen', {}, {}, {}, 'b1'),
        ('compile', {}, None, {'memoization': False}, 'g2'),
        ('api', {}, None, None, 'g1'),
        ('compile', {'semantics': 'tag'}, None, {}, 'g1'),
        ('compile', {}, None, {'semantics': 'scale3'}, 'g1'),
    ]
    S['ws'] = [
        ('compile', {}, None, {}, 'g1'),
        ('compile', {}, None, {'ignorecase': False}, 'g1'),
        ('compile', {}, None, {'whitespace': '[ ]+'}, 'g2'),
        ('compile', {}, None, {}, 'g2'),
        ('gen', {}, {}, {}, 'g1'),
        ('gen', {}, {'ignorecase': False}, {}, 'g1'),
        ('gen', {}, {}, {'whitespace': '[ ]+'}, 'g2'),
        ('compile', {}, None, {}, 'b0'),
        ('api', {}, None, None, 'g1'),
        ('api', {'ignorecase': False}, None, None, 'g1'),
        ('compile', {}, None, None, 'info'),
        ('compile', {}, None, {'config': {'whitespace': '[ ]+', 'ignorecase': False}}, 'g0'),
        ('compile', {}, None, {'semantics': 'scale2'}, 'g0'),
    ]
    # calls on ONE reusable object (a generated-parser instance / a compiled model) that pass nothing, or exactly one
    # thing: the bare call after any of the others must still be the bare call
    sem = {'typed': 'upper', 'typed2': 'upper', 'plain': 'scale2', 'kw': 'upper', 'lrec': 'scale2', 'ws': 'scale2'}
    for fam, (rule, rtext) in ONE_ARG_START.items():
        text = TEXTS[fam][0][0]
        one = [({}, text), ({'asmodel': True}, text), ({'semantics': sem[fam]}, text), ({'parseinfo': True}, text),
               ({'config': {'parseinfo': True}}, text)]
        if fam in ('typed', 'typed2', 'plain'):
            one += [({'start': rule}, rtext), ({'config': {'semantics': sem[fam]}}, text), ({'config': {}}, text),
                    ({'nameguard': False}, text), ({'memoization': False}, text)]
        if fam in ('typed', 'typed2'):
            one += [({'ignorecase': True}, text), ({'whitespace': 'x'}, text.replace(' ', 'x')),
                    ({'config': {'start': rule}}, rtext), ({}, rtext), ({}, TEXTS[fam][1][0])]
        for p, t in one:
            S[fam].append(('gen', {}, {}, p, t, 'one'))
            S[fam].append(('compile', {}, None, p, t, 'one'))
    return S


ONE_ARG_START = {'typed': ('item', '12'), 'typed2': ('item', '7'), 'plain': ('item', '12'), 'kw': ('ident', 'foo'),
                 'lrec': ('term', '1'), 'ws': ('num', '5')}


def is_bare(desc):
    """no argument but the text"""
    return desc['via'] in ('gen', 'compile', 'genmodel') and desc.get('probe', 'parse') == 'parse' and not desc.get('p')


def _text(fam, key):
    good, bad = TEXTS[fam]
    if isinstance(key, str) and len(key) == 2 and key[0] in 'gb' and key[1].isdigit():
        return (good if key[0] == 'g' else bad)[int(key[1])]
    return key


def pool(tier='quick'):
    """the call descriptors.  thorough: every parse shape additionally with every other text of its family"""
    out, seen = [], set()

    def add(d):
        k = desc_key(d)
        if k in seen:
            return
        seen.add(k)
        d['id'] = f"{d['fam']}.{len(out)}"
        out.append(d)

    for fam, shapes in _shapes().items():
        for via, c, k, p, tk, *tag in shapes:
            d = {'fam': fam, 'via': via, 'c': c}
            if tag:
                d['tag'] = tag[0]
            if k is not None:
                d['k'] = k
            if tk == 'info':
                d['probe'] = 'info'
            elif via in ('src', 'modelsrc'):
                pass
            else:
                if p is not None:
                    d['p'] = p
                d['text'] = _text(fam, tk)
            add(d)
            if tier == 'thorough' and 'text' in d and isinstance(tk, str) and len(tk) == 2 and tk[0] in 'gb':
                good, bad = TEXTS[fam]
                for t in good + bad:
                    add(dict(d, text=t))
    return out


# argument dimensions of a descriptor, for explaining a divergence by "option o of an earlier call leaked"
COMPILE_LEVEL = {'compile': 'c', 'api': 'c', 'gen': 'c', 'genmodel': 'c', 'src': 'c', 'modelsrc': 'c'}


def dims(desc):
    """{(level, option): value}; level 'c' = what reaches tatsu.compile / code generation,
    'k' = generated-parser constructor, 'p' = the parse call"""
    out = {}
    for lvl in ('c', 'k', 'p'):
        for o, v in (desc.get(lvl) or {}).items():
            if o == 'config' and isinstance(v, dict):
                for o2, v2 in v.items():
                    out[(lvl, o2)] = v2
            else:
                out[(lvl, o)] = v
    if desc['via'] == 'api':
        # tatsu.parse passes only asmodel on to compile; the rest configures the parse
        out = {(('c' if o == 'asmodel' else 'p'), o): v for (lvl, o), v in out.items()}
    return out


# ----------------------------------------------------------------------------------------------
# worker main: run the steps of one history in this (fresh) interpreter
# ----------------------------------------------------------------------------------------------

def run_steps(steps):
    import tatsu
    env = Env()
    results = []
    for st in steps:
        if st.get('drop'):
            env.drop()
        r = evaluate(st['desc'], env, reuse=st.get('reuse'), phase=st.get('phase', 'full'),
                     semslot=st.get('semslot'))
        results.append(r)
    cache_sizes = {}
    try:  # evidence probes only: degrade to "unobserved"
        from tatsu.api import api as _api
        for k, v in vars(_api).items():
            if k.endswith('compiled_grammar_cache'):
                cache_sizes['compiled_grammar_cache'] = len(v)
        from tatsu.util.typetools import BoundCallable
        cache_sizes['bind_cache'] = len(BoundCallable._BIND_CACHE)
        from tatsu.contexts.core import find_cached_semantic_action as f
        cache_sizes['semantic_action_cache'] = f.cache_info().currsize
    except Exception:  # noqa: BLE001
        pass
    return {'results': results, 'state_events': env.state_events, 'counters': env.counters,
            'cache_sizes': cache_sizes, 'tatsu_file': tatsu.__file__}


def main():
    job = json.load(sys.stdin)
    sys.setrecursionlimit(4000)
    out = run_steps(job['steps'])
    sys.stdout.write(json.dumps(out))
    sys.stdout.flush()
    return 0


if __name__ == '__main__':
    sys.exit(main())
