"""C10 helper: API call descriptors, their evaluator against the REAL tatsu, canonical results,
the STATE monitor around every parse, and the worker main used both as the fresh-process oracle
(a history of one step) and as the long-lived history worker.

    python -m vt.monitors.c10_calls        (job as JSON on stdin, observations as JSON on stdout)

A descriptor is pure JSON -- the *arguments* of one client-level call sequence

    via='compile'   obj = tatsu.compile(G, **c)          ; probe 'parse': obj.parse(text, **p)
                                                           probe 'info' : what the compiled model is
    via='api'       tatsu.parse(G, text, **c)
    via='gen'       src = tatsu.to_python_sourcecode(G, **c) ; exec ; obj = <Parser>(**k) ; obj.parse(text, **p)
    via='src'       tatsu.to_python_sourcecode(G, **c)   (digest + class names)
    via='modelsrc'  tatsu.to_python_model(G, **c)        (digest + class names)
    via='genmodel'  exec(tatsu.to_python_model(G, **c)) ; obj = tatsu.compile(G, semantics=<X>ModelBuilderSemantics())
                    ; obj.parse(text, **p)

Option values that denote caller-owned mutable objects (constructors / typedefs / keywords lists, 'config' =
ParserConfig(**...), 'builderconfig' = BuilderConfig(**...), semantics={'mbs': {...}} = ModelBuilderSemantics(**...))
are made anew for the call, or -- when the step carries an 'argslot' -- taken from the variables the caller keeps
(Env.shared): every step naming the same (option, value, slot) passes the SAME object.  All of them are snapshotted
(canon_arg) before and after every TatSu call that receives them.

Nothing of TatSu is reimplemented here; the oracle for a descriptor inside a history is the same
descriptor evaluated alone by this same evaluator in a fresh interpreter.
"""
from __future__ import annotations

import gc
import hashlib
import json
import re
import sys
import types
import weakref

# ----------------------------------------------------------------------------------------------
# grammar families: the same text is used with different options (that is what meets the cache)
# ----------------------------------------------------------------------------------------------

GRAMMARS = {
    'typed': r'''
start::Top = left:item {op:'+' right+:item}* $ ;
item::Item = number | name ;
number::Num = /\d+/ ;
name::Name = /[a-z]+/ ;
''',
    # same class names as 'typed', other base-class specifications
    'typed2': r'''
@@grammar :: Second
start::Top = left:item {op:'-' right+:item}* $ ;
item::Item::Operand = number | name ;
number::Num::Operand = /\d+/ ;
name::Name = /[a-z]+/ ;
''',
    'plain': r'''
start = left:item {op:'+' right+:item}* $ ;
item = number | name ;
number = /\d+/ ;
name = /[a-z]+/ ;
''',
    'kw': r'''
@@keyword :: if then
start = {stmt}+ $ ;
stmt = 'if' cond:ident 'then' body:ident | call:ident ;
@name
ident = /[a-z]+/ ;
''',
    'lrec': r'''
start = expr $ ;
expr = left:expr op:'+' right:term | left:expr op:'-' right:term | term ;
term = /\d+/ ;
''',
    'ws': r'''
@@whitespace :: /[\t ]+/
@@ignorecase :: True
@@eol_comments :: /#[^\n]*/
start = {line}+ $ ;
line = 'let' name:ident '=' value:num nl ;
ident = /[a-z]+/ ;
num = /\d+/ ;
nl = /\n/ ;
''',
    # constants and alerts: over names the rule has bound ({who} after who:), over names it has NOT bound at that
    # point (they stay the literal text), bare names and Python literals.  'const' and 'const2' (and the two options
    # of const2's item) use the SAME name spellings -- who, n -- bound in one place and unbound in the other
    'const': r'''
start = {greet | tag | lit | note}+ $ ;
greet = 'hi' who:word msg:`hello {who}` ;
tag = 'tag' n:num t:`{who}` u:`who` ;
lit = 'lit' n:num v:`42` w:`n` x:`{n}{n}` ;
note = 'note' what:word ^`noted {what}` ^^`by {who} n {n}` ;
word = /[a-z]+/ ;
num = /\d+/ ;
''',
    'const2': r'''
@@grammar :: Notes
start::Doc = items:{item}+ $ ;
item::Entry = 'set' n:word v:`{n}` o:`{who}` ^^`set {n}` ^`for {who}`
            | 'who' who:num w:`who` k:`{n}` ^`who {who}` ^^^`n {n}` ;
word = /[a-z]+/ ;
num = /\d+/ ;
''',
}

# texts: (good ones, failing ones) per family
TEXTS = {
    'typed': (['1 + a', '12', 'x + 3 + y'], ['1 +', '+ 2', '1 2']),
    'typed2': (['1 - a', '7', 'x - 3 - y'], ['1 -', '- 2', '1 + 2']),
    'plain': (['1 + a', '12', 'x + 3 + y'], ['1 +', '+ 2', '1 2']),
    'kw': (['if a then b', 'foo bar', 'if x then y z'], ['if', 'if then then b', 'a if']),
    'lrec': (['1', '1 + 2', '1 + 2 - 3'], ['+', '1 +', '1 2']),
    'ws': (['let a = 1\n', 'LET b = 2 # c\nlet c = 3\n', 'let\tz = 9\n'], ['let a 1\n', 'let = 1\n', 'let a = 1']),
    'const': (['hi bob', 'tag 7', 'lit 3', 'note x', 'hi al tag 8', 'tag 9 hi eve note y'], ['hi 7', 'tag', 'lit x']),
    'const2': (['set k', 'who 12', 'set bob who 5', 'who 3 set n'], ['set', 'who x', 'set 1']),
}


# ----------------------------------------------------------------------------------------------
# client-side objects that appear as argument values (all stateless: their behaviour is a
# function of their constructor arguments only)
# ----------------------------------------------------------------------------------------------

class SemUpper:
    def name(self, ast):
        return str(ast).upper()

    def ident(self, ast):
        return str(ast).upper()

    def word(self, ast):
        return str(ast).upper()


class SemTag:
    def number(self, ast):
        return {'num': ast}

    def term(self, ast):
        return {'term': ast}

    def _default(self, ast):
        return ast


class SemScale:
    """per-instance configuration: two instances are different semantics"""

    def __init__(self, k):
        self.k = k

    def number(self, ast):
        return int(ast) * self.k

    def term(self, ast):
        return int(ast) * self.k

    def num(self, ast):
        return int(ast) * self.k


class SemNone:
    """a semantics object without any action: nothing TatSu caches for it keeps it alive, so its id() is reused soon"""

    def __init__(self):
        self.k = 0   # same instance layout as SemScale: a freed SemNone's address suits the next SemScale


class SemInfo:
    """an action that asks for the parseinfo keyword"""

    def number(self, ast, parseinfo=None):
        return ('n', ast, None if parseinfo is None else (parseinfo.pos, parseinfo.endpos))

    def name(self, ast, *args, **kwargs):
        return ('id', ast, len(args), sorted(kwargs))


def _bases():
    from tatsu.objectmodel import Node

    class BaseA(Node):
        pass

    class BaseB(Node):
        pass

    BaseA.__module__ = BaseB.__module__ = 'vtc10'
    BaseA.__qualname__, BaseB.__qualname__ = 'BaseA', 'BaseB'
    out = {'BaseA': BaseA, 'BaseB': BaseB}
    # client node classes named like the rule types of the 'typed' grammars (what a typedefs container or a
    # constructors list holds), one set per "module": the same type name resolves to another class
    for mod, names in (('vtc10', {'Top': BaseB, 'Item': BaseA, 'Num': BaseA, 'Name': BaseB, 'Other': BaseA, 'Extra': BaseB}),
                       ('vtc10alt', {'Item': BaseB, 'Num': BaseB})):
        for n, base in names.items():
            t = type(n, (base,), {'__module__': mod, '__qualname__': n})
            out[n if mod == 'vtc10' else f'alt.{n}'] = t
    return out


def _ctor_item_v1(ast):
    return ('item-v1', ast)


def _ctor_item_v2(*, ast=None, exp=None):
    return ('item-v2', ast)


def _mk_ctor(which):
    # a NEW function object per call (so that it can be dropped and its id() reused)
    if which == 'item1':
        def Item(ast):
            return ('item-v1', ast)
    elif which == 'item2':
        def Item(*, ast=None):
            return ('item-v2', ast)
    else:
        raise KeyError(which)
    return Item


SEM_FACTORIES = {
    'upper': lambda: SemUpper(),
    'tag': lambda: SemTag(),
    'scale2': lambda: SemScale(2),
    'scale3': lambda: SemScale(3),
    'info': lambda: SemInfo(),
    'none': lambda: SemNone(),
}


class Env:
    """harness-side state of one worker process (nothing of TatSu's)"""

    def __init__(self):
        self.objects = {}       # obtain_key -> obj
        self.classes = {}       # class key -> generated parser class / model module
        self.sems = {}          # (name, slot) -> instance
        self.bases = None
        self.dead_ids = set()   # ids of client objects verified collected
        self.tracked = []       # (weakref, id)
        self.counters = {}
        self.state_events = []
        self.nmod = 0
        self.args = {}          # (option, spec, slot) -> caller-owned mutable argument object kept between calls
        self.arg_keys = {}      # id(object held in self.args) -> its key (as a string)
        self.step = 0           # index of the step being evaluated
        self.step_keys = {}     # step index -> keys of the kept argument objects the step was given

    def count(self, k, n=1):
        self.counters[k] = self.counters.get(k, 0) + n

    def _new_tracked(self, factory, kind):
        """create the object; among up to 16 equivalent candidates prefer one whose id() belonged
        to a client object that has been collected (id reuse against id-keyed caches)"""
        cands = [factory() for _ in range(16 if self.dead_ids else 1)]
        pick = cands[0]
        for c in cands:
            if id(c) in self.dead_ids:
                pick = c
                self.count('id_reused:' + kind)
                self.dead_ids.discard(id(c))
                break
        try:
            self.tracked.append([weakref.ref(pick), id(pick), kind, False])
        except TypeError:
            pass
        self.count('client_objects_created:' + kind)
        return pick

    def sem(self, name, slot):
        if slot is None:
            return self._new_tracked(SEM_FACTORIES[name], 'semantics')
        key = (name, slot)
        if key not in self.sems:
            self.sems[key] = self._new_tracked(SEM_FACTORIES[name], 'semantics')
        return self.sems[key]

    def ctor(self, which):
        return self._new_tracked(lambda: _mk_ctor(which), 'constructor')

    def base(self, name):
        if self.bases is None:
            self.bases = _bases()
        return self.bases[name]

    def shared(self, option, spec, slot, factory):
        """a caller-owned mutable argument (a list, a dict/module of type definitions, a BuilderConfig, a
        ParserConfig, a ModelBuilderSemantics).  slot None: a new object for this call alone.  Otherwise the caller
        keeps the object in a variable: every call of the history that names the same (option, value, slot) is given
        the SAME object -- "the same argument object as in the earlier call"."""
        if slot is None:
            self.count('argument_objects_created:' + option)
            return factory()
        key = (option, json.dumps(spec, sort_keys=True), slot)
        skey = f'{option}={key[1]}@{slot}'
        if key in self.args:
            self.count('kept_argument_object_passed_again')
            self.count('kept_argument_object_passed_again:' + option)
        else:
            self.args[key] = factory()
            self.arg_keys[id(self.args[key])] = skey
            self.count('argument_objects_created:' + option)
        self.step_keys.setdefault(self.step, [])
        if skey not in self.step_keys[self.step]:
            self.step_keys[self.step].append(skey)
        return self.args[key]

    def drop(self):
        """forget every client object the harness holds, collect, and learn which ids are free"""
        self.sems.clear()
        self.objects.clear()
        self.classes.clear()
        self.args.clear()
        self.arg_keys.clear()
        gc.collect()
        alive = []
        for t in self.tracked:
            ref, i, kind, counted = t
            if ref() is None:
                self.dead_ids.add(i)
                self.count('client_objects_collected:' + kind)
            else:
                if not counted:
                    t[3] = True
                    self.count('client_objects_retained_by_tatsu:' + kind)
                alive.append(t)
        self.tracked = alive
        self.count('drops')


# ----------------------------------------------------------------------------------------------
# canonical results
# ----------------------------------------------------------------------------------------------

_ADDR = re.compile(r'0x[0-9A-Fa-f]{4,}')
_INFRA = {'object', 'BaseNode', 'JSONBase', 'AsJSONMixin', 'Generic', 'Protocol'}


def scrub(s):
    return _ADDR.sub('0x?', s)


def clsname(t):
    mod = getattr(t, '__module__', '') or ''
    if mod.startswith('vtc10gen'):
        mod = 'vtc10gen'
    return f'{mod}.{t.__qualname__}'


def canon(v, depth=0):
    if depth > 60:
        return '<deep>'
    if v is None or isinstance(v, (bool, int, str)):
        return v
    if isinstance(v, float):
        return repr(v)
    t = type(v)
    if isinstance(v, dict):
        out = {str(k): canon(x, depth + 1) for k, x in v.items()}
        if t is not dict:
            out['@dict'] = t.__name__
        return out
    if isinstance(v, tuple) and hasattr(v, '_fields'):     # namedtuple (ParseInfo, ...)
        d = {f: canon(getattr(v, f), depth + 1) for f in v._fields if f not in ('cursor', 'tokenizer', 'buffer')}
        d['@nt'] = t.__name__
        return d
    if isinstance(v, (list, tuple, set, frozenset)):
        items = [canon(x, depth + 1) for x in (sorted(v, key=repr) if isinstance(v, (set, frozenset)) else v)]
        if t is list:
            return items
        return {'@seq': t.__name__, 'items': items}
    try:
        from tatsu.objectmodel.basenode import BaseNode
    except Exception:  # noqa: BLE001
        BaseNode = ()
    if BaseNode and isinstance(v, BaseNode):
        try:
            pub = v.__pub__()
        except Exception as e:  # noqa: BLE001
            pub = {'@pub-failed': type(e).__name__}
        d = {str(k): canon(x, depth + 1) for k, x in pub.items()}
        d['@class'] = clsname(t)
        d['@bases'] = [clsname(b) for b in t.__mro__[1:] if b.__name__ not in _INFRA]
        pi = getattr(v, 'parseinfo', None)
        if pi is not None:
            d['@parseinfo'] = canon(pi, depth + 1)
        return d
    return {'@obj': clsname(t), 'repr': scrub(repr(v))[:120]}


def canon_exc(e):
    d = {'@exc': type(e).__name__}
    pos = getattr(e, 'pos', None)
    if isinstance(pos, int):
        d['pos'] = pos
    msg = getattr(e, 'message', None)
    if not isinstance(msg, str):
        msg = str(e).split('\n', 1)[0]
    d['msg'] = scrub(str(msg))[:160]
    return d


def canon_config(cfg, idmap=True):
    """ParserConfig -> comparable dict; object-valued settings by class (and identity within a process)"""
    out = {}
    try:
        items = cfg.asdict().items()
    except Exception as e:  # noqa: BLE001
        return {'@asdict-failed': type(e).__name__}
    for k, v in items:
        if v is None or isinstance(v, (bool, int, float, str)):
            out[k] = v
        elif isinstance(v, (tuple, list)):
            out[k] = [x if isinstance(x, (str, int, float, bool, type(None))) else repr(type(x).__name__) for x in v]
        elif isinstance(v, re.Pattern):
            out[k] = 're:' + v.pattern
        elif isinstance(v, type):
            out[k] = 'type:' + v.__name__
        else:
            out[k] = 'obj:' + type(v).__name__ + (f'#{id(v)}' if idmap else '')
    return out


def canon_arg(v, depth=0):
    """deep canonical form of a caller-owned argument object, for "the call must not change what it was given":
    containers and configuration objects by content; classes, functions and TatSu's own objects by identity (their
    inside is not the caller's); client objects (semantics) by their public attributes.  Compared only within one
    process (before / after one call), so id() may appear."""
    if depth > 12:
        return '<deep>'
    if v is None or isinstance(v, (bool, int, str)):
        return v
    if isinstance(v, float):
        return repr(v)
    if isinstance(v, type):
        return f'type:{clsname(v)}#{id(v)}'
    if isinstance(v, re.Pattern):
        return 're:' + v.pattern
    if isinstance(v, dict):
        return {'@' + type(v).__name__: [[canon_arg(k, depth + 1), canon_arg(x, depth + 1)] for k, x in v.items()]}
    if isinstance(v, (list, tuple)):
        return {'@' + type(v).__name__: [canon_arg(x, depth + 1) for x in v]}
    if isinstance(v, (set, frozenset)):
        return {'@' + type(v).__name__: sorted((canon_arg(x, depth + 1) for x in v), key=repr)}
    if isinstance(v, types.ModuleType):
        return {'@module': v.__name__,
                'vars': [[k, canon_arg(x, depth + 1)] for k, x in vars(v).items() if not k.startswith('__')]}
    if isinstance(v, (types.FunctionType, types.BuiltinFunctionType, types.MethodType)):
        return f'callable:{getattr(v, "__qualname__", "?")}#{id(v)}'
    t = type(v)
    if hasattr(v, 'asdict') and hasattr(t, '__dataclass_fields__'):      # ParserConfig, BuilderConfig
        try:
            return {'@cfg': clsname(t), 'fields': {k: canon_arg(x, depth + 1) for k, x in v.asdict().items()}}
        except Exception as e:  # noqa: BLE001
            return {'@cfg': clsname(t), '@asdict-failed': type(e).__name__}
    if (getattr(t, '__module__', '') or '').split('.')[0] == 'tatsu':
        return f'tatsu-object:{clsname(t)}#{id(v)}'
    try:
        pub = {k: canon_arg(x, depth + 1) for k, x in vars(v).items() if not k.startswith('_')}
    except TypeError:
        pub = scrub(repr(v))[:120]
    return {'@obj': clsname(t), 'id': id(v), 'vars': pub}


def digest(s):
    return hashlib.blake2b(s.encode(), digest_size=8).hexdigest()


def model_digest(model):
    return digest(scrub(json.dumps(model.asjson(), sort_keys=True, default=repr)))


# ----------------------------------------------------------------------------------------------
# option decoding:  JSON value -> real argument object
# ----------------------------------------------------------------------------------------------

def _container(spec, env):
    """one typedefs container: a list of class names -> a dict; {'module': [names]} -> a module object"""
    if isinstance(spec, dict):
        mod = types.ModuleType('vtc10alt' if any(n.startswith('alt.') for n in spec['module']) else 'vtc10')
        for n in spec['module']:
            setattr(mod, n.split('.')[-1], env.base(n))
        return mod
    return {n.split('.')[-1]: env.base(n) for n in spec}


def _ctor_value(x, env):
    return env.ctor(x) if x in ('item1', 'item2') else env.base(x)


def decode_opts(opts, env, semslot, passed, argslot=None, prefix=''):
    """JSON option values -> the real argument objects.  Every caller-owned object handed to TatSu (mutable
    containers, configuration objects, semantics objects) is appended to `passed` as (label, object): the STATE
    monitor snapshots them around the call.  argslot: see Env.shared."""
    out = {}
    for k, v in (opts or {}).items():
        label = prefix + k
        if k == 'semantics':
            if isinstance(v, dict):
                # a ModelBuilderSemantics the caller built from its own lists: {'mbs': {constructors/typedefs/...}}
                from tatsu.semantics import ModelBuilderSemantics
                inner = decode_opts(v['mbs'], env, semslot, passed, argslot, label + '.')
                out[k] = env.shared(k, v, argslot, lambda inner=inner: ModelBuilderSemantics(**inner))
            else:
                out[k] = None if v is None else env.sem(v, semslot)
        elif k == 'basetype':
            out[k] = env.base(v)
            continue
        elif k == 'constructors':
            out[k] = env.shared(k, v, argslot, lambda v=v: [_ctor_value(x, env) for x in v])
        elif k == 'typedefs':
            if all(isinstance(x, str) for x in v):
                out[k] = env.shared(k, v, argslot, lambda v=v: [_container(v, env)])
            else:
                out[k] = env.shared(k, v, argslot, lambda v=v: [_container(x, env) for x in v])
        elif k == 'keywords':
            out[k] = env.shared(k, v, argslot, lambda v=v: list(v))
        elif k == 'config':
            from tatsu.config import ParserConfig
            inner = decode_opts(v, env, semslot, passed, argslot, label + '.')
            out[k] = env.shared(k, v, argslot, lambda inner=inner: ParserConfig(**inner))
        elif k == 'builderconfig':
            from tatsu.objectmodel.builder import BuilderConfig
            inner = decode_opts(v, env, semslot, passed, argslot, label + '.')
            out[k] = env.shared(k, v, argslot, lambda inner=inner: BuilderConfig(**inner))
        else:
            out[k] = v
            continue
        if out[k] is not None:
            passed.append((label, out[k]))
    return out


def obtain_key(desc):
    return json.dumps([desc['fam'], desc['via'], desc.get('c') or {}, desc.get('k') or {}], sort_keys=True)


def class_key(desc):
    return json.dumps([desc['fam'], desc['via'], desc.get('c') or {}], sort_keys=True)


def desc_key(desc):
    """identity of a call = its arguments (the 'id' label is not part of it)"""
    return json.dumps([desc['fam'], desc['via'], desc.get('c') or {}, desc.get('k') or {}, desc.get('p') or {},
                       desc.get('text'), desc.get('probe', 'parse')], sort_keys=True)


def _exec_module(src, env):
    env.nmod += 1
    mod = types.ModuleType(f'vtc10gen{env.nmod}')
    sys.modules[mod.__name__] = mod      # generated dataclasses look their module up
    exec(compile(src, f'<vtc10gen{env.nmod}>', 'exec'), mod.__dict__)  # noqa: S102
    return mod


def _find_class(mod, suffix):
    for k, v in mod.__dict__.items():
        if isinstance(v, type) and k.endswith(suffix) and v.__module__ == mod.__name__:
            return v
    raise LookupError(suffix)


# ----------------------------------------------------------------------------------------------
# STATE monitor: a parse must not change the model, its configuration, or a passed ParserConfig; NO call may change
# a caller-owned argument object it was given (arg_snapshot / watch_args)
# ----------------------------------------------------------------------------------------------

def snapshot(obj, passed):
    snap = {}
    try:
        from tatsu.peg.base import Grammar
        if isinstance(obj, Grammar):
            snap['model'] = model_digest(obj)
            snap['model_name'] = obj.name
    except Exception as e:  # noqa: BLE001
        snap['model'] = '@failed:' + type(e).__name__
    cfg = getattr(obj, 'config', None)
    if cfg is not None and hasattr(cfg, 'asdict'):
        snap['config'] = canon_config(cfg)
    # a parser object: its permanent configuration (what the next bare call starts from)
    perm = getattr(obj, 'self_config', None) if obj is not None else None
    if perm is not None and hasattr(perm, 'asdict'):
        snap['self_config'] = canon_config(perm)
    snap['passed'] = [canon_config(c) for c in _passed_configs(passed)]
    snap['args'] = arg_snapshot(passed)
    return snap


def _is_parser_config(o):
    try:
        from tatsu.config import ParserConfig
    except Exception:  # noqa: BLE001
        return False
    return isinstance(o, ParserConfig)


def _passed_configs(passed):
    return [o for _label, o in passed if _is_parser_config(o)]


def arg_snapshot(passed):
    """[(label, id, deep canonical form)] of every caller-owned argument object of the call (a ParserConfig is
    compared field by field by the 'passed-config' part of the snapshot)"""
    return [(label, id(o), canon_arg(o)) for label, o in passed if not _is_parser_config(o)]


def arg_diff(before, after):
    """-> (labels of the argument objects (and configuration fields) whose content changed, ids of those objects)"""
    fields, ids = [], []
    for (label, i, b), (_l, _i, a) in zip(before, after):
        if b == a:
            continue
        ids.append(i)
        names = [label]
        if isinstance(b, dict) and isinstance(a, dict) and '@cfg' in b and 'fields' in b and 'fields' in a:
            names = [f'{label}.{k}' for k in sorted(set(b['fields']) | set(a['fields']))
                     if b['fields'].get(k) != a['fields'].get(k)] or [label]
        for n in names:
            if n not in fields:
                fields.append(n)
    return sorted(fields), ids


def state_diff(before, after):
    """-> list of (what, fields) alterations"""
    out = []
    if before.get('model') != after.get('model') or before.get('model_name') != after.get('model_name'):
        out.append(('model', ['asjson']))
    for key in ('config', 'self_config'):
        b, a = before.get(key), after.get(key)
        if b != a:
            fields = sorted(k for k in set(b or {}) | set(a or {}) if (b or {}).get(k) != (a or {}).get(k))
            out.append((key, fields))
    for i, (b, a) in enumerate(zip(before.get('passed', []), after.get('passed', []))):
        if b != a:
            fields = sorted(k for k in set(b) | set(a) if b.get(k) != a.get(k))
            out.append(('passed-config', fields))
    fields, ids = arg_diff(before.get('args', []), after.get('args', []))
    if fields:
        out.append(('passed-argument', fields, ids))
    return out


# ----------------------------------------------------------------------------------------------
# the evaluator
# ----------------------------------------------------------------------------------------------

class watch_args:
    """STATE monitor around a call that is not a parse: the caller-owned argument objects before and after"""

    def __init__(self, env, desc, passed, call):
        self.env, self.desc, self.passed, self.call = env, desc, passed, call

    def __enter__(self):
        self.before = arg_snapshot(self.passed)
        return self

    def __exit__(self, *exc):
        self.env.count('calls_argument_monitored:' + self.call)
        self.env.count('argument_objects_snapshotted', len(self.before))
        fields, ids = arg_diff(self.before, arg_snapshot(self.passed))
        if fields:
            _state_event(self.env, self.desc, 'passed-argument', fields, ids, self.call)
        return False


def obtain(desc, env, semslot, passed, argslot=None):
    import tatsu
    G = GRAMMARS[desc['fam']]
    via = desc['via']
    c = decode_opts(desc.get('c'), env, semslot, passed, argslot)
    if via == 'compile':
        with watch_args(env, desc, passed, 'compile'):
            return tatsu.compile(G, **c)
    if via in ('gen', 'genmodel'):
        ck = class_key(desc)
        cls = env.classes.get(ck) if desc.get('_reuse') else None
        if cls is None:
            with watch_args(env, desc, passed, 'codegen'):
                if via == 'gen':
                    src = tatsu.to_python_sourcecode(G, **c)
                    cls = _find_class(_exec_module(src, env), 'Parser')
                else:
                    src = tatsu.to_python_model(G, **c)
                    cls = _find_class(_exec_module(src, env), 'ModelBuilderSemantics')
            env.classes[ck] = cls
            env.count('codegen_exec')
        else:
            env.count('generated_class_reused')
        if via == 'gen':
            k = decode_opts(desc.get('k'), env, semslot, passed, argslot)
            with watch_args(env, desc, passed, 'parser-init'):
                return cls(**k)
        return tatsu.compile(G, semantics=cls())
    raise KeyError(via)


def info(model):
    sem = getattr(model, 'semantics', None)
    cfg = canon_config(model.config, idmap=False)
    return {'name': model.name, 'json': model_digest(model),
            'semantics': None if sem is None else type(sem).__name__,
            'rules': [r.name for r in model.rules],
            'config': cfg}


def evaluate(desc, env, reuse=None, phase='full', semslot=None, argslot=None):
    """-> canonical result (None for an obtain-only step).  Every exception class that escapes a
    TatSu call is the observation.  reuse: None (obtain anew) | 'obj' (the object an earlier step
    obtained with the same obtaining arguments) | 'cls' (a new instance of the generated class)"""
    import tatsu
    via = desc['via']
    passed = []
    desc = dict(desc)
    desc['_reuse'] = bool(reuse)
    try:
        if via == 'api':
            c = decode_opts(desc.get('c'), env, semslot, passed, argslot)
            before = snapshot(None, passed)
            try:
                return canon(tatsu.parse(GRAMMARS[desc['fam']], desc['text'], **c))
            finally:
                env.count('calls_argument_monitored:tatsu.parse')
                env.count('argument_objects_snapshotted', len(before['args']))
                _state_check(env, desc, before, snapshot(None, passed))
        if via in ('src', 'modelsrc'):
            c = decode_opts(desc.get('c'), env, semslot, passed, argslot)
            f = tatsu.to_python_sourcecode if via == 'src' else tatsu.to_python_model
            with watch_args(env, desc, passed, 'codegen'):
                src = f(GRAMMARS[desc['fam']], **c)
            return {'digest': digest(src), 'classes': re.findall(r'^class (\w+)', src, re.M)}
        ok = obtain_key(desc)
        obj = env.objects.get(ok) if reuse == 'obj' else None
        if obj is None:
            obj = obtain(desc, env, semslot, passed, argslot)
            env.objects[ok] = obj
            env.count('objects_obtained')
        else:
            env.count('objects_reused')
        if phase == 'obtain':
            return None
        if desc.get('probe', 'parse') == 'info':
            return info(obj)
        p = decode_opts(desc.get('p'), env, semslot, passed, argslot)
        before = snapshot(obj, passed)
        try:
            return canon(obj.parse(desc['text'], **p))
        finally:
            env.count('parses_state_monitored')
            env.count('calls_argument_monitored:parse')
            env.count('argument_objects_snapshotted', len(before['args']))
            _state_check(env, desc, before, snapshot(obj, passed))
    except RecursionError:
        return {'@exc': 'RecursionError'}
    except Exception as e:  # noqa: BLE001 - the class IS the observation
        return canon_exc(e)


def _state_event(env, desc, what, fields, ids=(), call='parse'):
    env.state_events.append({'what': what, 'fields': fields, 'call': call, 'step': env.step,
                             'kept': sorted(env.arg_keys[i] for i in ids if i in env.arg_keys),
                             'desc': {k: v for k, v in desc.items() if k != '_reuse'}})


def _state_check(env, desc, before, after):
    call = 'tatsu.parse' if desc.get('via') == 'api' else 'parse'
    for what, fields, *ids in state_diff(before, after):
        _state_event(env, desc, what, fields, ids[0] if ids else (), call)


# ----------------------------------------------------------------------------------------------
# the descriptor pool
# ----------------------------------------------------------------------------------------------

def _shapes():
    S = {}
    S['typed'] = [
        ('compile', {}, None, {}, 'g0'),
        ('compile', {'asmodel': True}, None, {}, 'g0'),
        ('compile', {'basetype': 'BaseA'}, None, {}, 'g0'),
        ('compile', {'basetype': 'BaseB'}, None, {}, 'g0'),
        ('api', {}, None, None, 'g0'),
        ('api', {'asmodel': True}, None, None, 'g0'),
        ('api', {'basetype': 'BaseA'}, None, None, 'g0'),
        ('compile', {}, None, {'asmodel': True}, 'g0'),
        ('compile', {}, None, None, 'info'),
        ('compile', {'asmodel': True}, None, None, 'info'),
        ('compile', {'name': 'Foo'}, None, None, 'info'),
        ('compile', {'name': 'Foo', 'asmodel': True}, None, {}, 'g1'),
        ('compile', {'name': 'Foo'}, None, {}, 'g1'),
        ('compile', {'semantics': 'upper'}, None, {}, 'g0'),
        ('compile', {'semantics': 'upper', 'asmodel': True}, None, {}, 'g0'),
        ('compile', {}, None, {}, 'b0'),
        ('compile', {'asmodel': True}, None, {}, 'b0'),
        ('genmodel', {}, None, {}, 'g0'),
        ('modelsrc', {}, None, None, None),
        ('modelsrc', {'name': 'Foo'}, None, None, None),
        ('gen', {}, {}, {}, 'g0'),
        ('gen', {}, {'semantics': 'upper'}, {}, 'g0'),
        ('compile', {'constructors': ['item1']}, None, {}, 'g1'),
        ('compile', {'constructors': ['item2']}, None, {}, 'g1'),
        ('api', {'constructors': ['item1']}, None, None, 'g1'),
        ('api', {'constructors': ['item2']}, None, None, 'g1'),
        ('compile', {'typedefs': ['BaseA']}, None, {}, 'g1'),
        ('compile', {}, None, {'semantics': 'upper'}, 'g2'),
    ]
    S['typed2'] = [
        ('compile', {'asmodel': True}, None, {}, 'g0'),
        ('api', {'asmodel': True}, None, None, 'g0'),
        ('compile', {}, None, {}, 'g0'),
        ('compile', {'basetype': 'BaseA'}, None, {}, 'g0'),
        ('compile', {}, None, None, 'info'),
        ('compile', {'name': 'Typed'}, None, None, 'info'),
        ('src', {}, None, None, None),
        ('compile', {}, None, {'asmodel': True}, 'g2'),
        ('compile', {}, None, {}, 'b2'),
    ]
    S['plain'] = [
        ('compile', {}, None, {'semantics': 'none'}, 'g0'),
        ('api', {'semantics': 'none'}, None, None, 'g0'),
        ('gen', {}, {}, {'semantics': 'none'}, 'g0'),
        ('compile', {}, None, {}, 'g0'),
        ('compile', {'semantics': 'upper'}, None, {}, 'g0'),
        ('compile', {'semantics': 'scale2'}, None, {}, 'g0'),
        ('compile', {'semantics': 'scale3'}, None, {}, 'g0'),
        ('compile', {}, None, {'semantics': 'scale2'}, 'g0'),
        ('compile', {}, None, {'semantics': 'scale3'}, 'g0'),
        ('compile', {'semantics': 'upper'}, None, {'semantics': 'tag'}, 'g0'),
        ('api', {'semantics': 'scale2'}, None, None, 'g0'),
        ('api', {'semantics': 'scale3'}, None, None, 'g0'),
        ('api', {}, None, None, 'g0'),
        ('compile', {}, None, {'start': 'item'}, '12'),
        ('compile', {}, None, {'start': 'name'}, 'abc'),
        ('compile', {}, None, {}, 'b0'),
        ('compile', {}, None, {}, 'b1'),
        ('compile', {}, None, {'config': {'start': 'item', 'parseinfo': True}}, '12'),
        ('compile', {}, None, {'parseinfo': True, 'semantics': 'info'}, 'g0'),
        ('compile', {}, None, {'semantics': 'info'}, 'g0'),
        ('compile', {'asmodel': True}, None, {}, 'g0'),
        ('compile', {'whitespace': 'x'}, None, {}, '1x+xa'),
        ('compile', {}, None, {}, '1x+xa'),
        ('compile', {}, None, {'whitespace': 'x'}, '1x+xa'),
        ('compile', {'ignorecase': True}, None, {}, 'g0'),
        ('compile', {'start': 'item'}, None, {}, '12'),
        ('gen', {}, {}, {}, 'g0'),
        ('gen', {}, {'semantics': 'scale2'}, {}, 'g0'),
        ('gen', {}, {}, {}, 'b0'),
        ('gen', {'name': 'Foo'}, {}, {}, 'g0'),
        ('gen', {}, {}, {'start': 'item'}, '12'),
        ('gen', {}, {}, {'semantics': 'scale3'}, 'g0'),
        ('gen', {}, {}, {'whitespace': 'x'}, '1x+xa'),
        ('src', {}, None, None, None),
        ('src', {'name': 'Foo'}, None, None, None),
        ('api', {'start': 'item'}, None, None, '12'),
        ('api', {'name': 'Foo'}, None, None, 'g2'),
        ('compile', {'name': 'Foo'}, None, None, 'info'),
        ('compile', {}, None, None, 'info'),
        ('compile', {'semantics': 'upper'}, None, None, 'info'),
    ]
    S['kw'] = [
        ('compile', {}, None, {}, 'g0'),
        ('compile', {}, None, {}, 'b1'),
        ('compile', {}, None, {'ignorecase': True}, 'IF a THEN b'),
        ('compile', {'ignorecase': True}, None, {}, 'IF a THEN b'),
        ('compile', {}, None, {'nameguard': False}, 'ifa thenb'),
        ('compile', {}, None, {}, 'ifa thenb'),
        ('gen', {}, {}, {}, 'g0'),
        ('gen', {}, {}, {}, 'b1'),
        ('gen', {}, {'nameguard': False}, {}, 'ifa thenb'),
        ('compile', {'semantics': 'upper'}, None, {}, 'g0'),
        ('api', {}, None, None, 'g0'),
        ('api', {'ignorecase': True}, None, None, 'IF a THEN b'),
        ('compile', {}, None, {'config': {'ignorecase': True}}, 'IF a THEN b'),
        ('compile', {}, None, None, 'info'),
    ]
    S['lrec'] = [
        ('compile', {}, None, {}, 'g2'),
        ('compile', {}, None, {}, 'b1'),
        ('compile', {'semantics': 'scale2'}, None, {}, 'g2'),
        ('compile', {}, None, {'left_recursion': False}, 'g2'),
        ('compile', {'left_recursion': False}, None, {}, 'g2'),
        ('gen', {}, {}, {}, 'g2'),
        ('gen', {}, {}, {}, 'b1'),
        ('compile', {}, None, {'memoization': False}, 'g2'),
        ('api', {}, None, None, 'g1'),
        ('compile', {'semantics': 'tag'}, None, {}, 'g1'),
        ('compile', {}, None, {'semantics': 'scale3'}, 'g1'),
    ]
    S['ws'] = [
        ('compile', {}, None, {}, 'g1'),
        ('compile', {}, None, {'ignorecase': False}, 'g1'),
        ('compile', {}, None, {'whitespace': '[ ]+'}, 'g2'),
        ('compile', {}, None, {}, 'g2'),
        ('gen', {}, {}, {}, 'g1'),
        ('gen', {}, {'ignorecase': False}, {}, 'g1'),
        ('gen', {}, {}, {'whitespace': '[ ]+'}, 'g2'),
        ('compile', {}, None, {}, 'b0'),
        ('api', {}, None, None, 'g1'),
        ('api', {'ignorecase': False}, None, None, 'g1'),
        ('compile', {}, None, None, 'info'),
        ('compile', {}, None, {'config': {'whitespace': '[ ]+', 'ignorecase': False}}, 'g0'),
        ('compile', {}, None, {'semantics': 'scale2'}, 'g0'),
    ]
    # caller-owned mutable arguments (tag 'arg'): lists of constructors, lists of typedefs containers (dicts, modules),
    # BuilderConfig / ParserConfig objects, a ModelBuilderSemantics built from the caller's lists, list settings.  The
    # SAME values appear in several descriptors (alone, and together with other options) so that a history which keeps
    # the object in a variable (argslot) passes the very same list / config to several calls
    CT = {'constructors': ['Other']}
    TD = ['Item', 'Num']
    for via, p, tk in (('compile', {}, 'g0'), ('api', None, 'g0')):
        S['typed'] += [
            (via, dict(CT), None, p, tk, 'arg'),
            (via, dict(CT, typedefs=TD), None, p, tk, 'arg'),
            (via, {'typedefs': TD}, None, p, tk, 'arg'),
            (via, {'builderconfig': dict(CT, typedefs=TD)}, None, p, tk, 'arg'),
            (via, {'builderconfig': dict(CT)}, None, p, tk, 'arg'),
        ]
    S['typed'] += [
        ('compile', dict(CT, typedefs=[['Name'], {'module': ['Top', 'Extra']}]), None, {}, 'g2', 'arg'),
        ('compile', dict(CT, typedefs=['alt.Item']), None, {}, 'g0', 'arg'),
        ('compile', {'typedefs': [{'module': ['Item', 'Num', 'Name']}]}, None, {}, 'g0', 'arg'),
        ('compile', {'builderconfig': dict(CT), 'typedefs': TD}, None, {}, 'g0', 'arg'),
        ('compile', {'builderconfig': {'typedefs': TD}, 'constructors': ['Other']}, None, {}, 'g0', 'arg'),
        ('compile', {'constructors': ['Other', 'Top', 'Item', 'Num', 'Name']}, None, {}, 'g2', 'arg'),
        ('compile', {'semantics': {'mbs': dict(CT, typedefs=TD)}}, None, {}, 'g0', 'arg'),
        ('compile', {'semantics': {'mbs': {'typedefs': TD}}}, None, {}, 'g0', 'arg'),
        ('compile', {'semantics': {'mbs': dict(CT)}}, None, {}, 'g0', 'arg'),
        ('compile', {}, None, {'semantics': {'mbs': dict(CT, typedefs=TD)}}, 'g0', 'arg'),
        ('gen', {}, {'semantics': {'mbs': {'typedefs': TD}}}, {}, 'g0', 'arg'),
        ('api', {'semantics': {'mbs': dict(CT, typedefs=TD)}}, None, None, 'g2', 'arg'),
    ]
    S['typed2'] += [
        ('compile', dict(CT), None, {}, 'g0', 'arg'),
        ('compile', dict(CT, typedefs=TD), None, {}, 'g0', 'arg'),
        ('api', {'builderconfig': dict(CT, typedefs=TD)}, None, None, 'g2', 'arg'),
        ('api', {'builderconfig': dict(CT)}, None, None, 'g2', 'arg'),
    ]
    KW = ['foo']
    S['kw'] += [
        ('compile', {}, None, {'keywords': KW}, 'g1', 'arg'),
        ('compile', {'keywords': KW}, None, {}, 'g1', 'arg'),
        ('api', {'keywords': KW}, None, None, 'g1', 'arg'),
        ('compile', {}, None, {'config': {'keywords': KW}}, 'g1', 'arg'),
        ('compile', {}, None, {'keywords': KW, 'ignorecase': True}, 'g1', 'arg'),
        ('gen', {}, {'keywords': KW}, {}, 'g1', 'arg'),
        ('compile', {}, None, {'namechars': '-'}, 'foo-x bar', 'arg'),
    ]
    # constants and alerts (tag 'const'): the SAME model parses texts that bind who / n and texts that do not
    S['const'] = [('compile', {}, None, {}, f'g{i}', 'const') for i in range(6)] + [
        ('compile', {}, None, {}, 'b0', 'const'),
        ('compile', {}, None, {}, 'b1', 'const'),
        ('compile', {}, None, {'parseinfo': True}, 'g3', 'const'),
        ('compile', {}, None, {'parseinfo': True}, 'g5', 'const'),
        ('compile', {}, None, {'start': 'tag'}, 'tag 7', 'const'),
        ('compile', {}, None, {'start': 'greet'}, 'hi bob', 'const'),
        ('compile', {'semantics': 'upper'}, None, {}, 'g4', 'const'),
        ('compile', {}, None, {'semantics': 'upper'}, 'g0', 'const'),
        ('compile', {'name': 'Foo'}, None, {}, 'g1', 'const'),
        ('api', {}, None, None, 'g0', 'const'),
        ('api', {}, None, None, 'g1', 'const'),
        ('api', {'parseinfo': True}, None, None, 'g3', 'const'),
        ('gen', {}, {}, {}, 'g0', 'const'),
        ('gen', {}, {}, {}, 'g1', 'const'),
        ('gen', {}, {}, {}, 'g4', 'const'),
        ('gen', {}, {}, {'parseinfo': True}, 'g3', 'const'),
        ('compile', {}, None, None, 'info', 'const'),
    ]
    S['const2'] = [('compile', {}, None, {}, f'g{i}', 'const') for i in range(4)] + [
        ('compile', {}, None, {}, 'b1', 'const'),
        ('compile', {'asmodel': True}, None, {}, 'g0', 'const'),
        ('compile', {'asmodel': True}, None, {}, 'g1', 'const'),
        ('compile', {'asmodel': True}, None, {}, 'g2', 'const'),
        ('compile', {'asmodel': True}, None, {'parseinfo': True}, 'g1', 'const'),
        ('compile', {'asmodel': True}, None, {'parseinfo': True}, 'g3', 'const'),
        ('compile', {}, None, {'parseinfo': True}, 'g0', 'const'),
        ('api', {}, None, None, 'g0', 'const'),
        ('api', {}, None, None, 'g1', 'const'),
        ('api', {'asmodel': True, 'parseinfo': True}, None, None, 'g3', 'const'),
        ('gen', {}, {}, {}, 'g0', 'const'),
        ('gen', {}, {}, {}, 'g1', 'const'),
        ('gen', {}, {}, {'parseinfo': True}, 'g2', 'const'),
        ('genmodel', {}, None, {}, 'g1', 'const'),
    ]
    # calls on ONE reusable object (a generated-parser instance / a compiled model) that pass nothing, or exactly one
    # thing: the bare call after any of the others must still be the bare call
    sem = {'typed': 'upper', 'typed2': 'upper', 'plain': 'scale2', 'kw': 'upper', 'lrec': 'scale2', 'ws': 'scale2'}
    for fam, (rule, rtext) in ONE_ARG_START.items():
        text = TEXTS[fam][0][0]
        one = [({}, text), ({'asmodel': True}, text), ({'semantics': sem[fam]}, text), ({'parseinfo': True}, text),
               ({'config': {'parseinfo': True}}, text)]
        if fam in ('typed', 'typed2', 'plain'):
            one += [({'start': rule}, rtext), ({'config': {'semantics': sem[fam]}}, text), ({'config': {}}, text),
                    ({'nameguard': False}, text), ({'memoization': False}, text)]
        if fam in ('typed', 'typed2'):
            one += [({'ignorecase': True}, text), ({'whitespace': 'x'}, text.replace(' ', 'x')),
                    ({'config': {'start': rule}}, rtext), ({}, rtext), ({}, TEXTS[fam][1][0])]
        for p, t in one:
            S[fam].append(('gen', {}, {}, p, t, 'one'))
            S[fam].append(('compile', {}, None, p, t, 'one'))
    return S


ONE_ARG_START = {'typed': ('item', '12'), 'typed2': ('item', '7'), 'plain': ('item', '12'), 'kw': ('ident', 'foo'),
                 'lrec': ('term', '1'), 'ws': ('num', '5')}


def is_bare(desc):
    """no argument but the text"""
    return desc['via'] in ('gen', 'compile', 'genmodel') and desc.get('probe', 'parse') == 'parse' and not desc.get('p')


def _text(fam, key):
    good, bad = TEXTS[fam]
    if isinstance(key, str) and len(key) == 2 and key[0] in 'gb' and key[1].isdigit():
        return (good if key[0] == 'g' else bad)[int(key[1])]
    return key


def pool(tier='quick'):
    """the call descriptors.  thorough: every parse shape additionally with every other text of its family"""
    out, seen = [], set()

    def add(d):
        k = desc_key(d)
        if k in seen:
            return
        seen.add(k)
        d['id'] = f"{d['fam']}.{len(out)}"
        out.append(d)

    for fam, shapes in _shapes().items():
        for via, c, k, p, tk, *tag in shapes:
            d = {'fam': fam, 'via': via, 'c': c}
            if tag:
                d['tag'] = tag[0]
            if k is not None:
                d['k'] = k
            if tk == 'info':
                d['probe'] = 'info'
            elif via in ('src', 'modelsrc'):
                pass
            else:
                if p is not None:
                    d['p'] = p
                d['text'] = _text(fam, tk)
            add(d)
            if tier == 'thorough' and 'text' in d and isinstance(tk, str) and len(tk) == 2 and tk[0] in 'gb':
                good, bad = TEXTS[fam]
                for t in good + bad:
                    add(dict(d, text=t))
    return out


# argument dimensions of a descriptor, for explaining a divergence by "option o of an earlier call leaked"
COMPILE_LEVEL = {'compile': 'c', 'api': 'c', 'gen': 'c', 'genmodel': 'c', 'src': 'c', 'modelsrc': 'c'}


def dims(desc):
    """{(level, option): value}; level 'c' = what reaches tatsu.compile / code generation,
    'k' = generated-parser constructor, 'p' = the parse call"""
    out = {}
    for lvl in ('c', 'k', 'p'):
        for o, v in (desc.get(lvl) or {}).items():
            if o == 'config' and isinstance(v, dict):
                for o2, v2 in v.items():
                    out[(lvl, o2)] = v2
            else:
                out[(lvl, o)] = v
    if desc['via'] == 'api':
        # tatsu.parse passes only asmodel on to compile; the rest configures the parse
        out = {(('c' if o == 'asmodel' else 'p'), o): v for (lvl, o), v in out.items()}
    return out


# ----------------------------------------------------------------------------------------------
# worker main: run the steps of one history in this (fresh) interpreter
# ----------------------------------------------------------------------------------------------

def run_steps(steps):
    import tatsu
    env = Env()
    results = []
    for n, st in enumerate(steps):
        env.step = n
        if st.get('drop'):
            env.drop()
        r = evaluate(st['desc'], env, reuse=st.get('reuse'), phase=st.get('phase', 'full'),
                     semslot=st.get('semslot'), argslot=st.get('argslot'))
        results.append(r)
    cache_sizes = {}
    try:  # evidence probes only: degrade to "unobserved"
        from tatsu.api import api as _api
        for k, v in vars(_api).items():
            if k.endswith('compiled_grammar_cache'):
                cache_sizes['compiled_grammar_cache'] = len(v)
        from tatsu.util.typetools import BoundCallable
        cache_sizes['bind_cache'] = len(BoundCallable._BIND_CACHE)
        from tatsu.contexts.core import find_cached_semantic_action as f
        cache_sizes['semantic_action_cache'] = f.cache_info().currsize
    except Exception:  # noqa: BLE001
        pass
    return {'results': results, 'state_events': env.state_events, 'counters': env.counters,
            'kept_args': {str(k): v for k, v in env.step_keys.items()},
            'cache_sizes': cache_sizes, 'tatsu_file': tatsu.__file__}


def main():
    job = json.load(sys.stdin)
    sys.setrecursionlimit(4000)
    out = run_steps(job['steps'])
    sys.stdout.write(json.dumps(out))
    sys.stdout.flush()
    return 0


if __name__ == '__main__':
    sys.exit(main())
