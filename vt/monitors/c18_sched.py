"""C18 monitors: workload (payloads + task function), a deterministic executor whose completion
schedule is chosen by a scheduler, and the offline history checker.

Workload: the exception a payload's function raises is one of EXC_KIND_NAMES (every builtin Exception class outside
the RuntimeError family, OSError built from an errno, some standard-library and user-defined classes; each verified to
survive a pickle round trip).  A payload list may name a payload several times and may hold different payloads that
compare / hash equal (GroupPayload & co., make_payloads); the checker identifies a result by the id it reads from
result.payload.payload and wants as many results for an id as the list has positions for it.

Nothing here reimplements tatsu.parproc: the real `parproc()` generator, the real `taskproc` and
the real `concurrent.futures.as_completed` run; only the *executor* (who runs a task and when its
future completes) and the *blocking point* (`threading.Event.wait` inside concurrent.futures._base)
are replaced, so that every completion is a decision of the scheduler.
"""
from __future__ import annotations

import concurrent.futures
import concurrent.futures._base as cf_base
import concurrent.futures.process as cf_process
import contextlib
import dataclasses
import multiprocessing
import os
import pickle
import threading
import time
from pathlib import Path

# ----------------------------------------------------------------------------------------------
# workload: payloads with a unique id, a task function whose behaviour is fixed by the payload
# ----------------------------------------------------------------------------------------------


class VtTaskError(Exception):
    """a user-defined exception (picklable through .args)"""


class VtLookup(KeyError):
    pass


class VtConnLost(ConnectionError):
    """user-defined: the peer hung up"""


class VtTruncated(EOFError):
    """user-defined: the document ends early"""


class VtIOValue(OSError, ValueError):
    """user-defined, two builtin bases (the shape of io.UnsupportedOperation)"""


class VtMulti(VtTaskError, LookupError):
    """user-defined, a user-defined and a builtin base"""


class VtWithState(Exception):
    """user-defined with its own constructor and an attribute next to .args"""

    def __init__(self, msg, uid):
        super().__init__(msg, uid)
        self.uid = uid


class VtNeverRaised(Exception):
    """declared by raises() of the 'undeclared' poison payloads; no task function raises it"""


def _excluded(cls):
    """outside the statement: taskproc always re-raises RuntimeError and its subclasses (RecursionError,
    NotImplementedError, ...); KeyboardInterrupt / SystemExit / GeneratorExit are not Exceptions"""
    return not issubclass(cls, Exception) or issubclass(cls, RuntimeError)


def _special_args(cls, text, uid):
    """constructor arguments of the builtin classes that do not take (text, uid)"""
    if issubclass(cls, UnicodeDecodeError):
        return ('utf-8', b'\xffboom', uid % 3, 4, f'{text}-{uid}')
    if issubclass(cls, UnicodeEncodeError):
        return ('ascii', 'b\xf6\xf6m', uid % 3, 4, f'{text}-{uid}')
    if issubclass(cls, UnicodeTranslateError):
        return ('b\xf6\xf6m', uid % 3, 4, f'{text}-{uid}')
    if issubclass(cls, SyntaxError):
        return (text, (f'p{uid}.ebnf', uid, 3, 'start = rule $ ;'))
    if issubclass(cls, BaseExceptionGroup):
        return (text, [ValueError(uid), KeyError(text)])
    return None


def _build_kinds():
    """-> ({kind: constructor}, {kind: args builder}, [(kind, why skipped)])

    every builtin exception class the statement covers (all subclasses of Exception that are not RuntimeErrors:
    the OSError family with its errno subclasses, EOFError, the LookupError / ArithmeticError / ValueError-UnicodeError /
    ImportError / NameError / SyntaxError families, AttributeError, AssertionError, BufferError, MemoryError,
    ReferenceError, SystemError, StopIteration, StopAsyncIteration, ExceptionGroup, the Warning classes), OSError
    built the way the OS layer builds it (errno first: the constructor picks the subclass), some standard-library
    classes and user-defined subclasses incl. multiple inheritance.  A class is used only if an instance built with
    the workload's arguments survives a pickle round trip with its type and args (what a process pool needs)."""
    import builtins
    import errno
    import io
    import json as json_mod
    import subprocess as subprocess_mod
    ctor, argsof = {}, {}
    legacy = {ValueError: 'value', KeyError: 'key', TypeError: 'type', OSError: 'os', ZeroDivisionError: 'zero',
              AssertionError: 'assert', StopIteration: 'stopiter'}
    for name in sorted(vars(builtins)):
        c = getattr(builtins, name)
        if not isinstance(c, type) or not issubclass(c, BaseException) or c.__name__ != name or _excluded(c):
            continue                                         # (IOError / EnvironmentError are aliases of OSError)
        kind = legacy.get(c, name)
        ctor[kind] = c
        argsof[kind] = (lambda text, uid, c=c: _special_args(c, text, uid) or (text, uid))
    for code in ('ENOENT', 'EPIPE', 'ECONNRESET', 'ECONNREFUSED', 'ETIMEDOUT', 'EACCES', 'EINTR', 'EEXIST', 'ENOSPC'):
        kind = 'os-' + code
        ctor[kind] = OSError                                 # OSError(errno, text) -> FileNotFoundError, BrokenPipeError, ...
        argsof[kind] = (lambda text, uid, n=getattr(errno, code): (n, f'{text}-{uid}'))
    for kind, c in (('custom', VtTaskError), ('lookup', VtLookup), ('VtConnLost', VtConnLost), ('VtTruncated', VtTruncated),
                    ('VtIOValue', VtIOValue), ('VtMulti', VtMulti), ('VtWithState', VtWithState),
                    ('io.UnsupportedOperation', io.UnsupportedOperation),
                    ('pickle.UnpicklingError', pickle.UnpicklingError)):
        ctor[kind] = c
        argsof[kind] = (lambda text, uid: (text, uid))
    ctor['json.JSONDecodeError'] = json_mod.JSONDecodeError
    argsof['json.JSONDecodeError'] = (lambda text, uid: (f'{text}-{uid}', '{"a": ]', 6))
    ctor['subprocess.CalledProcessError'] = subprocess_mod.CalledProcessError
    argsof['subprocess.CalledProcessError'] = (lambda text, uid: (uid % 120 + 1, [text, str(uid)]))
    skipped = []
    for kind in sorted(ctor):
        try:
            e = ctor[kind](*argsof[kind]('boom-' + kind, 100))
            e2 = pickle.loads(pickle.dumps(e))
            ok = type(e2) is type(e) and normal(e2.args) == normal(e.args) and not _excluded(type(e))
            why = 'does not survive a pickle round trip' if not ok else ''
        except Exception as x:                               # cannot be built with simple arguments
            ok, why = False, f'{type(x).__name__}: {x}'[:120]
        if not ok:
            skipped.append((kind, why))
            del ctor[kind], argsof[kind]
    return ctor, argsof, skipped


def normal(x, depth=0):
    """hashable, JSON-able normal form of an outcome / exception args"""
    if isinstance(x, dict):
        return ['<dict>'] + [[normal(k, depth + 1), normal(v, depth + 1)] for k, v in sorted(x.items(), key=repr)]
    if isinstance(x, (list, tuple)):
        return [normal(v, depth + 1) for v in x]
    if x is None or isinstance(x, (bool, int, float, str)):
        return x
    return repr(x)[:200]


# exception kinds the loop can be asked to capture: kind -> constructor.  RuntimeError and its subclasses are excluded:
# taskproc always re-raises them (outside the statement).
EXC_CTOR, EXC_ARGS, EXC_KINDS_SKIPPED = _build_kinds()
EXC_KIND_NAMES = sorted(EXC_CTOR)


def make_exc(kind, uid):
    """the exception the task function raises for a payload of this kind"""
    return EXC_CTOR[kind](*EXC_ARGS[kind]('boom-' + kind, uid))


# kind -> the class of the exception actually raised (OSError(errno, ...) builds a subclass)
EXC_KINDS = {k: type(make_exc(k, 100)) for k in EXC_KIND_NAMES}
EXC_CLASS_NAMES = sorted({c.__name__ for c in EXC_KINDS.values()})


def is_type_error(kind):
    """a VisualPayload whose function raises TypeError is called again with the path (documented HACK): not generated"""
    return kind is not None and issubclass(EXC_KINDS[kind], TypeError)


# raises() declarations under which an exception of kind k is one the loop is asked to capture
RAISES_DECL = {
    'none': lambda cls: (),                 # nothing declared: everything is captured
    'exact': lambda cls: (cls,),
    'base': lambda cls: (Exception,),
    'mixed': lambda cls: (UnicodeError, cls),
}
RAISES_NAMES = sorted(RAISES_DECL)


class PlainPayload:
    """implements the payload protocol structurally (path, payload, raises())"""
    __slots__ = ('uid', 'spec')

    def __init__(self, uid, spec):
        self.uid = uid
        self.spec = spec

    @property
    def path(self):
        return Path(f'/vt-c18/p{self.uid}.txt')

    @property
    def payload(self):
        return self.spec

    def raises(self):
        return _declared(self.spec)

    def __getstate__(self):
        return (self.uid, self.spec)

    def __setstate__(self, st):
        self.uid, self.spec = st

    def __repr__(self):
        return f'PlainPayload({self.uid})'


# payloads the loop cannot carry to a captured result ("poison"): the statement does not say how a run that
# contains one ends; what it does say about the *other* payloads still holds (check_disturbed)
POISON_KINDS = ('payload-lock', 'outcome-lock', 'undeclared', 'payload-local', 'outcome-local')


def _guard(kind, uid):
    """something that cannot cross a process boundary"""
    if kind.endswith('-lock'):
        return threading.Lock()
    return lambda: uid                       # a local function: not importable by name


class GuardedPayload(PlainPayload):
    """a payload that holds something that cannot be pickled"""
    __slots__ = ('guard',)

    def __init__(self, uid, spec, guard):
        super().__init__(uid, spec)
        self.guard = guard

    def __getstate__(self):
        return (self.uid, self.spec, self.guard)

    def __setstate__(self, st):
        self.uid, self.spec, self.guard = st

    def __repr__(self):
        return f'GuardedPayload({self.uid})'


# payloads that compare equal / hash equal although they are different tasks (a document identified by its content, not
# by where it lives); the id stays readable in .payload for the checker
class GroupPayload(PlainPayload):
    """== and hash ignore the id: the payloads of one group compare equal"""
    __slots__ = ()

    def __eq__(self, other):
        return isinstance(other, GroupPayload) and self.spec.get('group') == other.spec.get('group')

    def __ne__(self, other):
        return not self.__eq__(other)

    def __hash__(self):
        return hash(('vt-group', self.spec.get('group')))

    def __repr__(self):
        return f'{type(self).__name__}({self.uid}, group={self.spec.get("group")!r})'


class GroupNoHashPayload(GroupPayload):
    """equal within the group and not hashable"""
    __slots__ = ()
    __hash__ = None


class ConstHashPayload(PlainPayload):
    """all hash alike, none equal to another"""
    __slots__ = ()

    def __hash__(self):
        return 7


class ListPayload(list):
    """a payload that IS a list (its content: the group): equal by content, not hashable"""

    def __init__(self, uid, spec):
        super().__init__([spec.get('group')])
        self.uid = uid
        self.spec = spec

    @property
    def path(self):
        return Path(f'/vt-c18/l{self.uid}.txt')

    @property
    def payload(self):
        return self.spec

    def raises(self):
        return _declared(self.spec)

    def __reduce__(self):
        return (ListPayload, (self.uid, self.spec))


@dataclasses.dataclass
class DataPayload:
    """a dataclass whose equality is its content field: path and payload do not take part (eq without hash: unhashable)"""
    path: Path = dataclasses.field(compare=False)
    payload: dict = dataclasses.field(compare=False)
    group: str = ''

    def raises(self):
        return _declared(self.payload)


@dataclasses.dataclass(frozen=True)
class FrozenDataPayload:
    """the same, frozen: hashable by its content field"""
    path: Path = dataclasses.field(compare=False)
    payload: dict = dataclasses.field(compare=False)
    group: str = ''

    def raises(self):
        return _declared(self.payload)


EQ_CLASSES = {'group': GroupPayload, 'groupnohash': GroupNoHashPayload, 'consthash': ConstHashPayload, 'listy': ListPayload}
EQ_DATA_CLASSES = {'data': DataPayload, 'datafrozen': FrozenDataPayload}
EQ_CLASS_NAMES = ('group', 'data', 'groupnohash', 'listy', 'datafrozen', 'consthash')
LIST_KEYS = ('same_as', 'twin_of')          # where a spec sits in its list; not part of the payload


def _declared(spec):
    if spec.get('poison') == 'undeclared':   # declares something else: the loop is NOT asked to capture this one
        return (VtNeverRaised,)
    if spec.get('exc') is None:
        decl = spec.get('raises', 'none')
        return () if decl == 'none' else RAISES_DECL[decl](ValueError)
    return RAISES_DECL[spec.get('raises', 'none')](EXC_KINDS[spec['exc']])


def make_payload(spec):
    """spec: {'uid', 'exc': kind|None, 'raises': decl, 'cls': 'plain'|'proto'|'visual', 'sleep': ms}"""
    kind = spec.get('cls', 'plain')
    poison = spec.get('poison') or ''
    if any(k in spec for k in LIST_KEYS):
        spec = {k: v for k, v in spec.items() if k not in LIST_KEYS}
    if poison.startswith('payload-'):
        return GuardedPayload(spec['uid'], spec, _guard(poison, spec['uid']))
    if kind == 'plain':
        return PlainPayload(spec['uid'], spec)
    if kind in EQ_CLASSES:
        return EQ_CLASSES[kind](spec['uid'], spec)
    if kind in EQ_DATA_CLASSES:
        return EQ_DATA_CLASSES[kind](Path(f'/vt-c18/d{spec["uid"]}.txt'), spec, spec.get('group') or '')
    from tatsu.parproc.payload import Payload, VisualPayload
    if kind == 'visual':
        # the library's own payload class; raises() is the protocol default ()
        return VisualPayload(path=Path(f'/vt-c18/v{spec["uid"]}.txt'), payload=dict(spec, raises='none'))
    global _ProtoPayload
    if _ProtoPayload is None:
        class ProtoPayload(Payload):                      # explicit subclass of the protocol class
            def __init__(self, uid, spec):
                self.uid = uid
                self.path = Path(f'/vt-c18/q{uid}.txt')
                self.payload = spec

            def raises(self):
                return _declared(self.payload)

            def __reduce__(self):
                return (_rebuild_proto, (self.uid, self.payload))
        ProtoPayload.__qualname__ = 'ProtoPayload'
        _ProtoPayload = ProtoPayload
    return _ProtoPayload(spec['uid'], spec)


_ProtoPayload = None


def _rebuild_proto(uid, spec):
    return make_payload(dict(spec, uid=uid, cls='proto'))


def make_payloads(specs):
    """the payload list of a run.  A spec with 'same_as': j puts the very object of position j into the list again (a
    document listed twice); one with 'twin_of': j is a separately built payload from the same spec (equal where the
    class compares by value: VisualPayload, the group classes).  Both have the uid of position j: the checker counts
    results per uid, k list positions => exactly k results."""
    out = []
    for s in specs:
        j = s.get('same_as')
        out.append(out[j] if j is not None else make_payload(s))
    return out


def equal_facts(specs):
    """what the payload list of these specs really looks like (built and compared, not assumed) -> dict of counts"""
    ps = make_payloads(specs)
    same = equal = hash_equal = 0
    for i in range(len(ps)):
        for j in range(i + 1, len(ps)):
            if ps[i] is ps[j]:
                same += 1
                continue
            try:
                if ps[i] == ps[j]:
                    equal += 1
                    continue
            except Exception:
                continue
            try:
                if hash(ps[i]) == hash(ps[j]):
                    hash_equal += 1
            except TypeError:
                pass
    unhashable = 0
    for p in ps:
        try:
            hash(p)
        except TypeError:
            unhashable += 1
    return {'same_object_pairs': same, 'equal_pairs': equal, 'hash_equal_unequal_pairs': hash_equal,
            'unhashable': unhashable, 'repeated_uids': len(specs) - len({s['uid'] for s in specs})}


def uid_of(payload):
    try:
        return payload.payload['uid']
    except Exception:
        return None


def expected_value(spec, args, kwargs):
    kw = {k: v for k, v in kwargs.items() if k != 'vt_scale'}
    return ['ok', spec['uid'], spec['uid'] * 7 + 3, list(args), sorted(kw.items())]


def expected_exc(spec):
    e = make_exc(spec['exc'], spec['uid'])
    return type(e).__name__, e.args


def work(payload, *args, **kwargs):
    """the task function: outcome or exception fully determined by the payload spec"""
    spec = payload.payload if not isinstance(payload, Path) else None
    if spec is None:                     # taskproc's VisualPayload TypeError retry passes the path
        raise TypeError('called with a path')
    t0 = time.monotonic()
    scale = kwargs.get('vt_scale', 0)
    ms = spec.get('sleep', 0)
    if ms and scale:
        time.sleep(ms * scale / 1000.0)
    if spec.get('exc') is not None:
        raise make_exc(spec['exc'], spec['uid'])
    out = {'v': expected_value(spec, args, kwargs),
           'meta': {'pid': os.getpid(), 't0': t0, 't1': time.monotonic()}}
    if (spec.get('poison') or '').startswith('outcome-'):
        out['guard'] = _guard(spec['poison'], spec['uid'])      # an outcome that cannot be shipped back
    return out


def pick(outcome):
    """a non-default `pickable` transformation (module level: picklable)"""
    return ['picked', outcome]


def strip_meta(outcome):
    """-> (value without the meta record, meta|None)"""
    if isinstance(outcome, dict) and set(outcome) - {'guard'} == {'v', 'meta'}:
        return outcome['v'], outcome['meta']
    if isinstance(outcome, (list, tuple)) and len(outcome) == 2 and outcome[0] == 'picked':
        v, m = strip_meta(outcome[1])
        return ['picked', v], m
    return outcome, None


def record_of(result):
    """one yielded item -> JSON-able history record"""
    try:
        from tatsu.parproc.result import Result
        is_result = isinstance(result, Result)
    except Exception:
        is_result = hasattr(result, 'payload')
    if not is_result:
        return {'uid': None, 'foreign': repr(result)[:200]}
    v, meta = strip_meta(result.outcome)
    exc = result.exception
    return {
        'uid': uid_of(result.payload),
        'outcome': normal(v),
        'exc': None if exc is None else type(exc).__name__,
        'exc_args': None if exc is None else normal(getattr(exc, 'args', None)),
        'exc_is_exception': exc is None or isinstance(exc, BaseException),
        'meta': meta,
    }


def consume(gen, n, on_yield=None, abandon=None, facts=None):
    """drive the generator the loop returns; -> (records, end)

    abandon = {'after': k, 'how': 'stop' | 'stop-close' | 'close'}: the consumer abandons the run when it holds
    the k-th result: it sets the stop event every Result carries (public field `stop`) and keeps iterating
    ('stop'), sets it and closes the generator ('stop-close'), or just closes the generator ('close').
    facts (dict) is filled with what was done."""
    records = []
    end = 'exhausted'
    it = iter(gen)
    try:
        while True:
            try:
                r = next(it)
            except StopIteration:
                break
            records.append(record_of(r))
            leave = False
            if abandon is not None and len(records) == abandon['after']:
                if abandon['how'] in ('stop', 'stop-close'):
                    ev = getattr(r, 'stop', None)
                    try:
                        ev.set()
                        ok = bool(ev.is_set())
                    except Exception as e:              # no such public field any more: unobserved, not an alarm
                        ok = False
                        if facts is not None:
                            facts['stop_unobserved'] = f'{type(e).__name__}: {e}'[:200]
                    if facts is not None:
                        facts['stop_set'] = ok
                    del ev
                leave = abandon['how'] in ('close', 'stop-close')
            del r
            if leave:
                end = 'closed'
                break
            if on_yield is not None:
                on_yield()
            if len(records) > n + 4:
                end = 'overrun'
                break
    except Deadlock as e:
        end = 'deadlock:' + str(e)
    except Exception as e:
        end = f'exception:{type(e).__name__}'
        import traceback
        tb = ''.join(traceback.format_exception(e))
        records.append({'uid': None, 'escaped': f'{type(e).__name__}: {e}'[:300], 'traceback': tb[-3000:]})
    finally:
        close = getattr(it, 'close', None)
        if close is not None:
            try:
                close()
            except Deadlock as e:
                if end == 'closed':                     # the consumer's own close() blocks for ever
                    end = 'deadlock:' + str(e)
            except BaseException:
                pass
    return records, end


# ----------------------------------------------------------------------------------------------
# offline checker
# ----------------------------------------------------------------------------------------------

def key_of(rec):
    return repr((rec.get('uid'), rec.get('outcome'), rec.get('exc'), rec.get('exc_args')))


def judge_record(s, r, args, kwargs, pickable, mode):
    """does the result record r carry what the task function does for the payload spec s? -> [(sig, text)]"""
    out = []
    if s.get('exc') is None:
        want = normal(expected_value(s, args, kwargs))
        if pickable:
            want = ['picked', want]
        if r['exc'] is not None:
            out.append((f'{mode}-spurious-exception', f'{mode}: payload {s["uid"]} returned normally but its result carries {r["exc"]}{r["exc_args"]}'))
        elif r['outcome'] != want:
            out.append((f'{mode}-wrong-outcome', f'{mode}: payload {s["uid"]}: outcome {r["outcome"]!r} != the function\'s {want!r}'))
    else:
        name, a = expected_exc(s)
        if r['exc'] is None:
            out.append((f'{mode}-lost-exception', f'{mode}: payload {s["uid"]} raised {name} but its result carries no exception (outcome {r["outcome"]!r})'))
        elif r['exc'] != name or r['exc_args'] != normal(a) or not r['exc_is_exception']:
            out.append((f'{mode}-wrong-exception', f'{mode}: payload {s["uid"]} raised {name}{a} but the result carries {r["exc"]}{r["exc_args"]}'))
    return out


def _check_open(specs, args, kwargs, recs, end, pickable, mode, stop_after, facts):
    """one history of a run the statement does not determine completely: the consumer abandoned it after
    `stop_after` results (stop event / close), or a payload in it cannot be carried to a captured result
    (spec['poison']: it cannot cross the process boundary, or raises something its raises() does not declare).

    Judged, because the statement says it for every payload whatever happens to the others: never two results for
    one payload, never a result for something that was not submitted, every delivered result of a payload without
    poison carries what the function does for it (after the stop request an InterruptedError result is left open),
    no deadlock, and - when the run was not abandoned and the iteration ends normally - one result for every
    payload without poison.  Left open and only counted: how such a run ends (exception to the caller or not),
    which of the other payloads still get a result when it ends early, what a result of a poison payload carries."""
    out = []
    kind = end.split(':')[0]
    has_poison = any(s.get('poison') for s in specs)
    results = [r for r in recs if 'escaped' not in r and 'foreign' not in r]
    pre = '' if mode == 'par' else 'seq-'
    if kind in ('deadlock', 'overrun'):
        out.append((pre + kind, f'{mode}: the iteration ended with {end} after {len(results)} results for {len(specs)} payloads'))
    elif kind == 'exception':
        stopped = stop_after is not None and len(results) >= stop_after
        if has_poison or stopped:
            facts[f'{mode}_open_end_exception'] = end.split(':', 1)[1]
            facts[f'{mode}_results_before_open_end'] = len(results)
        else:
            out.append((pre + end, f'{mode}: the iteration ended with {end} after {len(results)} of {len(specs)} results '
                        + ' '.join(r['escaped'] for r in recs if 'escaped' in r)[:200]))
    for r in recs:
        if 'foreign' in r:
            out.append((f'{mode}-foreign', f'{mode}: yielded something that is not a Result: {r["foreign"]}'))
    byuid = {s['uid']: s for s in reversed(specs)}
    listed = _listed(specs)
    count = {}
    for i, r in enumerate(results):
        u = r['uid']
        count[u] = count.get(u, 0) + 1
        s = byuid.get(u)
        if s is None:
            continue
        if s.get('poison'):
            facts[f'{mode}_poison_results'] = facts.get(f'{mode}_poison_results', 0) + 1
            continue
        if stop_after is not None and i >= stop_after and r['exc'] == 'InterruptedError':
            facts[f'{mode}_interrupted_after_stop'] = facts.get(f'{mode}_interrupted_after_stop', 0) + 1
            continue
        out.extend(judge_record(s, r, args, kwargs, pickable, mode))
    complete = kind == 'exhausted' and stop_after is None
    for u, m in listed.items():
        c = count.pop(u, 0)
        if c > m:
            out.append((f'{mode}-duplicate', f'{mode}: payload {u}{_times(m)} got {c} results'))
        elif c < m and complete and not byuid[u].get('poison'):
            out.append((f'{mode}-missing', f'{mode}: payload {u}{_times(m)} got {c or "no"} result{"s" if c > 1 else ""} although '
                                           f'the iteration ended normally ({len(results)} yielded for {len(specs)} payloads)'))
    for u in count:
        out.append((f'{mode}-unknown-payload', f'{mode}: a result for a payload id {u!r} that was not submitted'))
    facts[f'{mode}_results'] = len(results)
    return out


def _who_raises(specs, excname):
    """readable hint for an exception that ended the iteration: is it what some payload's function raises and the
    loop was asked to capture?"""
    us = [s['uid'] for s in specs if s.get('exc') and not s.get('poison') and expected_exc(s)[0] == excname]
    if not us:
        return ''
    return (f' [{excname} is what the function raises for payload {us[0]}; its raises() is '
            f'{tuple(c.__name__ for c in _declared(byuid_first(specs, us[0])))}: the loop was asked to capture it in the Result]')


def byuid_first(specs, uid):
    return next(s for s in specs if s['uid'] == uid)


def _listed(specs):
    """uid -> number of list positions holding that payload (1 unless the list names a payload several times)"""
    listed = {}
    for s in specs:
        listed[s['uid']] = listed.get(s['uid'], 0) + 1
    return listed


def _times(m):
    return '' if m == 1 else f' (listed {m} times: {m} results due)'


def _uniq(out):
    seen = set()
    uniq = []
    for sig, text in out:
        if sig not in seen:
            seen.add(sig)
            uniq.append((sig, text))
    return uniq


def check_disturbed(specs, args, kwargs, par, par_end, seq, seq_end, pickable=False, stop_after=None):
    """-> ([(sig_suffix, text)], facts) for a disturbed run (see _check_open); the sequential history is the
    complete, never abandoned run over the same specs"""
    facts = {}
    out = _check_open(specs, args, kwargs, par, par_end, pickable, 'par', stop_after, facts)
    out += _check_open(specs, args, kwargs, seq, seq_end, pickable, 'seq', None, facts)
    if par_end == 'exhausted' and seq_end == 'exhausted' and stop_after is None:
        clean = {s['uid'] for s in specs if not s.get('poison')}
        a = sorted(key_of(r) for r in par if r.get('uid') in clean)
        b = sorted(key_of(r) for r in seq if r.get('uid') in clean)
        if a != b:
            from collections import Counter
            ca, cb = Counter(a), Counter(b)
            only_p = sorted((ca - cb).elements())[:3]
            only_s = sorted((cb - ca).elements())[:3]
            out.append(('multiset', f'parallel and sequential results differ as multisets: only parallel {only_p}, only sequential {only_s}'))
    return _uniq(out), facts


def check_stopped_sequential(specs, args, kwargs, recs, end, pickable, stop_after):
    """a sequential run the consumer stopped after `stop_after` results -> ([(sig, text)], facts)"""
    facts = {}
    return _uniq(_check_open(specs, args, kwargs, recs, end, pickable, 'seq', stop_after, facts)), facts


def check_history(specs, args, kwargs, par, par_end, seq, seq_end, pickable=False):
    """-> list of (sig_suffix, text).  specs: payload specs in submission order.
    par/seq: records yielded by the parallel / sequential mode."""
    out = []
    if par_end != 'exhausted':
        kind = par_end.split(':')[0]
        tb = ' '.join(r.get('traceback', '') for r in par if 'escaped' in r)
        if kind == 'exception' and '_callmethod' in tb and 'taskproc' in tb and 'managers.py' in tb:
            # raised in the worker by the stop-event proxy call of taskproc, whatever the exception type
            out.append(('abort:stop-proxy-call-failed',
                        f'the parallel iteration ended with {par_end} raised by task.stop.is_set() in the worker '
                        f'(manager connection) after {sum(1 for r in par if r.get("uid") is not None)} of {len(specs)} results: '
                        + ' '.join(r['escaped'] for r in par if 'escaped' in r)[:200]))
        else:
            out.append((f'{kind}' + (':' + par_end.split(':', 1)[1] if kind == 'exception' else ''),
                        f'the parallel iteration ended with {par_end} after {sum(1 for r in par if r.get("uid") is not None)} '
                        f'of {len(specs)} results ' + ' '.join(r['escaped'] for r in par if 'escaped' in r)[:200]
                        + (_who_raises(specs, par_end.split(':', 1)[1]) if kind == 'exception' else '')))
    for mode, recs in (('par', par), ('seq', seq)):
        if mode == 'seq' and seq_end != 'exhausted':
            out.append(('seq-' + seq_end.split(':')[0], f'the sequential mode ended with {seq_end}'
                        + (_who_raises(specs, seq_end.split(':', 1)[1]) if seq_end.startswith('exception:') else '')))
        count = {}
        for r in recs:
            if 'escaped' in r:
                continue
            if 'foreign' in r:
                out.append((f'{mode}-foreign', f'{mode}: yielded something that is not a Result: {r["foreign"]}'))
                continue
            count[r['uid']] = count.get(r['uid'], 0) + 1
        stopped_early = (par_end if mode == 'par' else seq_end) != 'exhausted'
        for u, m in _listed(specs).items():
            c = count.pop(u, 0)
            if c < m and not stopped_early:
                out.append((f'{mode}-missing', f'{mode}: payload {u}{_times(m)} got {c or "no"} result{"s" if c > 1 else ""} '
                                               f'({len(recs)} yielded for {len(specs)} payloads)'))
            elif c > m:
                out.append((f'{mode}-duplicate', f'{mode}: payload {u}{_times(m)} got {c} results'))
        for u in count:
            out.append((f'{mode}-unknown-payload', f'{mode}: a result for a payload id {u!r} that was not submitted'))
        byuid = {s['uid']: s for s in reversed(specs)}
        for r in recs:
            s = byuid.get(r.get('uid'))
            if s is None or 'escaped' in r or 'foreign' in r:
                continue
            out.extend(judge_record(s, r, args, kwargs, pickable, mode))
    if par_end == 'exhausted' and seq_end == 'exhausted':
        a = sorted(key_of(r) for r in par)
        b = sorted(key_of(r) for r in seq)
        if a != b:
            from collections import Counter
            ca, cb = Counter(a), Counter(b)
            only_p = sorted((ca - cb).elements())[:3]
            only_s = sorted((cb - ca).elements())[:3]
            out.append(('multiset', f'parallel and sequential results differ as multisets: only parallel {only_p}, only sequential {only_s}'))
    # one line per mechanism
    seen = set()
    uniq = []
    for sig, text in out:
        if sig not in seen:
            seen.add(sig)
            uniq.append((sig, text))
    return uniq


# ----------------------------------------------------------------------------------------------
# deterministic executor + scheduler
# ----------------------------------------------------------------------------------------------

class Deadlock(BaseException):
    """the loop blocks although nothing can complete any more (BaseException: not for the loop to catch)"""


class HookMissing(Exception):
    pass


class Nondeterminism(Exception):
    pass


CURRENT = None          # the scheduler of the run in progress (single-threaded)
REAL_PPE = cf_process.ProcessPoolExecutor
REAL_TPE = concurrent.futures.ThreadPoolExecutor
_REAL_EVENT = threading.Event


class DetEvent(_REAL_EVENT):
    """threading.Event as seen by concurrent.futures._base: wait() asks the scheduler instead of blocking"""

    def wait(self, timeout=None):
        s = CURRENT
        if s is None:
            return super().wait(timeout)
        s.on_wait(self)
        return self.is_set()


class _ThreadingShim:
    def __init__(self, real):
        self._real = real
        self.Event = DetEvent

    def __getattr__(self, name):
        return getattr(self._real, name)


class DetFuture(cf_base.Future):
    def __init__(self, seq, fn, args, kwargs):
        super().__init__()
        self.vt_seq = seq
        self.vt_hash = seq
        self.vt_call = (fn, args, kwargs)

    def __hash__(self):           # deterministic set order inside as_completed (replayable runs)
        return self.vt_hash

    def result(self, timeout=None):
        s = CURRENT
        if s is not None and not cf_base.Future.done(self):
            s.on_block_future(self)
        return super().result(timeout)

    def exception(self, timeout=None):
        s = CURRENT
        if s is not None and not cf_base.Future.done(self):
            s.on_block_future(self)
        return super().exception(timeout)

    def done(self):               # a polling loop observes completions here
        s = CURRENT
        if s is not None and not s.in_scheduler:
            s.on_poll()
        return super().done()


class _DetExecutorMixin:
    """submit() returns an unstarted future; the scheduler runs it"""

    def __init__(self, max_workers=None, *a, **kw):   # no processes, no threads, no queues
        s = CURRENT
        if s is None:
            raise HookMissing('deterministic executor created outside a scheduled run')
        self.vt_sched = s
        self.vt_max_workers = max_workers
        self.vt_shutdown = False
        s.executors.append(self)
        s.log(('executor', max_workers) if isinstance(self, REAL_PPE) else ('executor', max_workers, 'threads'))

    def submit(self, fn, /, *args, **kwargs):
        s = self.vt_sched
        if self.vt_shutdown:
            raise RuntimeError('cannot schedule new futures after shutdown')
        f = DetFuture(s.next_seq(), fn, args, kwargs)
        f.vt_transport = isinstance(self, REAL_PPE)     # only a process pool pickles what it is given
        if s.hash_rev:
            f.vt_hash = 4096 - f.vt_seq
        s.on_submit(f)
        return f

    def shutdown(self, wait=True, *, cancel_futures=False):
        self.vt_shutdown = True
        self.vt_sched.on_shutdown(wait, cancel_futures)

    def map(self, fn, *iterables, timeout=None, chunksize=1):
        return cf_base.Executor.map(self, fn, *iterables, timeout=timeout)


class DetExecutor(_DetExecutorMixin, REAL_PPE):
    """stands in for ProcessPoolExecutor"""


class DetThreadExecutor(_DetExecutorMixin, REAL_TPE):
    """stands in for ThreadPoolExecutor (never instantiated by the unchanged loop on a GIL build; installed so that a
    loop that falls back to threads stays single-threaded and replayable)"""


class Scheduler:
    """decides which running future completes at every point where the loop can observe a completion.

    Model of the pool: futures start in submission order, at most `workers` run at once; a decision
    completes one *running* future (its task function runs synchronously, now) or stops.
    Decision points: after every submit(), at every yield to the consumer, at every wait() of the
    as_completed/wait machinery (there at least one completion is forced while the event is unset).
    """

    def __init__(self, workers, prefix=(), rng=None, p_stop=0.5, expect=None, hash_rev=False, transport=False):
        self.workers = workers
        self.transport = transport    # model the process boundary: a call / a result that cannot be pickled fails its future
        self.transport_failures = 0
        self.hash_rev = hash_rev      # order in which as_completed hands out futures that are already done
        self.prefix = list(prefix)
        self.expect = expect          # option counts recorded by the previous run for the prefix
        self.rng = rng
        self.p_stop = p_stop
        self.trace = []               # (n_options, chosen)
        self.events = []
        self.queue = []               # submitted, not done, FIFO
        self.executors = []
        self._seq = 0
        self.completions = 0
        self.forced_in_wait = 0
        self.blocked_in_result = 0
        self.waits = 0
        self.max_pending = 0
        self.completed_while_busy = 0
        self.ran_at_shutdown = 0
        self.in_scheduler = False
        self.polls = 0
        self.idle_polls = 0

    def log(self, ev):
        self.events.append(ev)

    def next_seq(self):
        self._seq += 1
        return self._seq

    def choose(self, k, optional):
        if k <= 1:
            return 0
        pos = len(self.trace)
        if pos < len(self.prefix):
            c = self.prefix[pos]
            if self.expect is not None and pos < len(self.expect) and self.expect[pos] != k:
                raise Nondeterminism(f'decision {pos}: {k} options, {self.expect[pos]} in the previous run')
            if c >= k:
                raise Nondeterminism(f'decision {pos}: choice {c} of {k}')
        elif self.rng is not None:
            if optional:
                c = 0 if self.rng.random() < self.p_stop else 1 + self.rng.randrange(k - 1)
            else:
                c = self.rng.randrange(k)
        else:
            c = 0
        self.trace.append((k, c))
        return c

    def running(self):
        return self.queue[:self.workers]

    def complete(self, f, why):
        self.queue.remove(f)
        self.completions += 1
        self.in_scheduler = True
        try:
            if not f.set_running_or_notify_cancel():
                self.log(('cancelled', f.vt_seq))
                return
            fn, args, kwargs = f.vt_call
            f.vt_call = None
            transport = self.transport and getattr(f, 'vt_transport', False)
            if transport:
                try:                        # the pool's queue feeder: a call that cannot be pickled fails its future
                    pickle.dumps((fn, args, kwargs))
                except Exception as e:
                    self.transport_failures += 1
                    self.log(('raised', f.vt_seq, type(e).__name__, why, 'call not picklable'))
                    f.set_exception(e)
                    return
            try:
                r = fn(*args, **kwargs)
                if transport:
                    try:                    # the worker: a result that cannot be pickled is sent back as its exception
                        pickle.dumps(r)
                    except Exception:
                        self.transport_failures += 1
                        raise
            except BaseException as e:      # what a worker would ship back
                self.log(('raised', f.vt_seq, type(e).__name__, why))
                f.set_exception(e)
            else:
                self.log(('done', f.vt_seq, why))
                f.set_result(r)
        finally:
            self.in_scheduler = False

    def optional_point(self, why):
        while True:
            run = self.running()
            if not run:
                return
            c = self.choose(len(run) + 1, True)
            if c == 0:
                return
            self.completed_while_busy += 1
            self.complete(run[c - 1], why)

    def on_submit(self, f):
        self.queue.append(f)
        self.max_pending = max(self.max_pending, len(self.queue))
        self.log(('submit', f.vt_seq))
        self.optional_point('submit')

    def on_yield(self):
        self.log(('yield',))
        self.optional_point('yield')

    def on_wait(self, event):
        self.waits += 1
        self.log(('wait', len(self.queue)))
        while not event.is_set():
            run = self.running()
            if not run:
                raise Deadlock('wait() with nothing left to complete')
            c = self.choose(len(run), False)
            self.forced_in_wait += 1
            self.complete(run[c], 'wait')
        self.optional_point('wait')

    def on_poll(self):
        self.polls += 1
        before = self.completions
        self.optional_point('poll')
        if self.completions == before:
            self.idle_polls += 1
            if self.idle_polls > 40:      # a busy-wait must see progress eventually
                run = self.running()
                if not run:
                    if self.idle_polls > 4000:
                        raise Deadlock('polling although nothing can complete any more')
                    return
                self.complete(run[self.choose(len(run), False)], 'poll')
                self.idle_polls = 0
        else:
            self.idle_polls = 0

    def on_block_future(self, f):
        self.blocked_in_result += 1
        self.log(('block', f.vt_seq))
        while not cf_base.Future.done(f):
            run = self.running()
            if not run:
                raise Deadlock('result() of a future that can never complete')
            c = self.choose(len(run), False)
            self.complete(run[c], 'result')

    def on_shutdown(self, wait, cancel_futures):
        self.log(('shutdown', wait, cancel_futures, len(self.queue)))
        if cancel_futures:
            for f in list(self.queue):
                self.queue.remove(f)
                f.cancel()
                f.set_running_or_notify_cancel()
        # a real pool finishes what was submitted
        while self.queue:
            self.ran_at_shutdown += 1
            self.complete(self.queue[0], 'shutdown')


class _LocalEvent(_REAL_EVENT):
    """in-process stand-in for the manager's Event proxy; like the proxy it can be pickled (the transport model only
    asks whether a call could be pickled, the objects themselves are handed over)"""

    def __reduce__(self):
        return (_LocalEvent, ())


class _FakeManager:
    """multiprocessing.Manager() stand-in for single-process runs: an in-process Event"""

    def Event(self):
        return _LocalEvent()


@contextlib.contextmanager
def patched(fake_manager=True):
    """install the deterministic executor where the loop looks the executor class up"""
    saved = []

    def setattr_(obj, name, value):
        saved.append((obj, name, obj.__dict__.get(name, _MISSING) if hasattr(obj, '__dict__') else getattr(obj, name, _MISSING)))
        setattr(obj, name, value)

    _ = concurrent.futures.ProcessPoolExecutor        # resolve the lazy attribute first
    setattr_(concurrent.futures, 'ProcessPoolExecutor', DetExecutor)
    _ = concurrent.futures.ThreadPoolExecutor
    setattr_(concurrent.futures, 'ThreadPoolExecutor', DetThreadExecutor)
    try:
        import tatsu.parproc.pmap as pmap_mod
        if 'ProcessPoolExecutor' in vars(pmap_mod):
            setattr_(pmap_mod, 'ProcessPoolExecutor', DetExecutor)
        if 'ThreadPoolExecutor' in vars(pmap_mod):
            setattr_(pmap_mod, 'ThreadPoolExecutor', DetThreadExecutor)
    except Exception:
        pass
    if not hasattr(cf_base, 'threading'):
        raise HookMissing('concurrent.futures._base.threading not found')
    setattr_(cf_base, 'threading', _ThreadingShim(cf_base.threading))
    if fake_manager:
        setattr_(multiprocessing, 'Manager', _FakeManager)
    try:
        yield
    finally:
        for obj, name, old in reversed(saved):
            if old is _MISSING:
                with contextlib.suppress(Exception):
                    delattr(obj, name)
            else:
                setattr(obj, name, old)


_MISSING = object()


def call_entry(entry, specs, args, kwargs, parallel, max_workers, pickable):
    """the public entry points of the real loop"""
    payloads = make_payloads(specs)
    kw = dict(kwargs)
    if pickable:
        kw['pickable'] = pick
    if entry == 'legacy':
        from tatsu.parproc import parallel_proc
        if max_workers is not None:
            kw['max_workers'] = max_workers
        return parallel_proc(payloads, work, *args, parallel=parallel, **kw)
    from tatsu.parproc import parproc
    return parproc(work, payloads, *args, parallel=parallel, max_workers=max_workers, **kw)


def run_scheduled(cfg, prefix=(), rng=None, expect=None, abandon=None):
    """one single-threaded run of the real parallel loop under a chosen schedule.

    cfg: {'specs', 'workers', 'args', 'kwargs', 'entry', 'pickable'[, 'transport']}; abandon: see consume()
    -> dict (history + scheduler facts)
    """
    global CURRENT
    sched = Scheduler(cfg['workers'], prefix=prefix, rng=rng, p_stop=cfg.get('p_stop', 0.5), expect=expect,
                      hash_rev=cfg.get('hash_rev', False), transport=cfg.get('transport', False))
    specs = cfg['specs']
    facts = {}
    with patched():
        CURRENT = sched
        try:
            gen = call_entry(cfg.get('entry', 'parproc'), specs, cfg.get('args', ()), cfg.get('kwargs', {}),
                             True, cfg['workers'], cfg.get('pickable', False))
            records, end = consume(gen, len(specs), on_yield=sched.on_yield, abandon=abandon, facts=facts)
        finally:
            CURRENT = None
    return {
        'records': records, 'end': end, 'trace': sched.trace, 'events': sched.events,
        'executors': len(sched.executors), 'completions': sched.completions, 'waits': sched.waits,
        'forced_in_wait': sched.forced_in_wait, 'blocked_in_result': sched.blocked_in_result,
        'max_pending': sched.max_pending, 'completed_while_busy': sched.completed_while_busy,
        'ran_at_shutdown': sched.ran_at_shutdown, 'left_in_queue': len(sched.queue), 'polls': sched.polls,
        'transport_failures': sched.transport_failures, 'abandon': facts,
        'thread_executors': sum(1 for e in sched.executors if not isinstance(e, REAL_PPE)),
    }


def run_sequential(cfg, fake_manager=True, abandon=None, facts=None):
    specs = cfg['specs']
    ctx = _only_manager() if fake_manager else contextlib.nullcontext()
    with ctx:
        gen = call_entry(cfg.get('entry', 'parproc'), specs, cfg.get('args', ()), cfg.get('kwargs', {}),
                         False, cfg.get('workers'), cfg.get('pickable', False))
        return consume(gen, len(specs), abandon=abandon, facts=facts)


@contextlib.contextmanager
def _only_manager():
    old = multiprocessing.Manager
    multiprocessing.Manager = _FakeManager
    try:
        yield
    finally:
        multiprocessing.Manager = old


def next_prefix(trace):
    """depth-first successor of a fully recorded decision trace; None when the tree is exhausted"""
    i = len(trace) - 1
    while i >= 0 and trace[i][1] + 1 >= trace[i][0]:
        i -= 1
    if i < 0:
        return None, None
    return [c for _, c in trace[:i]] + [trace[i][1] + 1], [k for k, _ in trace[:i + 1]]


def completion_order(events):
    return tuple(e[1] for e in events if e[0] in ('done', 'raised'))
