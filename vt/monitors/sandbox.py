"""Interpreter-level monitors for C17 (constant expressions are evaluated in a sandbox).

Three probes, all installed by the harness, none inside TatSu:

1. ``sys.addaudithook`` - every audit event raised while an observation window is open.
   An ``exec`` event raised *from a frame of the tatsu package* for a code object compiled
   from a string (``co_filename`` starts with ``<``) identifies an **expression root**: the
   code object the real evaluator is about to run for a constant.  Every later event is
   attributed to the expression iff a frame of an expression code object (root, its nested
   lambdas/generators, or code the expression itself exec'd) is on the Python stack.
   Effects attributed to the expression are recorded and then *blocked* (the hook raises),
   so a successful escape never gets to touch a file, a module, stdin or a process.
2. ``sys.monitoring`` (PEP 669) local events on exactly those code objects:
   ``CALL`` - the callable object of every call the expression makes;
   ``INSTRUCTION`` - every name load/store and attribute access it *executes*, with the
   object a loaded name resolves to (looked up in the running frame).
3. ``Probe`` - a value whose ``__getattribute__`` reports dunder lookups made from C code
   (``str.format`` field traversal) while an expression frame is running, and a recording
   ``sys.stdout``/``sys.stderr``.

The verdict (``judge``) is stated over these observations only.
"""
from __future__ import annotations

import builtins
import dis
import os
import sys
import types

TOOL_NAME = 'vt-c17'


class Blocked(BaseException):
    """raised by the audit hook to abort a forbidden effect after it has been recorded"""


class Hang(BaseException):
    """raised by the harness watchdog (SIGALRM) when one evaluation runs for too long"""


# --------------------------------------------------------------------------- classification
# Forbidden builtins, by the clauses of the property statement.
FORBIDDEN_WHY = {
    'open': 'opens files',
    '__import__': 'imports modules',
    'eval': 'runs code', 'exec': 'runs code', 'compile': 'compiles code',
    'breakpoint': 'runs code', '__build_class__': 'runs code',
    'input': 'reads input', 'help': 'reads input / imports / prints', 'license': 'reads input / opens files',
    'exit': 'exits the process', 'quit': 'exits the process',
    'getattr': 'reaches dunder attributes by name', 'setattr': 'reaches dunder attributes by name',
    'delattr': 'reaches dunder attributes by name / mutates', 'hasattr': 'reaches dunder attributes by name',
    'vars': 'reaches __dict__', 'dir': 'reaches __dict__/__class__', 'globals': 'reaches the evaluator globals',
    'locals': 'reaches the evaluator locals', 'type': 'reaches the type system', 'object': 'reaches the type system',
    'super': 'reaches the type system',
    'print': 'not pure: writes to stdout / any file object', 'copyright': 'not pure: prints',
    'credits': 'not pure: prints',
    '__loader__': 'dunder name', '__spec__': 'dunder name', '__name__': 'dunder name', '__doc__': 'dunder name',
    '__package__': 'dunder name', '__debug__': 'dunder name',
}
FORBIDDEN_BY_ID = {}
for _n in FORBIDDEN_WHY:
    if _n in vars(builtins) and _n not in ('__name__', '__doc__', '__package__', '__debug__', '__spec__'):
        FORBIDDEN_BY_ID[id(vars(builtins)[_n])] = _n

# builtin *functions* that are pure by any reading of the statement (used for value transparency)
PURE = ('abs', 'all', 'any', 'ascii', 'bin', 'callable', 'chr', 'divmod', 'format', 'hex', 'len', 'max', 'min',
        'oct', 'ord', 'pow', 'repr', 'round', 'sorted', 'sum')

# audit events that are an effect the statement forbids when the expression causes them
EFFECT_PREFIXES = ('os.', 'subprocess.', 'socket.', 'ctypes.', 'shutil.', 'tempfile.', 'glob.', 'pty.',
                   'fcntl.', 'mmap.', 'msvcrt.', 'winreg.', 'urllib.', 'http.', 'ftplib.', 'smtplib.',
                   'signal.', 'resource.', 'syslog.', 'webbrowser.', 'pickle.', 'marshal.', 'sqlite3.',
                   'cpython.', 'gc.', 'code.', 'pdb.', 'sys.')
EFFECT_EVENTS = {'open', 'import', 'exec', 'compile', 'builtins.input', 'builtins.input/result',
                 'builtins.breakpoint', 'object.__getattr__', 'object.__setattr__', 'object.__delattr__',
                 'function.__new__', 'code.__new__', 'setopencodehook', 'array.__new__'}
NOISE_EVENTS = {'builtins.id'}
ATTR_EVENTS = {'object.__getattr__', 'object.__setattr__', 'object.__delattr__'}

_NAME_OPS = {'LOAD_NAME', 'LOAD_GLOBAL', 'LOAD_FROM_DICT_OR_GLOBALS'}
_STORE_OPS = {'STORE_NAME', 'STORE_GLOBAL', 'DELETE_NAME', 'DELETE_GLOBAL'}
_ATTR_OPS = {'LOAD_ATTR', 'STORE_ATTR', 'DELETE_ATTR', 'LOAD_SUPER_ATTR', 'LOAD_METHOD'}
_OTHER_OPS = {'IMPORT_NAME', 'IMPORT_FROM', 'LOAD_BUILD_CLASS'}

MISSING = object()


def is_dunder(name) -> bool:
    """__x__ : the statement says 'dunder attributes'; __x and x__ are not judged"""
    return isinstance(name, str) and len(name) > 4 and name[:2] == '__' and name[-2:] == '__'


def is_effect(event: str) -> bool:
    return event in EFFECT_EVENTS or event.startswith(EFFECT_PREFIXES)


class Obs:
    """what the monitors saw during one window"""
    __slots__ = ('roots', 'effects', 'ambient', 'calls', 'names', 'stores', 'attrs', 'other_ops',
                 'probe', 'writes', 'instr', 'blocked', 'last_call', 'formats', 'last_instr')

    def __init__(self):
        self.roots = []       # expression code objects the evaluator executed
        self.effects = []     # (event, summary) attributed to the expression
        self.ambient = {}     # event -> n, no expression frame on the stack
        self.calls = []       # callable objects called by expression code
        self.names = []       # (name, resolved object | MISSING) for executed name loads
        self.stores = []      # names bound/deleted by the expression (walrus)
        self.attrs = []       # (opname, attr) executed attribute instructions
        self.other_ops = []   # IMPORT_NAME / LOAD_BUILD_CLASS executed
        self.probe = []       # (attr, qualname of the call in progress) dunder lookups on Probe values
        self.writes = 0       # characters written to stdout/stderr by the expression
        self.instr = 0        # instructions of expression code executed
        self.blocked = 0
        self.last_call = None
        self.last_instr = None   # the mapped instruction being executed, if any
        self.formats = []     # (method name, format string) of str.format / str.format_map calls


class _State:
    obs = None
    busy = False
    codes = {}      # id(code) -> code     (kept alive while the window is open)
    imap = {}       # id(code) -> {offset: (opname, argval)}
    tool = None
    tatsu_dir = None
    installed = False
    block = True
    unblocked = ()  # prefixes of effect events that are recorded but not blocked (introspection inside a called method
    #                 of the real code must not hide the effects that follow it); empty: every effect is blocked


ST = _State()


def _in_expr(frame):
    codes = ST.codes
    n = 0
    while frame is not None and n < 200:
        if id(frame.f_code) in codes:
            return True
        frame = frame.f_back
        n += 1
    return False


def _register(code):
    """monitor this code object and everything nested in it"""
    stack = [code]
    mon = sys.monitoring
    while stack:
        c = stack.pop()
        if id(c) in ST.codes:
            continue
        ST.codes[id(c)] = c
        m = {}
        for ins in dis.get_instructions(c):
            op = ins.opname
            if op in _NAME_OPS or op in _STORE_OPS or op in _ATTR_OPS or op in _OTHER_OPS:
                m[ins.offset] = (op, ins.argval)
        ST.imap[id(c)] = m
        if ST.tool is not None:
            mon.set_local_events(ST.tool, c, mon.events.CALL | mon.events.INSTRUCTION)
        for k in c.co_consts:
            if isinstance(k, types.CodeType):
                stack.append(k)


def _summary(args):
    out = []
    for a in args[:3]:
        if isinstance(a, types.CodeType):
            out.append(f'<code {a.co_name} {a.co_filename}>')
        else:
            try:
                out.append(repr(a)[:80])
            except BaseException:  # noqa: BLE001
                out.append('<unrepresentable>')
    return ', '.join(out)


def _hook(event, args):
    obs = ST.obs
    if obs is None or ST.busy:
        return
    if event in NOISE_EVENTS:
        obs.ambient[event] = obs.ambient.get(event, 0) + 1
        return
    ST.busy = True
    try:
        frame = sys._getframe(1)
        inexpr = _in_expr(frame)
        if event == 'exec' and args and isinstance(args[0], types.CodeType):
            code = args[0]
            if inexpr:
                _register(code)      # keep watching what the nested code does
            elif code.co_filename.startswith('<') and frame.f_code.co_filename.startswith(ST.tatsu_dir):
                if frame.f_code.co_name == 'regexpp':
                    # tatsu.util.regextools.regexpp evaluates the raw-string literal it has just built for a
                    # pattern (error messages, traces): not a constant expression
                    obs.ambient['exec:regexpp'] = obs.ambient.get('exec:regexpp', 0) + 1
                    return
                obs.roots.append(code)
                _register(code)
                return
        if event == 'compile' and not inexpr:
            obs.ambient[event] = obs.ambient.get(event, 0) + 1
            return
        if inexpr and event in ATTR_EVENTS and not (len(args) > 1 and is_dunder(args[1])):
            # introspection attributes that are not dunders (gi_frame, f_code...): counted, not judged
            k = f'expr:{event}:{args[1] if len(args) > 1 else "?"}'
            obs.ambient[k] = obs.ambient.get(k, 0) + 1
        elif inexpr and event == 'import' and args and str(args[0]).startswith('encodings.') \
                and frame.f_code.co_filename.replace(os.sep, '/').endswith('encodings/__init__.py'):
            # the interpreter's codec lookup for str.encode / bytes.decode / str(b, enc): it can only name a
            # submodule of the stdlib package `encodings` (normalised codec name): counted, not judged
            obs.ambient['expr:import:codec-lookup'] = obs.ambient.get('expr:import:codec-lookup', 0) + 1
        elif inexpr and is_effect(event):
            obs.effects.append((event, _summary(args)))
            if ST.block and not event.startswith(ST.unblocked):
                obs.blocked += 1
                raise Blocked(event)
        elif inexpr:
            obs.ambient['expr:' + event] = obs.ambient.get('expr:' + event, 0) + 1
        else:
            obs.ambient[event] = obs.ambient.get(event, 0) + 1
    finally:
        ST.busy = False


def _on_call(code, offset, callable_, arg0):
    obs = ST.obs
    if obs is None or ST.busy:
        return
    obs.calls.append(callable_)
    obs.last_call = callable_
    if type(callable_) is types.MethodDescriptorType and callable_.__name__ in ('format', 'format_map') \
            and type(arg0) is str:
        obs.formats.append((callable_.__name__, arg0))     # unbound form: the format string is arg0


def _on_instr(code, offset):
    obs = ST.obs
    if obs is None or ST.busy:
        return
    obs.instr += 1
    m = ST.imap.get(id(code))
    ins = m.get(offset) if m else None
    obs.last_instr = ins
    if ins is None:
        return
    op, arg = ins
    if op in _NAME_OPS:
        ST.busy = True
        try:
            f = sys._getframe(1)
            val = MISSING
            if op == 'LOAD_NAME' or op == 'LOAD_FROM_DICT_OR_GLOBALS':
                loc = f.f_locals
                if arg in loc:
                    val = loc[arg]
            if val is MISSING:
                if arg in f.f_globals:
                    val = f.f_globals[arg]
                elif arg in f.f_builtins:
                    val = f.f_builtins[arg]
            obs.names.append((arg, val))
        finally:
            ST.busy = False
    elif op in _STORE_OPS:
        obs.stores.append(arg)
    elif op in _ATTR_OPS:
        obs.attrs.append((op, arg))
    else:
        obs.other_ops.append((op, arg))


class _Recorder:
    """stand-in for sys.stdout / sys.stderr while a window is open"""

    def __init__(self, real):
        self.real = real

    def write(self, s):
        obs = ST.obs
        if obs is not None and not ST.busy:
            ST.busy = True
            try:
                if _in_expr(sys._getframe(1)):
                    obs.writes += len(s)
                    return len(s)
            finally:
                ST.busy = False
        return self.real.write(s)

    def flush(self):
        pass

    def isatty(self):
        return False

    def fileno(self):
        return self.real.fileno()

    encoding = 'utf-8'
    errors = 'strict'


class Probe:
    """an AST value that reports dunder attribute lookups reaching it from expression code"""
    value = 7
    _private = 'pv'

    def method(self):
        return 'm'

    def __repr__(self):
        return '<probe>'

    def __getattribute__(self, name):
        if is_dunder(name):
            obs = ST.obs
            if obs is not None and not ST.busy:
                ST.busy = True
                try:
                    li = obs.last_instr
                    if li is not None and li[0] in _ATTR_OPS and li[1] == name:
                        pass        # the expression's own attribute instruction: recorded by _on_instr
                    elif _in_expr(sys._getframe(1)):
                        lc = obs.last_call
                        q = getattr(lc, '__qualname__', None) or type(lc).__name__
                        obs.probe.append((name, q))
                finally:
                    ST.busy = False
        return object.__getattribute__(self, name)


def install():
    """once per process"""
    if ST.installed:
        return
    import tatsu
    ST.tatsu_dir = os.path.dirname(os.path.realpath(tatsu.__file__)) + os.sep
    mon = sys.monitoring
    for tid in (4, 3, 5, 2, 1, 0):
        if mon.get_tool(tid) is None:
            mon.use_tool_id(tid, TOOL_NAME)
            ST.tool = tid
            break
    if ST.tool is None:
        raise RuntimeError('no free sys.monitoring tool id')
    mon.register_callback(ST.tool, mon.events.CALL, _on_call)
    mon.register_callback(ST.tool, mon.events.INSTRUCTION, _on_instr)
    sys.addaudithook(_hook)
    ST.installed = True


class window:
    """with window() as obs:  <one call into the real evaluator>"""

    def __init__(self, block=True):
        self.block = block

    def __enter__(self):
        install()
        self.obs = Obs()
        ST.codes = {}
        ST.imap = {}
        ST.block = self.block
        self.out, self.err = sys.stdout, sys.stderr
        sys.stdout, sys.stderr = _Recorder(self.out), _Recorder(self.err)
        ST.busy = False
        ST.obs = self.obs
        return self.obs

    def __exit__(self, *exc):
        ST.obs = None
        sys.stdout, sys.stderr = self.out, self.err
        mon = sys.monitoring
        for c in ST.codes.values():
            try:
                mon.set_local_events(ST.tool, c, 0)
            except Exception:  # noqa: BLE001
                pass
        ST.codes = {}
        ST.imap = {}
        return False


# --------------------------------------------------------------------------- verdict
def callable_name(c):
    n = FORBIDDEN_BY_ID.get(id(c))
    if n:
        return n
    return getattr(c, '__qualname__', None) or getattr(c, '__name__', None) or type(c).__name__


def classify_callable(c, obs, user_values):
    """-> ('forbidden', name) | ('builtin', name) | ('method', qualname) | ('own', name) | ('user', name)
          | ('outside', description)"""
    n = FORBIDDEN_BY_ID.get(id(c))
    if n:
        return ('forbidden', n)
    if not callable(c):
        return ('noncallable', type(c).__name__)      # the CALL fails with TypeError
    if isinstance(c, types.BuiltinFunctionType):
        s = getattr(c, '__self__', None)
        if s is builtins or (isinstance(s, types.ModuleType) and s.__name__ == 'builtins'):
            return ('builtin', c.__name__)
        if s is None or isinstance(s, types.ModuleType):
            return ('outside', f'builtin function {getattr(s, "__name__", None)}.{c.__name__}')
        return ('method', c.__qualname__)
    if isinstance(c, type) and c.__module__ == 'builtins':
        return ('builtin', c.__name__)
    if isinstance(c, (types.MethodType, types.MethodWrapperType)):
        return ('method', getattr(c, '__qualname__', repr(c)))
    if isinstance(c, (types.MethodDescriptorType, types.WrapperDescriptorType, types.ClassMethodDescriptorType)):
        return ('method', c.__qualname__)
    if isinstance(c, types.FunctionType) and id(c.__code__) in obs_codes(obs):
        return ('own', c.__name__)
    for v in user_values:
        if c is v:
            return ('user', callable_name(c))
    if isinstance(c, types.FunctionType) and c.__code__.co_filename.startswith('<'):
        return ('own', c.__name__)
    return ('outside', f'{type(c).__name__} {callable_name(c)}')


def obs_codes(obs):
    out = set()
    stack = list(obs.roots)
    while stack:
        c = stack.pop()
        if id(c) in out:
            continue
        out.add(id(c))
        stack.extend(k for k in c.co_consts if isinstance(k, types.CodeType))
    return out


def format_attrs(fmt, depth=0):
    """attribute names a str.format/format_map call traverses (documented format-string syntax)"""
    import _string
    from string import Formatter
    out = []
    try:
        for _lit, field, spec, _conv in Formatter().parse(fmt):
            if field is None:
                continue
            _first, rest = _string.formatter_field_name_split(field)
            for is_attr, name in rest:
                if is_attr and isinstance(name, str):
                    out.append(name)
            if spec and depth < 3:
                out += format_attrs(spec, depth + 1)
    except (ValueError, TypeError):
        pass
    return out


def judge(obs: Obs, user_names: dict):
    """-> list of (sig, what).  ``user_names``: the names the grammar binds in the AST (and the
    semantics' safe_context), with their values; anything else an expression reads must be a
    non-forbidden member of ``builtins``."""
    out = []
    exposed = {}          # forbidden builtin name -> how it was used

    user_values = list(user_names.values())
    for name, val in obs.names:
        if val is MISSING:
            continue        # NameError follows; nothing was read
        n = FORBIDDEN_BY_ID.get(id(val))
        if n:
            exposed.setdefault(n, 'read')
            continue
        if name in user_names:
            continue        # bound in the AST (or by the semantics' safe_context)
        if is_dunder(name):
            out.append((f'dunder-name-read:{name}', f'expression read the dunder name {name} = {val!r:.80}'))
            continue
        if name in vars(builtins) and vars(builtins)[name] is val:
            continue
        if name in obs.stores:
            continue        # bound by the expression itself (walrus)
        out.append(('name-outside-set', f'expression read name {name!r} = {val!r:.80}, which is neither bound in '
                                        f'the AST nor a builtin'))
    for c in obs.calls:
        kind, n = classify_callable(c, obs, user_values)
        if kind == 'forbidden':
            exposed[n] = 'called'
        elif kind == 'outside':
            out.append(('call-outside-set', f'expression called {n}'))
    causes = {}           # mechanisms that reach dunder attributes -> description
    for op, attr in obs.attrs:
        if is_dunder(attr):
            causes.setdefault(f'dunder-attr:{op}', f'expression executed {op} {attr}')
    for op, arg in obs.other_ops:
        out.append((f'opcode:{op}', f'expression executed {op} {arg}'))
    for attr, q in obs.probe:
        if attr == '__class__' and q in ('isinstance', 'issubclass'):
            continue
        causes.setdefault(f'dunder-reach:{q}', f'dunder attribute {attr} of an AST value was looked up from inside a '
                                               f'call of {q} made by the expression')
    fmts = list(obs.formats)
    for c in obs.calls:
        if isinstance(c, types.BuiltinFunctionType) and c.__name__ in ('format', 'format_map') \
                and type(getattr(c, '__self__', None)) is str:
            fmts.append((c.__name__, c.__self__))
    for meth, fmt in fmts:
        d = [a for a in format_attrs(fmt) if is_dunder(a)]
        if d:
            causes.setdefault(f'dunder-reach:str.{meth}',
                              f'the expression called str.{meth} on the format string {fmt!r:.80}, '
                              f'whose fields traverse the dunder attribute(s) {d[:4]}')
    effects = [f'{e}({s})' for e, s in obs.effects]
    if obs.writes:
        effects.append(f'stdout/stderr-write({obs.writes} chars)')
    if exposed:
        for n, how in sorted(exposed.items()):
            eff = ('; effects observed and blocked: ' + '; '.join(effects[:4])) if effects else ''
            out.append((f'exposed-builtin:{n}',
                        f'expression {how} the builtin {n} ({FORBIDDEN_WHY[n]}){eff}'))
    eff = ('; effects observed and blocked: ' + '; '.join(effects[:4])) if effects and not exposed else ''
    for sig, what in sorted(causes.items()):
        out.append((sig, what + eff))
    if not exposed and not causes:
        for e, s in obs.effects:
            out.append((f'effect:{e}', f'expression caused audit event {e}({s}) without calling a forbidden builtin'))
        if obs.writes:
            out.append(('effect:stdout-write', f'expression wrote {obs.writes} chars to stdout/stderr'))
    return out
