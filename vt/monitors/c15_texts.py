"""C15 workload: TatSu *grammar texts* in every surface form that `tatsu/_tatsu.ebnf` admits.

This is a writer of texts, not a parser: nothing here decides whether a text is valid -- the
four routes under comparison do.  The generator aims at (mostly) valid texts which together
exercise every production and every alternative of the TatSu grammar, including the deprecated
and EBNF-flavoured forms; `mutate()` derives invalid / borderline texts at token and character
level; `corpus()` collects the grammar files and documentation examples shipped with the
repository.

All randomness comes from the `random.Random` handed in.
"""
from __future__ import annotations

import glob
import os
import re

RULE_NAMES = ['start', 'expr', 'term', 'factor', 'atom', 'NUMBER', 'WS', '_priv', 'x1', 'Name_2',
              'a\u00f1o', 'stmt', 'block', 'ident', 'args', 'lit', 'T', 'b', 'rule_', 'KW']
LABELS = ['a', 'left', 'op', 'right', 'val', 'items', 'name', 'n_1', 'x', 'head', 'tail', 'e']
CLASSES = ['Add', 'Node', 'Expr', 'Bin_Op', 'ast::Add', 'a::b::C', 'Number']
WORDS = ['if', 'then', 'else', 'while', 'end', 'let', 'in', 'fn', 'return', 'x', '+', '-', '*', '(', ')',
         ',', ';', ':', '=', '==', '->', '{', '}', '[', ']', 'a b', '\u2192', '\u00e9', '@', '$', '.', '..', '|']
REGEXES = [r'\d+', r'[a-z]+', r'\w+', r'(?i)abc', r'a\/b', r'[^/]*', r'\s*', r'.*?', r'[\]]', r'\\',
           r'[A-Z][A-Za-z0-9_]*', r'(?x) a b', r'"', r"'", r'\n', r'a|b', r'(a)(b)', r'[0-9]+(\.[0-9]+)?',
           r'(?:x|y)+', r'\$', r'', r'[^\n]*', r'#.*?$', r'\s+', r'\/\/', r'\.', r'x{2,3}']
BAD_REGEXES = [r'(', r'[a', r'*a', r'(?P<n', r'a{2,1}']
COMMENT_WORDS = ['note', 'a comment', 'x = y ;', "don't", 'TODO: "fix"', '', '* star *', 'rule: x']

DIRECTIVE_BOOL = ['nameguard', 'ignorecase', 'left_recursion', 'parseinfo', 'memoization']

# every operator / keyword-like token of the TatSu grammar (used by token level mutation)
OPERATORS = ['@@', '::', '=', ':', '::=', ':=', ';', '.', '|', ',', '(', ')', '[', ']', '{', '}', '{}', '()', '!()',
             '(?:', '.{', '%{', '<{', '>{', '+', '-', '*', '?', '&', '!', '->', '$->', '$', '~', '>>', '>', '<',
             '+=', '+:', '@:', '@+:', '@', '/./', '`', '```', '^', '^^', '@name', '@int', '@uint', '@float', '@bool',
             '@@keyword', '@override', '@nomemo', '@isname', '@nostak', 'True', 'False', 'None', 'true', 'false', 'null',
             '?/', '/?', '?', "?'", '?"', 'r', "'", '"', "'''", '"""', '/', '\n', '\n\n', '#', '//', '(*', '*)', '/*', '*/',
             '0x1F', '+5', '.5', '-3', '1e3', '::=', '%', '<<', '=>']


def _wordish(c):
    return bool(c) and (c.isalnum() or c == '_')


def pick(rng, xs):
    return xs[rng.randrange(len(xs))]


def wpick(rng, pairs):
    """pairs: [(weight, value), ...]"""
    tot = sum(w for w, _ in pairs)
    r = rng.random() * tot
    for w, v in pairs:
        r -= w
        if r < 0:
            return v
    return pairs[-1][1]


class TextGen:
    """one grammar text; `forms` records which surface forms were emitted (evidence)"""

    def __init__(self, rng, size=3, exotic=0.25):
        self.rng = rng
        self.size = size
        self.exotic = exotic
        self.forms: set[str] = set()
        self.defined: list[str] = []
        self.names: list[str] = []      # the rules this grammar will define (calls go there)

    def f(self, name):
        self.forms.add(name)

    # ------------------------------------------------------------------ lexical
    def string(self, words=WORDS, allow_multi=True, allow_raw=True):
        rng = self.rng
        w = pick(rng, words)
        kind = wpick(rng, [(5, 'sq'), (4, 'dq'), (1.2 if allow_raw else 0, 'raw'), (1 if allow_multi else 0, 'multi'),
                           (0.8, 'esc')])
        if kind == 'sq':
            self.f('str:single')
            return "'" + w.replace('\\', '\\\\').replace("'", '"') + "'"
        if kind == 'dq':
            self.f('str:double')
            return '"' + w.replace('\\', '\\\\').replace('"', "'") + '"'
        if kind == 'raw':
            self.f('str:raw')
            body = pick(rng, [r'\d', r'\n', 'ab', r'a\b', '+', r'\\'])
            return ('r' + "'" + body + "'") if rng.random() < 0.5 else ('r"' + body + '"')
        if kind == 'multi':
            self.f('str:multiline')
            q = pick(rng, ["'''", '"""'])
            body = pick(rng, ['abc', 'a\n    b', '  two words  ', 'x\\ny', "it's", 'say "hi"', '\n  indented\n    more\n  '])
            return q + body + q
        self.f('str:escapes')
        body = pick(rng, ['\\n', '\\t', '\\\\', 'a\\x41', '\\u00e9', 'tab\\there', '\\r\\n', 'q\\\\'])
        if rng.random() < self.exotic * 0.2:
            body = pick(rng, ["\\'", '\\"'])
        return ("'" + body + "'") if rng.random() < 0.5 else ('"' + body + '"')

    def regex(self, bad_ok=True):
        rng = self.rng
        rx = pick(rng, BAD_REGEXES) if (bad_ok and rng.random() < 0.03) else pick(rng, REGEXES)
        kind = wpick(rng, [(6, 'slash'), (2, 'qsq'), (2, 'qdq'), (1.5, 'dep')])
        if kind in ('slash', 'dep') and rng.random() > self.exotic * 0.1:
            rx = re.sub(r'(?<!\\)/', r'\\/', rx)
        if kind == 'slash':
            self.f('regex:/re/')
            return '/' + rx + '/'
        if kind == 'qsq':
            self.f("regex:?'re'")
            return "?'" + rx.replace("'", '"') + "'"
        if kind == 'qdq':
            self.f('regex:?"re"')
            return '?"' + rx.replace('"', "'") + '"'
        self.f('regex:?/re/?')
        return '?/' + rx + '/?'

    def literal(self):
        """a `literal` of the TatSu grammar (rule parameters, pairs, constants)"""
        rng = self.rng
        k = wpick(rng, [(4, 'word'), (2, 'string'), (1, 'raw'), (2, 'number'), (1.3, 'json'), (1, 'bool'), (0.9, 'none'),
                        (self.exotic * 0.4, 'hex'), (1, 'float'), (1, 'int'), (0.4, 'multi'), (self.exotic * 0.4, 'odd')])
        self.f('literal:' + k)
        if k == 'word':
            if rng.random() < self.exotic * 0.2:
                return pick(rng, ['nullable', 'Trueish', 'Nonesuch', 'falsey'])
            return pick(rng, ['Add', 'Node', 'x', 'Bin_Op', '_y', 'T1', 'a\u00f1o', 'Nil'])
        if k == 'string':
            return pick(rng, ["'abc'", '"abc"', "'a b'", '"+"', "'\\n'"])
        if k == 'raw':
            return pick(rng, ["r'\\d'", 'r"x"'])
        if k == 'number':
            return pick(rng, ['0', '1', '42', '-7', '3.25', '1e3', '-0.5', '2E-2', '10', '0.5e+3'])
        if k == 'json':
            return pick(rng, ['true', 'false', 'null'])
        if k == 'bool':
            return pick(rng, ['True', 'False'])
        if k == 'none':
            return 'None'
        if k == 'hex':
            return pick(rng, ['0x1F', '0Xff', '+0x10'])
        if k == 'float':
            return pick(rng, ['+1.5', '.5', '+.25e2', '-.5', '+5.', '.5E-1'])
        if k == 'int':
            return pick(rng, ['+5', '+007', '+0'])
        if k == 'odd':
            return pick(rng, ['007', '5.', '9lives', '+0x10', '1e', '--1', 'a-b'])
        return pick(rng, ["'''ab'''", '"""a\n b"""'])

    def constant(self):
        rng = self.rng
        k = wpick(rng, [(4, 'literal'), (3, 'text'), (1.5, 'triple'), (1, 'expr')])
        self.f('constant:' + k)
        if k == 'literal':
            return '`' + self.literal() + '`'
        if k == 'text':
            return '`' + pick(rng, ['some text', 'a + b', '', '{x}', 'it\'s', 'x y z', '1 2', '"q', 'a`'[:1]]) + '`'
        if k == 'triple':
            return '```' + pick(rng, ['multi\n  line', 'x', 'a ` b', '', '"""q"""']) + '```'
        return '`' + pick(rng, ['1 + 2', 'left', '[a, b]', 'f"{x}"', 'len(a)']) + '`'

    def name(self, known=False):
        rng = self.rng
        if known and self.defined and rng.random() < 0.98:
            return pick(rng, self.defined)
        if self.names and rng.random() < 0.985:
            return pick(rng, self.names)
        return pick(rng, RULE_NAMES)

    # -------------------------------------------------------------- expressions
    def atom(self, d, operand=False):
        """operand: the atom is followed by a postfix operator or `.{`; as an *element* `@name` & co. are
        taken by the `meta` alternative of `element` before `term` is tried, so `@int*` is (mostly) avoided there"""
        rng = self.rng
        k = wpick(rng, [(6, 'token'), (6, 'call'), (3, 'pattern'), (0.7, 'dot'), (2.5 if d > 0 else 0, 'group'),
                        (1.2 if d > 0 else 0, 'skip'), (0.6, 'eol'), (0.8, 'eof'), (1.0, 'alert'),
                        (1.6, 'constant'), (self.exotic * 0.3 if operand else 1.6, 'meta')])
        self.f('atom:' + k)
        if k == 'token':
            return [self.string()]
        if k == 'call':
            return [self.name()]
        if k == 'pattern':
            return [self.regex()]
        if k == 'dot':
            return ['/./']
        if k == 'group':
            return ['('] + self.expre(d - 1) + [')']
        if k == 'skip':
            return ['(?:'] + self.expre(d - 1) + [')']
        if k == 'eol':
            return ['$->']
        if k == 'eof':
            return ['$']
        if k == 'alert':
            return [pick(rng, ['^', '^^', '^^^']) + self.constant()]
        if k == 'constant':
            return [self.constant()]
        m = pick(rng, ['@name', '@int', '@uint', '@float', '@bool'])
        self.f('meta:' + m)
        return [m]

    def term(self, d):
        rng = self.rng
        if d <= 0:
            return self.atom(0)
        k = wpick(rng, [(1.3, 'gather'), (1.3, 'join'), (0.8, 'left_join'), (0.8, 'right_join'), (0.5, 'empty_closure'),
                        (1.6, 'positive_closure'), (1.8, 'closure'), (1.8, 'optional'), (9, 'atom'), (0.7, 'void'),
                        (0.8, 'skip_to'), (0.9, 'lookahead'), (0.9, 'negative_lookahead'), (1.0, 'cut'),
                        (0.4, 'cut_deprecated')])
        self.f('term:' + k)
        if k in ('gather', 'join', 'left_join', 'right_join'):
            op = {'gather': '.{', 'join': '%{', 'left_join': '<{', 'right_join': '>{'}[k]
            if k in ('gather', 'join'):
                suf = pick(rng, ['', '+', '-', '*', '+', ''])
            else:
                suf = pick(rng, ['+', '-']) if rng.random() > self.exotic * 0.3 else pick(rng, ['', '*'])
            self.f(f'{k}:suffix{suf or "none"}')
            sep = self.atom(0 if rng.random() < 0.8 else 1, operand=True)
            glue = rng.random() < 0.75
            body = self.expre(d - 1)
            if glue:
                sep = sep[:-1] + [sep[-1] + op]
                out = sep + body
            else:
                out = sep + [op] + body
            if suf == '*' and rng.random() < 0.3 or suf and rng.random() < self.exotic * 0.1:
                self.f('suffix:spaced' + suf)
                return out + ['}', suf]
            return out + ['}' + suf]
        if k == 'empty_closure':
            return ['{}']
        if k == 'positive_closure':
            if rng.random() < 0.6:
                suf = pick(rng, ['+', '-'])
                self.f('positive_closure:{e}' + suf)
                return ['{'] + self.expre(d - 1) + ['}' + suf]
            self.f('positive_closure:atom+')
            a = self.atom(d - 1, operand=True)
            return a[:-1] + [a[-1] + '+'] if rng.random() > self.exotic * 0.1 else a + ['+']
        if k == 'closure':
            r = rng.random()
            if r < 0.45:
                self.f('closure:{e}')
                return ['{'] + self.expre(d - 1) + ['}']
            if r < 0.75:
                self.f('closure:{e}*')
                return ['{'] + self.expre(d - 1) + ['}*']
            self.f('closure:atom*')
            a = self.atom(d - 1, operand=True)
            return a[:-1] + [a[-1] + '*'] if rng.random() < 0.7 else a + ['*']
        if k == 'optional':
            if rng.random() < 0.6:
                self.f('optional:[e]')
                return ['['] + self.expre(d - 1) + [']']
            self.f('optional:atom?')
            a = self.atom(d - 1, operand=True)
            return a[:-1] + [a[-1] + '?'] if rng.random() < 0.7 else a + ['?']
        if k == 'atom':
            return self.atom(d)
        if k == 'void':
            return ['()']
        if k == 'skip_to':
            return ['->'] + self.term(d - 1)
        if k == 'lookahead':
            return ['&'] + self.term(d - 1)
        if k == 'negative_lookahead':
            return ['!'] + self.term(d - 1)
        if k == 'cut':
            return ['~']
        return ['>>']

    def element(self, d):
        rng = self.rng
        k = wpick(rng, [(1.2, 'override'), (0.6, 'meta'), (3.2, 'named'), (9, 'term'),
                        (0.9 if self.defined else 0.05, 'rule_include')])
        if k == 'override':
            op = wpick(rng, [(3, '@:'), (2, '='), (2, '@+:'), (1.5, '+=')])
            self.f('override:' + op)
            return [op] + self.term(d)
        if k == 'meta':
            m = pick(rng, ['@name', '@int', '@uint', '@float', '@bool'])
            self.f('meta:' + m)
            return [m]
        if k == 'named':
            op = wpick(rng, [(4, ':'), (4, '='), (2, '+:'), (2, '+=')])
            self.f('named:' + op)
            lab = pick(rng, LABELS)
            if rng.random() > self.exotic * 0.12:
                return [lab + op] + self.term(d)
            self.f('named:spaced-operator')
            return [lab, op] + self.term(d)
        if k == 'term':
            return self.term(d)
        self.f('rule_include')
        return ['>' + self.name(known=True)] if rng.random() < 0.6 else ['>', self.name(known=True)]

    def sequence(self, d):
        rng = self.rng
        n = wpick(rng, [(5, 1), (5, 2), (3, 3), (1, 4)])
        if d <= 0:
            n = min(n, 2)
        if n >= 2 and rng.random() < 0.08:
            self.f('sequence:comma')
            out = []
            for i in range(n):
                if i:
                    out.append(',')
                out += self.element(d)
            return out
        self.f('sequence:plain')
        out = []
        for _ in range(n):
            out += self.element(d)
        return out

    def expre(self, d):
        rng = self.rng
        if d > 0 and rng.random() < 0.35:
            n = wpick(rng, [(5, 2), (3, 3), (1, 4)])
            out = []
            if rng.random() < 0.3:
                self.f('choice:leading-bar')
                out.append('|')
            else:
                self.f('choice:plain')
            for i in range(n):
                if i:
                    out.append('|')
                out += self.sequence(d - 1)
            return out
        return self.sequence(d)

    # -------------------------------------------------------------------- rules
    def params_list(self):
        rng = self.rng
        first = pick(rng, CLASSES) if rng.random() < 0.75 else self.literal()
        if '::' in first:
            self.f('params:path')
        ps = [first]
        for _ in range(wpick(rng, [(6, 0), (3, 1), (1, 2)])):
            ps.append(self.literal())
        return ps

    def kwparams_list(self):
        rng = self.rng
        out = []
        for _ in range(wpick(rng, [(5, 1), (2, 2)])):
            out.append(pick(rng, ['k', 'name', 'prec', 'assoc']) + pick(rng, ['=', ' = ']) + self.literal())
        return out

    def paramdef(self):
        rng = self.rng
        k = wpick(rng, [(5, '['), (3, '('), (2.5, '::')])
        if k == '::':
            self.f('paramdef:::')
            return '::' + ', '.join(self.params_list())
        close = {'[': ']', '(': ')'}[k]
        c = wpick(rng, [(5, 'params'), (2, 'kw'), (2, 'both')])
        self.f(f'paramdef:{k}{c}')
        if c == 'params':
            inner = self.params_list()
        elif c == 'kw':
            inner = self.kwparams_list()
        else:
            inner = self.params_list() + self.kwparams_list()
        sep = pick(rng, [', ', ',', ' , '])
        return k + sep.join(inner) + close

    def glue_tokens(self, toks, multiline):
        """join expression tokens; continuation lines are indented (a line starting at column 0 ends the rule)"""
        rng = self.rng
        out = []
        for i, t in enumerate(toks):
            if i:
                r = rng.random()
                if multiline and (t == '|' and r < 0.7 or r < 0.08):
                    self.f('layout:continuation-line')
                    out.append('\n' + pick(rng, ['    ', '  ', '\t', '        ']))
                elif r < 0.03:
                    self.f('layout:inline-comment')
                    out.append(' ' + self.comment(inline=True) + ' ')
                elif r < 0.05:
                    self.f('layout:eol-comment-in-rule')
                    out.append(' ' + self.comment(eol=True) + '\n    ')
                elif r < 0.12 and not (_wordish(out[-1][-1:]) and _wordish(t[:1])) and rng.random() > 0.3:
                    self.f('layout:no-space')
                elif r < 0.15:
                    out.append('  ')
                else:
                    out.append(' ')
            out.append(t)
        return ''.join(out)

    def comment(self, inline=False, eol=False):
        rng = self.rng
        w = pick(rng, COMMENT_WORDS)
        if eol or (not inline and rng.random() < 0.5):
            k = pick(rng, ['#', '//'])
            self.f('comment:' + k)
            return k + ' ' + w.replace('\n', ' ')
        if rng.random() < 0.6:
            self.f('comment:(* *)')
            return '(* ' + w.replace('*)', '') + pick(rng, ['', '\n   more']) + ' *)'
        self.f('comment:/* */')
        return '/* ' + w.replace('*/', '') + ' */'

    def rule(self, last):
        rng = self.rng
        lines = []
        decos = []
        override = False
        if rng.random() < 0.18:
            for _ in range(wpick(rng, [(4, 1), (1, 2)])):
                dname = wpick(rng, [(2, 'override'), (2, 'name'), (1.5, 'isname'), (2, 'nomemo'), (1.5, 'nostak')])
                if dname == 'override' and (not self.defined or last):
                    dname = 'nomemo'
                self.f('decorator:@' + dname)
                override = override or dname == 'override'
                decos.append('@' + dname)
        if override:
            name = pick(rng, self.defined)
        else:
            fresh = [n for n in self.names if n not in self.defined] or [n for n in RULE_NAMES if n not in self.defined]
            name = fresh[0] if fresh and rng.random() < 0.985 else pick(rng, RULE_NAMES)
        head = name
        if rng.random() < 0.3:
            pd = self.paramdef()
            head += (' ' if rng.random() < 0.15 and not pd.startswith('::') else '') + pd
        if self.defined and rng.random() < 0.12:
            self.f('rule:base')
            head += pick(rng, [' < ', '<', ' <']) + (pick(rng, self.defined) if rng.random() < 0.93 else 'undefined_base')
        op = wpick(rng, [(4, '='), (4, ':'), (2, '::='), (2, ':=')])
        self.f('ruledef:' + op)
        multiline = rng.random() < 0.3
        body = self.glue_tokens(self.expre(self.size), multiline)
        if decos:
            if rng.random() < 0.6:
                lines.append('\n'.join(decos))
            else:
                head = ' '.join(decos) + ' ' + head
        sp = pick(rng, [' ', ' ', '', '  '])
        if multiline and rng.random() < 0.6:
            text = head + sp + op + '\n    ' + body
        else:
            text = head + sp + op + pick(rng, [' ', ' ', '', '  ']) + body
        lines.append(text)
        text = '\n'.join(lines)
        x = self.exotic
        end = wpick(rng, [(5, ';'), (2, ' ;'), (1.5, '\n    ;'), (1.2 * x, 'dedent'), (4, 'blank'), (0.5 * x, '.'), (1.2 * x, ';;')])
        if last:
            end = wpick(rng, [(4, ';'), (2, 'eof'), (2, 'eof-nl'), (1, 'blank'), (1, ' ;')])
        self.f('endrule:' + end.strip(' \n') if end.strip(' \n') else 'endrule:blank')
        if end in ('dedent', 'eof-nl'):
            text += '\n'
        elif end == 'blank':
            text += pick(rng, ['\n\n', '\n  \n', '\n\n\n'])
        elif end == 'eof':
            pass
        else:
            text += end + pick(rng, ['\n', '\n', '\n\n', ' ' + self.comment(eol=True) + '\n'])
        self.defined.append(name)
        return text

    def directive(self):
        rng = self.rng
        k = wpick(rng, [(2, 'comments'), (2, 'eol_comments'), (3, 'whitespace'), (4, 'bool'), (2.5, 'grammar'),
                        (2, 'namechars')])
        sep = pick(rng, [' :: ', '::', ' ::', ':: '])
        if k in ('comments', 'eol_comments'):
            self.f('directive:' + k)
            return f'@@{k}{sep}{self.regex(bad_ok=False)}'
        if k == 'whitespace':
            v = wpick(rng, [(3, 'regex'), (2, 'string'), (2, 'None'), (1.5, 'False'), (1, 'empty')])
            self.f('directive:whitespace=' + v)
            if v == 'regex':
                return f'@@whitespace{sep}{self.regex(bad_ok=False)}'
            if v == 'string':
                return '@@whitespace' + sep + pick(rng, ["' \\t'", '"\\t "', "''", "' '"])
            if v == 'empty':
                return '@@whitespace ::'
            return f'@@whitespace{sep}{v}'
        if k == 'bool':
            n = pick(rng, DIRECTIVE_BOOL)
            v = wpick(rng, [(3, 'True'), (3, 'False'), (2, '')])
            self.f('directive:' + n + ('=' + v if v else ':bare'))
            return f'@@{n}{sep}{v}' if v else f'@@{n}'
        if k == 'grammar':
            self.f('directive:grammar')
            return '@@grammar' + sep + pick(rng, ['Calc', 'My_Lang', 'x', 'T1'])
        self.f('directive:namechars')
        return '@@namechars' + sep + pick(rng, ["'$-'", '"_"', "'-'", "''"])

    def keyword(self):
        rng = self.rng
        ws = []
        for _ in range(wpick(rng, [(3, 1), (3, 2), (2, 3)])):
            w = pick(rng, ['if', 'then', 'else', 'end', 'let', 'while', 'None', 'class'])
            ws.append(w if rng.random() < 0.7 else pick(rng, ["'%s'", '"%s"']) % w)
        sep = pick(rng, [' :: ', '::', ' ::'])
        if rng.random() < 0.3:
            self.f('keyword:paren')
            return '@@keyword' + sep + '(' + ' '.join(ws) + ')'
        self.f('keyword:plain')
        return '@@keyword' + sep + ' '.join(ws)

    def grammar(self, n_rules=None):
        rng = self.rng
        parts = []
        if rng.random() < 0.25:
            parts.append(self.comment())
        nd = wpick(rng, [(4, 0), (3, 1), (2, 2), (1, 3)])
        for _ in range(nd):
            parts.append(self.directive() if rng.random() < 0.8 else self.keyword())
            if rng.random() < 0.1:
                parts[-1] += ' ' + self.comment(eol=True)
        if parts and rng.random() < 0.6:
            parts.append('')
        n = n_rules or wpick(rng, [(3, 1), (4, 2), (3, 3), (1, 4)])
        pool = list(RULE_NAMES)
        rng.shuffle(pool)
        self.names = pool[:n]
        if rng.random() < 0.5 and 'start' in RULE_NAMES and 'start' not in self.names:
            self.names[0] = 'start'
        text = '\n'.join(parts) + ('\n' if parts else '')
        i = -1
        while True:
            i += 1
            missing = [x for x in self.names if x not in self.defined]
            last = (len(missing) <= 1 and i >= n - 1) or i > n + 3
            text += self.rule(last=last)
            if last:
                break
            if i < n - 1 and rng.random() < 0.12:
                text += self.keyword() + '\n' + pick(rng, ['', '\n'])
            if i < n - 1 and rng.random() < 0.08:
                text += self.comment() + '\n'
        return text


def gen_text(rng, size=None, exotic=None):
    """-> (text, forms)"""
    if size is None:
        size = wpick(rng, [(4, 1), (5, 2), (1.5, 3)])
    g = TextGen(rng, size=size, exotic=0.25 if exotic is None else exotic)
    text = g.grammar()
    return safe(text), sorted(g.forms)


# ------------------------------------------------------------- focused samples
def focused(rng, k):
    """one-construct grammars: a systematic sweep over the surface forms (index k selects the form)"""
    forms = FOCUSED
    tmpl, tag = forms[k % len(forms)]
    return safe(tmpl), tag


_E = "'a'"
FOCUSED = [(t, tag) for tag, t in [
    ('ruledef:=', "start = 'a' ;\n"),
    ('ruledef::', "start: 'a'\n"),
    ('ruledef:::=', "start ::= 'a' ;\n"),
    ('ruledef::=', "start := 'a' ;\n"),
    ('endrule:dedent', "start = 'a'\nb = 'b'\n"),
    ('endrule:blank', "start = 'a'\n\n\nb = 'b'\n\n"),
    ('endrule:eof', "start = 'a'"),
    ('endrule:crlf', "start = 'a'\r\nb = 'b'\r\n"),
    ('endrule:.', "start = 'a' .\n"),
    ('endrule:semi-nl', "start = 'a'\n    ;\nb = 'b' ;"),
    ('continuation', "start =\n    'a'\n    'b'\n  | 'c'\n    ;\n"),
    ('directive:all', "@@grammar :: G\n@@whitespace :: /[ \\t]+/\n@@comments :: /\\(\\*.*?\\*\\)/\n@@eol_comments :: ?'#.*?$'\n"
                      "@@nameguard :: False\n@@ignorecase\n@@left_recursion :: True\n@@parseinfo :: False\n@@memoization\n"
                      "@@namechars :: '$'\n@@keyword :: if then\n@@keyword :: ('x' y)\nstart = 'a' ;\n"),
    ('directive:whitespace-none', "@@whitespace :: None\nstart = 'a' ;\n"),
    ('directive:whitespace-false', "@@whitespace :: False\nstart = 'a' ;\n"),
    ('directive:whitespace-empty', "@@whitespace ::\nstart = 'a' ;\n"),
    ('directive:whitespace-string', "@@whitespace :: ' \\t'\nstart = 'a' ;\n"),
    ('directive:comments-deprecated', "@@comments :: ?/\\{.*?\\}/?\nstart = 'a' ;\n"),
    ('directive:unknown', "@@nosuch :: True\nstart = 'a' ;\n"),
    ('directive:keyword-not', "@@keywords :: a\nstart = 'a' ;\n"),
    ('keyword:after-rule', "start = 'a' ;\n@@keyword :: if\nb = 'b' ;\n@@keyword :: then\n"),
    ('keyword:before-colon-rule', "@@keyword :: if then\nstart: 'a'\n"),
    ('keyword:before-param-rule', "@@keyword :: if\nstart[X]: 'a'\n"),
    ('paramdef:[]', "start[Add] = 'a' ;\n"),
    ('paramdef:[]multi', "start[Add, 1, 'x', true, None, +5, .5, 0x1F] = 'a' ;\n"),
    ('paramdef:[]kw', "start[k=1, name='x'] = 'a' ;\n"),
    ('paramdef:[]both', "start[Add, Sub, k=1] = 'a' ;\n"),
    ('paramdef:()', "start(Add) = 'a' ;\n"),
    ('paramdef:()kw', "start(k=null) = 'a' ;\n"),
    ('paramdef:()both', "start(Add, k=False) = 'a' ;\n"),
    ('paramdef:::', "start::Add = 'a' ;\n"),
    ('paramdef:::multi', "start::Add, 2 = 'a' ;\n"),
    ('paramdef:path', "start[a::b::C] = 'a' ;\n"),
    ('paramdef:::path', "start::a::B: 'a'\n"),
    ('params:raw', "start[r'\\d'] = 'a' ;\n"),
    ('params:eq-after-literal', "start[A, b=1, c=2] = 'a' ;\n"),
    ('rule:base', "a = 'a' ;\nstart < a = 'b' ;\n"),
    ('rule:base-params', "a = 'a' ;\nstart[X] < a = 'b' ;\n"),
    ('rule:base-unknown', "start < nosuch = 'b' ;\n"),
    ('rule:duplicate', "start = 'a' ;\nstart = 'b' ;\n"),
    ('decorator:override', "start = 'a' ;\n@override\nstart = 'b' ;\n"),
    ('decorator:override-unknown', "@override\nstart = 'b' ;\n"),
    ('decorator:name', "@name\nstart = /\\w+/ ;\n"),
    ('decorator:isname', "@isname start = /\\w+/ ;\n"),
    ('decorator:nomemo', "@nomemo\nstart = 'a' ;\n"),
    ('decorator:nostak', "@nostak\n@nomemo\nstart = 'a' ;\n"),
    ('decorator:unknown', "@memo\nstart = 'a' ;\n"),
    ('decorator:prefix', "@names\nstart = 'a' ;\n"),
    ('include', "a = 'a' ;\nstart = >a 'b' ;\n"),
    ('include:unknown', "start = >nosuch 'b' ;\n"),
    ('include:spaced', "a = 'a' 'c' ;\nstart = 'x' > a ;\n"),
    ('named:=', "start = n='a' ;\n"),
    ('named::', "start = n:'a' ;\n"),
    ('named:+=', "start = n+='a' ;\n"),
    ('named:+:', "start = n+:'a' ;\n"),
    ('named:spaced', "start = n = 'a' m : 'b' k += 'c' j +: 'd' ;\n"),
    ('override:@:', "start = @:'a' ;\n"),
    ('override:=', "start = ='a' 'b' ;\n"),
    ('override:@+:', "start = @+:'a' ;\n"),
    ('override:+=', "start = 'x' +='a' ;\n"),
    ('override:bare-@', "start = @'a' ;\n"),
    ('gather', "start = ','.{'a'} ;\n"),
    ('gather:+', "start = ','.{'a'}+ ;\n"),
    ('gather:-', "start = ','.{'a'}- ;\n"),
    ('gather:*', "start = ','.{'a'}* ;\n"),
    ('gather:spaced', "start = ',' .{ 'a' } + ;\n"),
    ('join', "start = ','%{'a'} ;\n"),
    ('join:+', "start = ','%{'a'}+ ;\n"),
    ('join:-', "start = ','%{'a'}- ;\n"),
    ('join:*', "start = ','%{'a'}* ;\n"),
    ('left_join:+', "start = '+'<{'a'}+ ;\n"),
    ('left_join:-', "start = '+'<{'a'}- ;\n"),
    ('left_join:none', "start = '+'<{'a'} ;\n"),
    ('left_join:*', "start = '+'<{'a'}* ;\n"),
    ('right_join:+', "start = '^'>{'a'}+ ;\n"),
    ('right_join:-', "start = '^'>{'a'}- ;\n"),
    ('right_join:none', "start = '^'>{'a'} ;\n"),
    ('join:group-sep', "start = ('+'|'-')%{x}+ ;\nx = 'a' ;\n"),
    ('join:call-sep', "start = op<{x}+ ;\nop = '+' ;\nx = 'a' ;\n"),
    ('gather:pattern-sep', "start = /,/.{x}+ ;\nx = 'a' ;\n"),
    ('closure:+=suffix', "start = {'a'}+= 'b' ;\n"),
    ('closure:{e}', "start = {'a'} ;\n"),
    ('closure:{e}*', "start = {'a'}* ;\n"),
    ('closure:{e}+', "start = {'a'}+ ;\n"),
    ('closure:{e}-', "start = {'a'}- ;\n"),
    ('closure:atom*', "start = 'a'* ;\n"),
    ('closure:atom+', "start = 'a'+ x+ (y)+ ;\n"),
    ('closure:atom-', "start = 'a'- ;\n"),
    ('closure:{}', "start = {} ;\n"),
    ('closure:{}-then-rule', "start = 'a' {}\n\nb: 'b'\n"),
    ('optional:[e]', "start = ['a'] ;\n"),
    ('optional:atom?', "start = 'a'? x? ;\n"),
    ('optional:atom?-vs-regex', "start = x ?'re' y ?\"re\" z ?/re/? ;\n"),
    ('lookahead', "start = &'a' !'b' &x !(y z) ;\n"),
    ('skip_to', "start = ->'a' ->(x | y) ->&'b' ;\n"),
    ('cut', "start = 'a' ~ 'b' >> 'c' ;\n"),
    ('void', "start = () 'a' | () ;\n"),
    ('fail', "start = !() 'a' ;\n"),
    ('group', "start = ('a' | 'b') ( x ) ;\n"),
    ('skipgroup', "start = (?:'a' | 'b') (?: x ) ;\n"),
    ('eof-eol', "start = 'a' $-> 'b' $ ;\n"),
    ('dot', "start = /./ /./* ;\n"),
    ('meta', "start = @name @int @uint @float @bool ;\n"),
    ('meta:named', "start = n=@name i:@int ;\n"),
    ('meta:unknown', "start = @names @integer ;\n"),
    ('alert', "start = ^`oops` ^^`{x} bad` ^^^```multi\nline``` ;\n"),
    ('constant', "start = `x` `42` `'s'` `True` `null` `1.5` ```a\nb``` `` `a b` ;\n"),
    ('constant:literal-kinds', "start = `+5` `.5` `0x1F` `None` `false` `-3` `r'x'` `\"q\"` ;\n"),
    ('token:quotes', "start = 'a' \"b\" 'it\"s' \"it's\" '\\'' \"\\\"\" ;\n"),
    ('token:raw', "start = r'\\d' r\"\\w\" ;\n"),
    ('token:multiline', "start = '''abc''' \"\"\"d\n  e\"\"\" ;\n"),
    ('token:empty', "start = '' ;\n"),
    ('token:escapes', "start = '\\n' '\\t' '\\\\' '\\x41' '\\u00e9' ;\n"),
    ('pattern:forms', "start = /a/ ?'b' ?\"c\" ?/d/? ;\n"),
    ('pattern:slash-escape', "start = /a\\/b/ /[/]/ ;\n"),
    ('pattern:multiline', "start = /(?x)\n  a\n  b/ ;\n"),
    ('pattern:bad', "start = /(/ ;\n"),
    ('pattern:concat', "start = /a/ + /b/ ;\n"),
    ('sequence:comma', "start = 'a', 'b', x ;\n"),
    ('sequence:comma-named', "start = a:'a', b:'b' ;\n"),
    ('choice:leading', "start = | 'a' | 'b' ;\n"),
    ('choice:empty-option', "start = 'a' | ;\n"),
    ('choice:nested', "start = ('a' | ('b' | 'c')) | 'd' ;\n"),
    ('comments:all', "(* block *)\n/* c-style */\n# hash\n// slashes\nstart = 'a' (* in *) 'b' /* in2 */ # eol\n    'c' // eol2\n    ;\n"),
    ('comments:unterminated', "start = 'a' (* never closed\n ;\n"),
    ('names:unicode', "a\u00f1o = '\u00e9' ;\n\u03b1\u03b2 = a\u00f1o ;\n"),
    ('names:underscore', "_ = 'a' ;\n__x__ = _ ;\n"),
    ('names:digit-start', "9lives = 'a' ;\n"),
    ('names:keywordish', "True = 'a' ;\nNone = True ;\n"),
    ('empty-text', ""),
    ('only-directive', "@@grammar :: X\n"),
    ('only-comment', "# nothing\n"),
    ('whitespace-only', "  \n\n\t\n"),
    ('rule:no-body', "start = ;\n"),
    ('rule:no-terminator-then-rule', "start = 'a' b = 'b' ;\n"),
    ('rule:tab-indent', "start =\n\t'a'\n\t'b'\nb = 'c'\n"),
    ('rule:indented-next-rule', "start = 'a'\n  b = 'b'\n"),
    ('params:json-literals', "start[true, false, null] = 'a' ;\n"),
    ('params:json-kw', "start(k=true, j=false, i=null) = 'a' ;\n"),
    ('params:python-literals', "start[True, False, None] = 'a' ;\nb::None = 'b' ;\n"),
    ('params:signed', "start[+1, +2.5, .25, -3, -0.5e1] = 'a' ;\n"),
    ('constant:json', "start = `true` `false` `null` `None` `+1` `.5` ;\n"),
    ('keywords:json', "start[a, k=null, j=+7, i=.5] = `false` ;\nb[x::y, true] = 'b' ;\n"),
    ('left-recursion', "@@left_recursion :: False\nstart = start 'a' | 'a' ;\n"),
    ('left-recursion-on', "start = start 'a' | 'a' ;\n"),
]]


# --------------------------------------------------------------------- mutation
LEX = re.compile(r"""'''.*?'''|\"\"\".*?\"\"\"|```.*?```|'(?:\\.|[^'\\\n])*'|"(?:\\.|[^"\\\n])*"|/(?:\\.|[^/\\\n])+/"""
                 r"""|`[^`\n]*`|@@?\w+|\w+|::=|:=|::|\$->|->|>>|\+=|\+:|@\+:|@:|\(\?:|\.\{|%\{|<\{|>\{|\(\*|\*\)|/\*|\*/"""
                 r"""|\{\}|\(\)|\s+|.""", re.S)


def lex(text):
    return LEX.findall(text)


def mutate(rng, text):
    """-> (mutated text, kind) ; token- and character-level edits (1..3 of them)"""
    n = wpick(rng, [(6, 1), (3, 2), (1, 3)])
    kinds = []
    for _ in range(n):
        if rng.random() < 0.6:
            toks = lex(text)
            idx = [i for i, t in enumerate(toks) if not t.isspace()] or list(range(len(toks)))
            if not toks:
                text = pick(rng, OPERATORS)
                kinds.append('tok-insert')
                continue
            i = pick(rng, idx)
            k = wpick(rng, [(3, 'tok-delete'), (2, 'tok-dup'), (2, 'tok-swap'), (4, 'tok-replace-op'),
                            (3, 'tok-insert-op'), (1.5, 'tok-replace-tok'), (1, 'tok-truncate')])
            if k == 'tok-delete':
                del toks[i]
            elif k == 'tok-dup':
                toks.insert(i, toks[i])
            elif k == 'tok-swap':
                j = pick(rng, idx)
                toks[i], toks[j] = toks[j], toks[i]
            elif k == 'tok-replace-op':
                toks[i] = pick(rng, OPERATORS)
            elif k == 'tok-insert-op':
                toks.insert(i, pick(rng, OPERATORS))
            elif k == 'tok-replace-tok':
                toks[i] = toks[pick(rng, idx)]
            else:
                toks = toks[:i]
            text = ''.join(toks)
            kinds.append(k)
        else:
            k = wpick(rng, [(3, 'chr-delete'), (3, 'chr-insert'), (3, 'chr-replace'), (1, 'chr-swap'), (1, 'ws-change')])
            if not text:
                text = pick(rng, OPERATORS)
                kinds.append('chr-insert')
                continue
            i = rng.randrange(len(text))
            alphabet = "'\"/`\\{}[]()|:=;.@$&!~+-*?<>#%^, \n\tax0_"
            if k == 'chr-delete':
                text = text[:i] + text[i + 1:]
            elif k == 'chr-insert':
                text = text[:i] + pick(rng, alphabet) + text[i:]
            elif k == 'chr-replace':
                text = text[:i] + pick(rng, alphabet) + text[i + 1:]
            elif k == 'chr-swap' and i + 1 < len(text):
                text = text[:i] + text[i + 1] + text[i] + text[i + 2:]
            else:
                ws = [m.start() for m in re.finditer(r'\s', text)]
                if ws:
                    j = pick(rng, ws)
                    text = text[:j] + pick(rng, ['\n', '\n\n', ' ', '', '\t', '\r\n', '\n    ']) + text[j + 1:]
            kinds.append(k)
    return safe(text), '+'.join(sorted(set(kinds)))


MAX_BACKSLASHES = 10


def safe(text):
    """keep the multi-line-string regexes of the TatSu grammar (alternatives `\\\\\\\\|\\\\.|.` under a lazy star:
    exponential on an unterminated triple quote followed by many backslashes) out of their pathological corner;
    that corner is common to all routes (same regex text) and carries no information for this property"""
    if ("'''" in text or '"""' in text) and text.count('\\') > MAX_BACKSLASHES:
        out = []
        n = 0
        for ch in text:
            if ch == '\\':
                n += 1
                if n > MAX_BACKSLASHES:
                    continue
            out.append(ch)
        text = ''.join(out)
    return text


# ----------------------------------------------------------------------- corpus
RST_BLOCK = re.compile(r'^\.\. code(?:-block)?::[ \t]*(\w*)[ \t]*\n((?:[ \t]*\n|[ \t]+.*\n)+)', re.M)


def _dedent(block):
    lines = block.split('\n')
    ind = min((len(l) - len(l.lstrip()) for l in lines if l.strip()), default=0)
    return '\n'.join(l[ind:] for l in lines).strip('\n') + '\n'


def split_rules(text):
    """blank-line separated chunks of a grammar file (each chunk is one or more whole rules / directives)"""
    chunks = [c for c in re.split(r'\n[ \t]*\n', text) if c.strip()]
    return [c.strip('\n') + '\n' for c in chunks]


def corpus(repo):
    """-> list of (origin, text): shipped grammar files (whole when small, and cut into chunks of rules),
    and the ebnf code blocks of the documentation"""
    out = []
    files = []
    for pat in ('grammar/*.ebnf', 'grammar/*.tatsu', 'tatsu/*.ebnf', 'examples/**/*.ebnf', 'examples/**/*.tatsu',
                'tests/**/*.ebnf', 'tests/**/*.tatsu'):
        files += glob.glob(os.path.join(repo, pat), recursive=True)
    for fn in sorted(set(files)):
        try:
            with open(fn, encoding='utf-8') as f:
                text = f.read()
        except (OSError, UnicodeDecodeError):
            continue
        rel = os.path.relpath(fn, repo)
        if len(text) <= 1500:
            out.append((f'file:{rel}', text))
        chunks = split_rules(text)
        # windows of 1..3 consecutive chunks
        for i in range(len(chunks)):
            out.append((f'file:{rel}#chunk{i}', chunks[i]))
            if i + 2 < len(chunks) and i % 3 == 0:
                out.append((f'file:{rel}#chunks{i}-{i + 2}', '\n'.join(chunks[i:i + 3])))
    for fn in sorted(glob.glob(os.path.join(repo, 'docs', '*.rst')) + glob.glob(os.path.join(repo, '*.rst'))):
        try:
            with open(fn, encoding='utf-8') as f:
                text = f.read()
        except (OSError, UnicodeDecodeError):
            continue
        rel = os.path.relpath(fn, repo)
        k = 0
        for m in RST_BLOCK.finditer(text):
            lang = m.group(1).lower()
            if lang not in ('ebnf', 'ocaml', 'apl', ''):
                continue
            body = re.sub(r'\A(?:[ \t]+:[\w-]+:[^\n]*\n)+', '', m.group(2))   # directive options (:force:)
            block = _dedent(body)
            if not block.strip() or len(block) > 1500:
                continue
            out.append((f'doc:{rel}#{k}', block))
            # documentation shows expressions and rule fragments too: give those a rule to live in
            if not re.search(r'^\s*[\w@]', block) or not re.search(r'(?m)^[ \t]*\w+[^\n]*(=|:)', block):
                out.append((f'doc:{rel}#{k}:wrapped', 'start =\n    ' + block.replace('\n', '\n    ').rstrip() + '\n    ;\n'))
            k += 1
    # de-duplicate by text
    seen = set()
    res = []
    for o, t in out:
        t = safe(t)
        if t in seen:
            continue
        seen.add(t)
        res.append((o, t))
    return res


# ------------------------------------------------------------ vocabulary sweep
# every slot of a grammar text in which a token of the TatSu grammar can stand; `{v}` is the token under test
SLOTS = [
    ('directive-name', "@@{v} :: True\nstart = 'a' ;\n"),
    ('directive-bare', "@@{v}\nstart = 'a' ;\n"),
    ('directive-value', "@@whitespace :: {v}\nstart = 'a' ;\n"),
    ('directive-bool', "@@nameguard :: {v}\nstart = 'a' ;\n"),
    ('top-level', "{v}\nstart = 'a' ;\n"),
    ('decorator', "@{v}\nstart = 'a' ;\n"),
    ('bare-decorator', "{v} start = 'a' ;\n"),
    ('definition', "start {v} 'a' ;\n"),
    ('param', "start[{v}] = 'a' ;\n"),
    ('kwparam', "start[k={v}] = 'a' ;\n"),
    ('prefix', "start = {v} 'a' ;\n"),
    ('prefix-glued', "start = {v}'a' 'b' ;\n"),
    ('infix', "start = 'a' {v} 'b' ;\n"),
    ('infix-glued', "start = x{v}'b' ;\nx = 'c' ;\n"),
    ('postfix-glued', "start = 'a'{v} ;\n"),
    ('postfix', "start = 'a' {v} ;\n"),
    ('brace-open', "start = 'a'{v} 'b' }} ;\n"),
    ('brace-close', "start = {{ 'a' }}{v} 'b' ;\n"),
    ('brace-close-spaced', "start = {{ 'a' }} {v} ;\n"),
    ('wrap', "start = {v} 'a' ) ;\n"),
    ('terminator', "start = 'a' {v}\nb = 'b' ;\n"),
    ('constant', "start = `{v}` ;\n"),
    ('alone', "start = {v} ;\n"),
    ('keyword', "@@keyword :: {v}\nstart = 'a' ;\n"),
    ('name', "{v} = 'a' ;\n"),
]


def sweep(v):
    out = []
    for tag, tmpl in SLOTS:
        try:
            out.append((tag, safe(tmpl.format(v=v))))
        except (IndexError, KeyError, ValueError):
            continue
    return out
