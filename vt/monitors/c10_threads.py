"""C10 THREADS monitor: N threads parse different inputs on ONE shared compiled model (or on
separate instances of ONE shared generated parser class); every result is compared with the
sequential result for the same (input, settings) obtained on an independently compiled twin.

Schedules: sys.setswitchinterval(1e-6) plus a sys.monitoring LINE tool restricted to code objects
of tatsu (and of the generated parser) that calls time.sleep(0) with a seeded per-thread
probability: a yield at a statement boundary, i.e. at a place where CPython can really switch
threads.  Evidence: injected yields, observed thread switches, interleaving signatures.
"""
from __future__ import annotations

import os
import random
import sys
import threading
import time

from ..common import REPO, h64
from . import c10_calls as C

TARGETS = ('shared-model', 'shared-model', 'shared-parser-class', 'shared-parser-instance')
VARIANTS = {
    'plain': [{}, {'semantics': 'scale2'}],
    'typed': [{}, {'asmodel': True}],
    'typed2': [{'asmodel': True}],
    'kw': [{}, {'semantics': 'upper'}],
    'lrec': [{}, {'semantics': 'scale2'}],
    'ws': [{}],
}
# per-call settings (the configuration of one call must not be visible to a concurrent one)
CALL_OPTS = {
    'plain': [{}, {}, {'parseinfo': True}, {'semantics': 'scale3'}, {'start': 'item'}, {'whitespace': 'x'}],
    'typed': [{}, {}, {'parseinfo': True}, {'semantics': 'upper'}, {'start': 'item'}],
    'typed2': [{}, {}, {'parseinfo': True}, {'start': 'item'}],
    'kw': [{}, {}, {'ignorecase': True}, {'nameguard': False}, {'parseinfo': True}],
    'lrec': [{}, {}, {'parseinfo': True}, {'semantics': 'scale3'}, {'memoization': False}],
    'ws': [{}, {}, {'ignorecase': False}, {'whitespace': '[ ]+'}, {'parseinfo': True}],
}


def gen_inputs(fam, rng, n):
    out = []
    names = ['a', 'b', 'xy', 'foo', 'k', 'then', 'if', 'let']
    for _ in range(n):
        if fam in ('plain', 'typed', 'typed2'):
            sep = ' - ' if fam == 'typed2' else ' + '
            terms = [str(rng.randrange(1000)) if rng.random() < 0.5 else rng.choice(names[:5])
                     for _ in range(rng.randint(1, 7))]
            t = sep.join(terms)
        elif fam == 'lrec':
            terms = [str(rng.randrange(100)) for _ in range(rng.randint(1, 7))]
            t = terms[0] + ''.join(rng.choice((' + ', ' - ', '+')) + x for x in terms[1:])
        elif fam == 'kw':
            st = []
            for _ in range(rng.randint(1, 4)):
                if rng.random() < 0.5:
                    st.append(f'if {rng.choice(names)} then {rng.choice(names)}')
                else:
                    st.append(rng.choice(names))
            t = ' '.join(st)
        else:
            t = ''.join(f'{rng.choice(("let", "LET", "Let"))}{rng.choice((" ", "\t", "  "))}{rng.choice(names[:5])} = '
                        f'{rng.randrange(100)}{rng.choice(("", " # c", "  "))}\n' for _ in range(rng.randint(1, 4)))
        r = rng.random()
        if r < 0.12 and len(t) > 2:
            t = t[:rng.randrange(1, len(t))]
        elif r < 0.2:
            t = t + rng.choice((' +', ' )', ' 1 2', ' if'))
        elif r < 0.25:
            t = t.replace(' ', 'x')
        out.append(t)
    return out


class Sched:
    """yield injection + switch observation through sys.monitoring (LINE)"""

    def __init__(self):
        self.mon = getattr(sys, 'monitoring', None)
        self.tool = None
        self.tls = threading.local()
        self.prefixes = (os.path.realpath(os.path.join(REPO, 'tatsu')) + os.sep, '<vtc10')
        self.reset(0.0)

    def reset(self, p):
        self.p = p
        self.last = None
        self.switches = []
        self.nswitch = 0
        self.yields = 0
        self.lines = 0

    def install(self):
        if self.mon is None:
            return False
        for tid in (4, 3, 5, 1):
            try:
                self.mon.use_tool_id(tid, 'vt-c10')
                self.tool = tid
                break
            except ValueError:
                continue
        if self.tool is None:
            return False
        self.mon.register_callback(self.tool, self.mon.events.LINE, self._line)
        return True

    def start(self):
        if self.tool is not None:
            self.mon.set_events(self.tool, self.mon.events.LINE)

    def stop(self):
        if self.tool is not None:
            self.mon.set_events(self.tool, 0)

    def uninstall(self):
        if self.tool is not None:
            self.stop()
            self.mon.register_callback(self.tool, self.mon.events.LINE, None)
            self.mon.free_tool_id(self.tool)
            self.tool = None

    def _line(self, code, line):
        fn = code.co_filename
        if not fn.startswith(self.prefixes):
            return self.mon.DISABLE
        st = getattr(self.tls, 'st', None)
        if st is None:
            return None
        self.lines += 1
        idx = st[0]
        if idx != self.last:
            self.last = idx
            self.nswitch += 1
            if len(self.switches) < 64:
                self.switches.append((idx, code.co_name, line))
        if self.p and st[1].random() < self.p:
            self.yields += 1
            time.sleep(0)
        return None


def _decode_call_opts(o, sems):
    out = dict(o)
    if 'semantics' in out:
        out['semantics'] = sems[out['semantics']]
    return out


def _canon_call(f, text, opts):
    try:
        return C.canon(f(text, **opts))
    except RecursionError:
        return {'@exc': 'RecursionError'}
    except Exception as e:  # noqa: BLE001 - the class IS the observation
        return C.canon_exc(e)


def build_target(fam, variant, target, uid, env):
    """-> callable parse(text, **opts) factory per thread, plus the shared object (for the STATE monitor)"""
    import tatsu
    G = C.GRAMMARS[fam] + f'\n# vt-c10 thread run {uid}\n'
    passed = []
    if target == 'shared-model':
        model = tatsu.compile(G, **C.decode_opts(variant, env, 0, passed))
        return (lambda: model.parse), model, passed
    src = tatsu.to_python_sourcecode(G)
    cls = C._find_class(C._exec_module(src, env), 'Parser')
    kopts = C.decode_opts({k: v for k, v in variant.items() if k == 'semantics'}, env, 0, passed)
    if target == 'shared-parser-class':
        return (lambda: (lambda text, **o: cls(**kopts).parse(text, **o))), cls, passed
    inst = cls(**kopts)
    return (lambda: inst.parse), inst, passed


def one_run(cfg, sched, env, cold=False):
    """cfg: fam, variant, target, n, per, p, seed  ->  observations dict"""
    rng = random.Random(cfg['seed'])
    fam, variant, target = cfg['fam'], cfg['variant'], cfg['target']
    n, per = cfg['n'], cfg['per']
    sems = {k: f() for k, f in C.SEM_FACTORIES.items()}
    work = []
    for t in range(n):
        texts = gen_inputs(fam, rng, per)
        items = []
        for x in texts:
            items.append((x, rng.choice(CALL_OPTS[fam])))
        work.append(items)
    uid = f"{cfg['seed']}-{cfg.get('rep', 0)}"
    factory, shared, passed = build_target(fam, variant, target, uid + 'a', env)
    # the caller-owned objects all threads hand to the shared model: the per-call semantics objects, the model's own
    passed = list(passed) + [('semantics', o) for _n, o in sorted(sems.items())]
    twin_factory, _twin, _ = build_target(fam, variant, 'shared-model' if target == 'shared-model' else 'shared-parser-class',
                                       uid + 'b', env)

    def sequential(fac):
        f = fac()
        exp = {}
        for items in work:
            for x, o in items:
                key = (x, repr(sorted(o.items())))
                if key not in exp:
                    exp[key] = _canon_call(f, x, _decode_call_opts(o, sems))
        return exp

    expected = None if cold else sequential(twin_factory)
    if cfg.get('warm'):
        # the shared object has been used once before the threads start
        _canon_call(factory(), work[0][0][0], {})
    before = C.snapshot(shared if target == 'shared-model' else None, passed)
    results = [[None] * per for _ in range(n)]
    barrier = threading.Barrier(n)
    sched.reset(cfg['p'])

    def body(t):
        sched.tls.st = (t, random.Random(h64('yield', cfg['seed'], t)))
        f = factory()
        barrier.wait()
        for i, (x, o) in enumerate(work[t]):
            results[t][i] = _canon_call(f, x, _decode_call_opts(o, sems))
        sched.tls.st = None

    threads = [threading.Thread(target=body, args=(t,), daemon=True) for t in range(n)]
    old = sys.getswitchinterval()
    sys.setswitchinterval(1e-6)
    sched.start()
    try:
        for th in threads:
            th.start()
        for th in threads:
            th.join(timeout=300)
    finally:
        sched.stop()
        sys.setswitchinterval(old)
    hung = sum(1 for th in threads if th.is_alive())
    after = C.snapshot(shared if target == 'shared-model' else None, passed)
    if expected is None:
        expected = sequential(twin_factory)
    post = sequential(factory) if target != 'shared-parser-instance' else None
    div = []
    compared = 0
    for t in range(n):
        for i, (x, o) in enumerate(work[t]):
            key = (x, repr(sorted(o.items())))
            compared += 1
            if results[t][i] != expected[key]:
                div.append({'thread': t, 'text': x, 'opts': o, 'expected': expected[key], 'observed': results[t][i]})
    post_div = []
    if post is not None:
        for key, r in post.items():
            if r != expected[key]:
                post_div.append({'text': key[0], 'opts': key[1], 'expected': expected[key], 'observed': r})
    return {'compared': compared, 'div': div, 'post_compared': len(post or {}), 'post_div': post_div,
            'state': [list(x[:2]) for x in C.state_diff(before, after)], 'args_snapshotted': len(before['args']),
            'yields': sched.yields, 'switches': sched.nswitch, 'lines': sched.lines,
            'sig': h64(sched.switches), 'nsig': len(sched.switches), 'hung': hung,
            'accepted': sum(1 for v in expected.values() if not (isinstance(v, dict) and '@exc' in v)),
            'distinct_inputs': len(expected)}


def make_cfg(seed, shard, i):
    rng = random.Random(h64('C10', 'threads', seed, shard, i))
    fam = rng.choice(sorted(VARIANTS))
    return {'fam': fam, 'variant': rng.choice(VARIANTS[fam]), 'target': rng.choice(TARGETS),
            'n': rng.choice((2, 4, 8, 8)), 'per': 50, 'p': rng.choice((0.0, 0.003, 0.01, 0.04)),
            'warm': rng.random() < 0.3, 'seed': h64('C10', 'run', seed, shard, i)}


def thread_kind(exp, obs):
    """what kind of difference; an exception that is not a parse failure is named with its message"""
    from ..checks.c10 import diffkind
    if isinstance(obs, dict) and '@exc' in obs:
        cls = str(obs['@exc'])
        if not (cls.startswith('Failed') or cls in ('KeywordError', 'ParseError', 'HeartDied')):
            slug = '-'.join(''.join(ch if ch.isalnum() else ' ' for ch in str(obs.get('msg', ''))).split()[:6])
            return f'raises:{cls}:{slug}'
    if obs != exp and _without_unset(exp) == _without_unset(obs):
        # same tree except that keys/fields the grammar defines but the input did not set
        # (value None or []) are absent or present
        return 'defined-but-unset-keys-differ'
    return diffkind(exp, obs)


def _without_unset(r):
    if isinstance(r, dict):
        return {k: _without_unset(v) for k, v in r.items() if v is not None and v != []}
    if isinstance(r, list):
        return [_without_unset(x) for x in r]
    return r


def judge(acc, cfg, obs, prop, origin):
    from ..checks.c10 import short
    target = cfg['target']
    acc.count('thread_runs')
    acc.count('thread_runs:' + target)
    temp = 'warm' if cfg.get('warm') else 'cold'
    acc.count('thread_runs:' + temp)
    acc.count(f'thread_runs:n={cfg["n"]}')
    acc.count('yields_injected', obs['yields'])
    acc.count('thread_switches_observed', obs['switches'])
    acc.count('monitored_line_events', obs['lines'])
    acc.count('thread_inputs_accepted_sequentially', obs['accepted'])
    acc.nontriv('interleave', obs['sig'])
    acc.nontriv('threadrun', cfg['fam'], cfg['variant'], target, cfg['n'], cfg['p'], temp, cfg['seed'])
    if obs['hung']:
        acc.violation(f'threads/{target}/hang', f'{obs["hung"]} of {cfg["n"]} threads did not finish', dict(cfg, mode='threads'))
    if target == 'shared-parser-instance':
        # outside the statement: the documentation does not promise that one parser instance can be shared
        acc.count('shared_instance_results', obs['compared'])
        if obs['div']:
            acc.count('shared_instance_divergent_runs')
            acc.count('shared_instance_divergent_results', len(obs['div']))
        return
    acc.evaluations += obs['compared']
    acc.count('thread_results_compared', obs['compared'])
    acc.count('post_thread_sequential_compared', obs['post_compared'])
    for where, lst in (('concurrent', obs['div']), ('after-threads', obs['post_div'])):
        for d in lst:
            kind = thread_kind(d['expected'], d['observed'])
            sig = f'threads/{target}/{temp}/{where}/{kind}'
            acc.violation(sig, f'{cfg["n"]} threads on one {temp} {target} (grammar {cfg["fam"]}, {cfg["variant"]}): '
                               f'{d["text"]!r} {d["opts"]} gave {short(d["observed"])}, sequentially {short(d["expected"])}',
                          dict(cfg, mode='threads', example=d, origin=origin))
    acc.count('thread_run_argument_objects_snapshotted', obs.get('args_snapshotted', 0))
    for what, fields in obs['state']:
        whose = 'a caller-owned argument object' if what == 'passed-argument' else f'its {what}'
        acc.violation(f'state/{what}-changed-by-concurrent-parses:' + '+'.join(fields),
                      f'{cfg["n"]} threads parsing on one {target} altered {whose} ({fields})',
                      dict(cfg, mode='threads', origin=origin))


def run_threads_shard(desc, acc, prop):
    sched = Sched()
    if not sched.install():
        acc.note('sys.monitoring unavailable: no yield injection, switch interval only')
    env = C.Env()
    sigs = set()
    try:
        for i in range(desc['n']):
            cfg = make_cfg(desc['seed'], desc['shard'], i)
            obs = one_run(cfg, sched, env, cold=(i == 0))
            if i == 0:
                acc.count('cold_thread_runs')
                acc.sample({'thread_run': {k: cfg[k] for k in ('fam', 'variant', 'target', 'n', 'per', 'p', 'warm')},
                            'yields': obs['yields'], 'switches': obs['switches'], 'compared': obs['compared']})
            judge(acc, cfg, obs, prop, {'shard': desc['shard'], 'i': i})
            if obs['nsig'] >= 8:
                sigs.add(obs['sig'])
    finally:
        sched.uninstall()
    acc.count('distinct_interleavings', len(sigs))


def replay(w, acc, prop):
    sched = Sched()
    sched.install()
    env = C.Env()
    cfg = {k: w[k] for k in ('fam', 'variant', 'target', 'n', 'per', 'p', 'seed')}
    cfg['warm'] = w.get('warm', False)
    try:
        for rep in range(12):
            obs = one_run(dict(cfg, rep=rep), sched, env, cold=(rep == 0))
            judge(acc, cfg, obs, prop, {'mode': 'replay', 'rep': rep})
            if acc.violations:
                break
    finally:
        sched.uninstall()
