"""Logical-step monitor for tatsu.util.asjson (C14): termination is decided on steps, never on time.

A `sys.monitoring` tool counts PY_START events on every code object defined in
tatsu/util/asjson.py (asjson, its nested dfs, AsJSONMixin.__json__/__pub__ and their nested
functions, plainjson, ...).  When the count exceeds the budget the callback raises StepBudget,
which unwinds the conversion.  The budget is c x (number of distinct objects reachable from the
input), the latter computed here by an independent id()-based walk.
"""
from __future__ import annotations

import sys
import types
from collections.abc import Mapping

TOOL_ID = 4     # a free slot (0..5); debugger=0, coverage=1, profiler=2, optimizer=5


class StepBudget(Exception):
    pass


class StepMonitor:
    def __init__(self):
        self.codes = []
        self.count = 0
        self.budget = None
        self.active = False
        self.available = False
        self.note = None

    def install(self):
        if self.available:
            return True
        try:
            import importlib
            mod = importlib.import_module('tatsu.util.asjson')   # (tatsu.util.asjson the attribute is the function)
        except Exception as e:  # noqa: BLE001
            self.note = f'asjson module not importable: {type(e).__name__}'
            return False
        fname = getattr(mod, '__file__', None)
        seen = set()

        def collect(code):
            if id(code) in seen or code.co_filename != fname:
                return
            seen.add(id(code))
            self.codes.append(code)
            for c in code.co_consts:
                if isinstance(c, types.CodeType):
                    collect(c)

        for v in vars(mod).values():
            if isinstance(v, types.FunctionType) and v.__code__.co_filename == fname:
                collect(v.__code__)
            elif isinstance(v, type):
                for m in vars(v).values():
                    f = getattr(m, '__func__', m)
                    if isinstance(f, types.FunctionType) and f.__code__.co_filename == fname:
                        collect(f.__code__)
        if not self.codes:
            self.note = 'no code objects found in tatsu/util/asjson.py'
            return False
        mon = sys.monitoring
        try:
            if mon.get_tool(TOOL_ID) is None:
                mon.use_tool_id(TOOL_ID, 'vt-c14-steps')
            mon.register_callback(TOOL_ID, mon.events.PY_START, self._on_start)
            for c in self.codes:
                mon.set_local_events(TOOL_ID, c, mon.events.PY_START)
        except Exception as e:  # noqa: BLE001
            self.note = f'sys.monitoring unavailable: {type(e).__name__}: {e}'
            return False
        self.available = True
        return True

    def _on_start(self, code, offset):
        if not self.active:
            return None
        self.count += 1
        if self.budget is not None and self.count > self.budget:
            self.active = False
            raise StepBudget(self.count)
        return None

    def run(self, fn, budget):
        """-> ('ok', result, steps) | ('budget', None, steps) | ('exc', exception, steps)"""
        self.count = 0
        self.budget = budget
        self.active = True
        try:
            out = fn()
            return 'ok', out, self.count
        except StepBudget:
            return 'budget', None, self.count
        except RecursionError as e:
            return 'exc', e, self.count
        except Exception as e:  # noqa: BLE001 - observation
            return 'exc', e, self.count
        finally:
            self.active = False
            self.budget = None


def reachable_objects(root, limit=2_000_000) -> int:
    """number of distinct non-scalar objects reachable from root (id()-based, generous: container
    items, mapping keys and values, instance __dict__ and __slots__ values)"""
    seen = set()
    todo = [root]
    n = 0
    while todo:
        o = todo.pop()
        if o is None or isinstance(o, (bool, int, float, str, bytes, complex)):
            continue
        i = id(o)
        if i in seen:
            continue
        seen.add(i)
        n += 1
        if n > limit:
            break
        if isinstance(o, Mapping):
            try:
                for k, v in list(o.items()):
                    todo.append(k)
                    todo.append(v)
            except Exception:  # noqa: BLE001
                pass
        elif isinstance(o, (list, tuple, set, frozenset)):
            todo.extend(o)
        if isinstance(o, type):
            continue
        d = getattr(o, '__dict__', None)
        if isinstance(d, dict):
            todo.extend(d.values())
        for cls in type(o).__mro__:
            for s in getattr(cls, '__slots__', ()) or ():
                if isinstance(s, str):
                    try:
                        todo.append(getattr(o, s))
                    except Exception:  # noqa: BLE001
                        pass
    return max(n, 1)


def json_size(j) -> int:
    """number of nodes of a JSON value (iterative)"""
    n = 0
    todo = [j]
    while todo:
        o = todo.pop()
        n += 1
        if isinstance(o, dict):
            todo.extend(o.values())
        elif isinstance(o, list):
            todo.extend(o)
    return n
