"""C07 helper: typed-grammar workload, tagged-AST oracle and live-tree monitors.

Nothing here reimplements the model builder: the expected typed tree is the value the REAL parser
delivers for the same input when the only semantic action is "wrap the rule value together with the
rule's type annotation" (``TagSemantics``: the documented ``_default(ast, *params)`` protocol), and
that tagged tree is itself validated against the plain-AST parse (tags erased == plain AST).
"""
from __future__ import annotations

import random
import re
import sys
import types

from .. import gen as G
from .. import lang as L
from ..common import h64

BUILTINS = ('int', 'float', 'str', 'bool', 'list')

# ----------------------------------------------------------------------------- names
WORDS = ['Expr', 'Term', 'Stmt', 'Decl', 'Item', 'Pair', 'Unit', 'Atom', 'Leaf', 'Oper', 'Bin',
         'Call', 'Arg', 'Blk', 'Lit', 'Ref', 'Seq', 'Alt']
BASEWORDS = ['Base', 'Kind', 'Thing', 'Shape', 'Part']
COLLIDING = ['Alpha', 'Beta', 'Gamma', 'Delta', 'Omega']
ATTRS = ['left', 'right', 'op', 'name', 'value', 'args', 'body', 'x', 'y', 'k', 'v', 'n', 'm', 'head', 'tail']
# element names that meet the node API / the AST key renaming (dedicated slice, DESIGN corner)
HOSTILE_PROPS = ['text', 'line', 'parent', 'path']            # read-only properties of Node
HOSTILE_METHODS = ['children', 'asjson', 'clone']              # methods of Node
HOSTILE_FIELDS = ['ast', 'ctx', 'parseinfo']                   # dataclass fields of BaseNode
HOSTILE_ASTKEYS = ['items', 'keys', 'values', 'update', 'get']  # renamed by AST (key + '_')
HOSTILE_PYKW = ['type', 'class', 'from', 'in', 'match']         # renamed by the model generator only
# further parameters of a typed rule (`binary(Binary, 'infix', prec=3)`): values a grammar can spell
# (bare words, quoted strings, numbers); keyword names disjoint from the element names (ATTRS, the
# hostile pools) and from the fields of every node
EXTRA_WORDS = ['infix', 'prefix', 'postfix', 'lhs', 'Opx', 'Other']
EXTRA_QUOTED = ['+', '-', 'a b', '<=', 'x.y', '']
EXTRA_INTS = [0, 1, 2, 7, 42]
EXTRA_FLOATS = [2.5, 0.5]
EXTRA_KWNAMES = ['prec', 'assoc', 'tag', 'mode', 'level', 'base', 'kw']


def suffix(i: int) -> str:
    """alphabetic, capitalised, unique per case index: 0 -> 'Za', 27 -> 'Zbb' ..."""
    s = ''
    i += 1
    while i:
        i, r = divmod(i - 1, 26)
        s = chr(ord('a') + r) + s
    return 'Z' + s


def pythonic(name: str) -> str:
    """snake_case of a Capitalised-words class name (the documented walk__xyz spelling)"""
    return re.sub(r'(?<!^)([A-Z])', r'_\1', name).lower()


# ----------------------------------------------------------------------------- patterns / inputs
PATS = dict(G.PATS)
PATS.update({r'\d+\.\d+': ['1.5', '20.25', '0.0'], r'[xyz]': ['x', 'y', 'z'], r'[a-c]\d': ['a1', 'c9']})
TOKS = ['a', 'b', 'c', '+', '-', ';', '<', '>', 'let', 'in', '=']


def derive(rng, g, e, depth=0):
    """a string the expression is likely to accept (copy of vt.gen.derive with our pattern table;
    parts always separated by blanks so that nameguard/token boundaries do not reject)"""
    if depth > 14:
        return ''
    d = depth + 1
    if isinstance(e, L.Tok):
        return e.s
    if isinstance(e, L.Pat):
        return rng.choice(PATS.get(e.rx, ['a']))
    if isinstance(e, L.Call):
        try:
            return derive(rng, g, g.rule(e.name).body, d)
        except KeyError:
            return ''
    if isinstance(e, L.Seq):
        return join_parts([derive(rng, g, i, d) for i in e.items])
    if isinstance(e, L.Choice):
        opts = list(e.opts)
        if depth > 8:   # prefer the last (non recursive) option when deep
            return derive(rng, g, opts[-1], d)
        return derive(rng, g, rng.choice(opts), d)
    if isinstance(e, (L.Group, L.SkipGroup, L.Named, L.NamedList, L.Over, L.OverList)):
        return derive(rng, g, e.e, d)
    if isinstance(e, L.Opt):
        return derive(rng, g, e.e, d) if rng.random() < 0.6 else ''
    if isinstance(e, (L.Clo, L.PClo)):
        n = rng.choice([0, 1, 2, 3]) if isinstance(e, L.Clo) else rng.choice([1, 2, 3])
        return join_parts([derive(rng, g, e.e, d) for _ in range(n)])
    if isinstance(e, L.Join):
        n = rng.choice([0, 1, 2, 3]) if not e.positive else rng.choice([1, 2, 3])
        parts = []
        for i in range(n):
            if i:
                parts.append(derive(rng, g, e.sep, d))
            parts.append(derive(rng, g, e.e, d))
        return join_parts(parts)
    if isinstance(e, L.Dot):
        return rng.choice('abc,')
    if isinstance(e, L.SkipTo):
        return derive(rng, g, e.e, d)
    return ''


def join_parts(parts):
    return ' '.join(p for p in parts if p)


def gen_inputs(rng, g, start, n):
    out = []
    body = g.rule(start).body
    for _ in range(n):
        s = derive(rng, g, body)
        k = rng.random()
        if k < 0.12:
            s = G.mutate(rng, s, 'abc ,;1')
        elif k < 0.16:
            s = rng.choice(G.FIXED_INPUTS)
        if rng.random() < 0.1:
            s = ' ' + s
        if rng.random() < 0.1:
            s = s + rng.choice([' ', '\n'])
        out.append(s)
    return out


# ----------------------------------------------------------------------------- typed grammars
class Spec:
    """the type declarations of one generated grammar: class name -> tuple of declared bases"""

    def __init__(self):
        self.chain: dict[str, tuple] = {}

    def declare(self, names):
        for i, n in enumerate(names):
            self.chain.setdefault(n, tuple(names[i + 1:]))

    def spec_of(self, head):
        return '::'.join((head, *self.chain[head]))


def gen_typed_grammar(rng, case_index, slice_):
    """-> (L.Grammar with Rule.params=('A::B',) on typed rules, meta)

    slice_: 'fresh' (class names unique to this case), 'collide' (names from a small process-wide
    pool, chains redrawn per case), 'hostile' (fresh names, element names meeting the node API),
    'shared' (fresh names, two rules declaring the same class).  Typed rules may get further
    parameters after the type name (add_extra_params: Rule.params=('A::B', 'infix', 1), Rule.kwparams)."""
    sfx = suffix(case_index)
    spec = Spec()
    nr = rng.choice([2, 3, 3, 4, 4, 5, 6])
    names = [f'r{i}' for i in range(nr)]
    names[0] = 'start'
    used_words = set()

    def fresh(pool):
        for _ in range(20):
            w = rng.choice(pool)
            if w not in used_words:
                used_words.add(w)
                return w + sfx
        w = rng.choice(pool) + rng.choice(WORDS)
        used_words.add(w)
        return w + sfx

    collide_order = rng.sample(COLLIDING, len(COLLIDING))  # a per-case linearisation => acyclic chains

    no_base = set()   # classes other rules must not derive from (conflict slice)

    def new_head():
        """declare a class (with its chain) and return its name"""
        if slice_ == 'collide' and rng.random() < 0.7:
            free = [c for c in collide_order if c not in spec.chain]
            if free:
                head = rng.choice(free)
                later = collide_order[collide_order.index(head) + 1:]
                r = rng.random()
                if later and r < 0.7:
                    b = rng.choice(later)
                    if b not in spec.chain:
                        later2 = collide_order[collide_order.index(b) + 1:]
                        if later2 and rng.random() < 0.35:
                            b2 = rng.choice(later2)
                            if b2 not in spec.chain:
                                spec.declare([b2])
                            spec.declare([b, b2, *spec.chain[b2]])
                        else:
                            spec.declare([b])
                    spec.declare([head, b, *spec.chain[b]])
                else:
                    spec.declare([head])
                return head
        head = fresh(WORDS)
        r = rng.random()
        if r < 0.45:
            spec.declare([head])
        else:
            existing = [b for b in spec.chain if b != head and b not in no_base]
            if existing and rng.random() < 0.5:
                b = rng.choice(existing)
            else:
                b = fresh(BASEWORDS)
                if rng.random() < 0.4:
                    b2 = fresh(BASEWORDS)
                    spec.declare([b2])
                    spec.declare([b, b2])
                else:
                    spec.declare([b])
            spec.declare([head, b, *spec.chain[b]])
        return head

    if slice_ == 'hostile':
        hostile_kind = rng.choice(['prop', 'method', 'field', 'astkey', 'pykw'])
        hostile_name = rng.choice({'prop': HOSTILE_PROPS, 'method': HOSTILE_METHODS, 'field': HOSTILE_FIELDS,
                                   'astkey': HOSTILE_ASTKEYS, 'pykw': HOSTILE_PYKW}[hostile_kind])
    else:
        hostile_kind = hostile_name = None

    def attr_names(k):
        pool = rng.sample(ATTRS, k)
        return pool

    def atom(first=True):
        # a pattern is only generated where a rule starts: the parser skips whitespace before tokens
        # and at rule entry, not before a pattern in the middle of a sequence
        r = rng.random()
        if r < 0.55 or not first:
            return L.Tok(rng.choice(TOKS[:5]))
        return L.Pat(rng.choice([r'\d+', r'[a-c]+', r'[xyz]', r'[a-c]\d']))

    def element(callees, meta):
        """an expression around a call (or an atom) in one of the container positions"""
        if not callees or rng.random() < 0.15:
            base = atom(first=False)
        else:
            base = L.Call(rng.choice(callees))
        r = rng.random()
        if r < 0.22:
            return base
        if r < 0.34:
            return L.Opt(base)
        if r < 0.46:
            return L.Clo(base)
        if r < 0.56:
            return L.PClo(base)
        if r < 0.66:
            return L.Join(L.Tok(','), base, rng.random() < 0.6, rng.random() < 0.5)
        if r < 0.74:
            return L.Group(L.Seq((L.Tok('<'), base, L.Tok('>'))))
        if r < 0.84:   # list of lists
            meta['nested'] = True
            return L.Clo(L.Group(L.Seq((base, L.Opt(base), L.Tok(';')))))
        if r < 0.90:
            meta['nested'] = True
            return L.PClo(L.Group(L.Seq((L.Tok('<'), L.Clo(base), L.Tok('>')))))
        if r < 0.95 and len(callees) > 1:
            return L.Group(L.Choice((L.Call(callees[0]), L.Call(callees[-1]))))
        return L.Opt(L.Group(L.Seq((L.Tok('='), base))))

    def named_seq(callees, meta, lead=None, names_=None):
        k = len(names_) if names_ else rng.choice([1, 2, 2, 3, 4])
        items = []
        if lead:
            items.append(L.Tok(lead))
        nms = list(names_) if names_ else attr_names(k)
        if hostile_name and rng.random() < 0.6:
            nms[rng.randrange(len(nms))] = hostile_name
            meta['hostile_used'] = True
        for j, nm in enumerate(nms):
            e = element(callees, meta)
            if rng.random() < 0.2:
                items.append(L.NamedList(nm, e))
            else:
                items.append(L.Named(nm, e))
            if rng.random() < (0.3 if isinstance(e, (L.Call, L.Tok, L.Pat)) else 0.85):
                items.append(L.Tok(rng.choice([';', '=', '+'])))
            if rng.random() < 0.12:
                items.append(element(callees, meta))   # an unnamed element next to names: discarded
        return L.Seq(tuple(items)) if len(items) > 1 else items[0]

    def unnamed_seq(callees, meta, lead=None):
        k = rng.choice([1, 1, 2, 3])
        items = [L.Tok(lead)] if lead else []
        for j in range(k):
            e = element(callees, meta)
            items.append(e)
            if j < k - 1 and not isinstance(e, (L.Call, L.Tok, L.Pat)) and rng.random() < 0.8:
                items.append(L.Tok(rng.choice([';', '=', '+'])))
        return L.Seq(tuple(items)) if len(items) > 1 else items[0]

    def override_seq(callees, meta, lead=None):
        e = element(callees, meta)
        ov = L.OverList(e) if rng.random() < 0.25 else L.Over(e)
        items = [L.Tok(lead or '<'), ov, L.Tok('>')]
        return L.Seq(tuple(items))

    def body(i, callees, meta):
        r = rng.random()
        if not callees:   # leaf rule
            if r < 0.35:
                return atom()
            if r < 0.6:
                return L.Named(attr_names(1)[0], atom())
            if r < 0.8:
                return L.Seq((atom(), atom(False)))
            nm = attr_names(2)
            return L.Seq((L.Named(nm[0], atom()), L.Opt(L.Named(nm[1], atom(False)))))
        if r < 0.36:
            return named_seq(callees, meta)
        if r < 0.54:
            return unnamed_seq(callees, meta)
        if r < 0.64:
            return override_seq(callees, meta)
        if r < 0.84:   # a choice of differently shaped options, told apart by a leading token
            leads = rng.sample(['a', 'b', 'c', 'let', '-'], rng.choice([2, 3]))
            opts = []
            for ld in leads:
                mk = rng.choice([named_seq, named_seq, unnamed_seq, override_seq])
                opts.append(mk(callees, meta, lead=ld))
            return L.Choice(tuple(opts))
        meta['random_body'] = True
        F = dict(G.FEATURES)
        return G.normalise(G.gen_exp(rng, rng.choice([2, 3]), callees, F, list(G.PATS)[:5]))

    rules = []
    meta = {'slice': slice_, 'hostile_kind': hostile_kind, 'hostile_name': hostile_name}
    shared_head = None
    leaf2 = rng.random() < 0.5
    conflict = {}
    if slice_ == 'conflict':
        # ONE class declared by two rules with DIFFERENT chains of bases and different named elements:
        # `start::P::Q = '+' x:.. ;  rK::P = '-' y:.. ;`  (which chain the class gets is not documented;
        # what is fixed is that a P built by either rule has exactly that rule's named elements)
        head = fresh(WORDS)
        q = fresh(BASEWORDS)
        chain_a = [q] + ([fresh(BASEWORDS)] if rng.random() < 0.3 else [])
        chain_b = [] if rng.random() < 0.6 else [fresh(BASEWORDS)]
        if rng.random() < 0.5:
            chain_a, chain_b = chain_b, chain_a
        j = rng.randrange(1, nr - 1) if nr > 2 else 1
        pool = rng.sample(ATTRS, 6)
        ka = rng.choice([1, 2, 3])
        conflict = {0: ('::'.join([head, *chain_a]), pool[:ka], '+'),
                    j: ('::'.join([head, *chain_b]), pool[ka:ka + rng.choice([1, 2, 3])], '-')}
        for ch in (chain_a, chain_b):
            for x, b_ in enumerate(ch):
                spec.chain.setdefault(b_, tuple(ch[x + 1:]))
        spec.chain.setdefault(head, tuple(chain_a))
        meta['conflict_heads'] = [head]
        no_base.add(head)
        meta['extra_starts'] = [names[j]]
    for i, n in enumerate(names):
        callees = names[i + 1:]
        if nr >= 4 and i == nr - 2 and leaf2:
            callees = []
        if i in conflict:
            cspec, cnames, lead = conflict[i]
            rmeta = {}
            b = named_seq(callees or [], rmeta, lead=lead, names_=cnames)
            meta.update(rmeta)
            rules.append(L.Rule(n, b, params=(cspec,)))
            continue
        rmeta = {}
        params = ()
        r = rng.random()
        is_leaf = not callees
        if is_leaf and r < 0.4 and slice_ != 'hostile':
            bt = rng.choice(BUILTINS)
            params = (bt,)
            b = builtin_body(rng, bt)
        else:
            b = body(i, callees, rmeta)
            if rng.random() < 0.25:   # direct recursion guarded by a token
                b = L.Choice((L.Seq((L.Tok('<'), L.Named('inner', L.Call(n)), L.Tok('>'))),
                              L.Group(b) if isinstance(b, L.Choice) else b))
                meta['recursive'] = True
            if r < 0.8 or i == 0 and rng.random() < 0.7:
                if slice_ == 'shared' and shared_head and rng.random() < 0.6:
                    head = shared_head
                    meta['shared_used'] = True
                else:
                    head = new_head()
                    if slice_ == 'shared' and shared_head is None:
                        shared_head = head
                params = (spec.spec_of(head),)
        meta.update(rmeta)
        rules.append(L.Rule(n, b, params=params))
    # rules WITH parameters that name no type (`r[1]`, `r[7, Foo]`, `r[k=1]`): the builder must leave
    # the plain AST at that place; only rules that were untyped anyway are converted, so the typed
    # shapes of the slice stay as generated
    if rng.random() < 0.5:
        untyped = [r for r in rules if not r.params]
        if not untyped and slice_ == 'fresh':   # no untyped rule: take the annotation off one
            cands = [r for r in rules[1:] if r.params and r.params[0] not in BUILTINS]
            if cands:
                untyped = [rng.choice(cands)]
                untyped[0].params = ()
        for r in untyped[:2]:
            kind = rng.choice(['number-first', 'number-then-word', 'keywords-only'])
            if kind == 'number-first':
                r.params = (rng.choice([1, 7, 42]),)
            elif kind == 'number-then-word':
                r.params = (rng.choice([1, 7, 42]), 'Foo' + sfx)
            else:
                r.kwparams = (('k', rng.choice([1, 2])),)
            meta.setdefault('nontype', []).append([r.name, kind])
    g = L.Grammar(rules)
    meta['chains'] = {k: list(v) for k, v in spec.chain.items()}
    meta['styles'] = [rng.choice(['::', '::', '[]']) for _ in rules]
    add_extra_params(g, meta, case_index, sfx)
    return g, meta


def extra_value(prng, sfx):
    """-> (value, kind) of one further rule parameter"""
    r = prng.random()
    if r < 0.30:
        w = prng.choice(EXTRA_WORDS)
        if w[0].isupper():     # looks like a class name (unique to the case, never declared)
            w += sfx
        return w, 'word'
    if r < 0.55:
        return prng.choice(EXTRA_QUOTED), 'quoted-string'
    if r < 0.85:
        return prng.choice(EXTRA_INTS), 'int'
    return prng.choice(EXTRA_FLOATS), 'float'


def add_extra_params(g, meta, case_index, sfx):
    """typed rules with FURTHER parameters after the type name, in the documented spellings
    `rule[Type, 'x']`, `rule(Type, 3)`, `rule[Type::Base, op='+']`, `rule(Type, 'x', 1, k=v)`:
    the parameters go to the semantic actions; the node is still built from the rule's value.
    Drawn from an RNG of its own (seeded by the grammar generated so far), so that the rest of the
    workload is the one generated without this class.  Also turns half of the bracket spellings
    into the parenthesis spelling."""
    prng = random.Random(h64('C07p', case_index, meta['slice'], typed_text(g, meta['styles'])))
    styles = meta['styles']
    for i, st in enumerate(styles):
        if st == '[]' and prng.random() < 0.5:
            styles[i] = '()'
    if prng.random() < 0.5:
        return
    for i, r in enumerate(g.rules):
        if rule_spec(r) is None or prng.random() < 0.4:
            continue
        shape = prng.choice(['positional', 'positional', 'keywords', 'both'])
        kinds = []
        if shape != 'keywords':
            vals = []
            for _ in range(prng.choice([1, 1, 2, 3])):
                v, kd = extra_value(prng, sfx)
                vals.append(v)
                kinds.append(kd)
            r.params = (r.params[0], *vals)
        if shape != 'positional':
            kws = []
            for k in prng.sample(EXTRA_KWNAMES, prng.choice([1, 1, 2])):
                v, kd = extra_value(prng, sfx)
                kws.append((k, v))
                kinds.append(kd)
            r.kwparams = tuple(kws)
        if styles[i] == '::':     # `r::A, 'x' = e ;` is not a spelling the grammar language takes
            styles[i] = prng.choice(['[]', '()'])
        meta.setdefault('extras', []).append([r.name, shape, kinds])


def builtin_body(rng, bt):
    if bt == 'int':
        return L.Pat(r'\d+')
    if bt == 'float':
        return L.Pat(rng.choice([r'\d+\.\d+', r'\d+']))
    if bt == 'str':
        return rng.choice([L.Seq((L.Tok('a'), L.Tok('b'))), L.Pat(r'[a-c]+'), L.Clo(L.Tok('a')), L.Pat(r'\d+')])
    if bt == 'bool':
        return rng.choice([L.Opt(L.Tok('a')), L.Pat(r'\d+'), L.Clo(L.Tok('b')), L.Pat(r'[xyz]')])
    return rng.choice([L.Clo(L.Tok('a')), L.Seq((L.Tok('a'), L.Tok('b'))), L.Pat(r'[a-c]+'),
                       L.PClo(L.Tok('b'))])


def rule_spec(r):
    """the type annotation of a rule: its first parameter when that is a string, else None"""
    return r.params[0] if r.params and isinstance(r.params[0], str) else None


def typed_text(g: L.Grammar, styles=None, name=None) -> str:
    """grammar text with `rule::A::B = e ;` (or `rule[A::B] = e ;`, `rule(A::B) = e ;`) annotations;
    further parameters of a typed rule follow the type in the bracket/parenthesis spellings"""
    out = []
    if name:
        out.append(f'@@grammar :: {name}')
    for i, r in enumerate(g.rules):
        st = (styles or [])[i] if styles and i < len(styles) else '::'
        sp = rule_spec(r)
        opn, cls = ('(', ')') if st == '()' else ('[', ']')
        if sp is not None:
            more = [L.param_text(x) for x in r.params[1:]] + [f'{k}={L.param_text(v)}' for k, v in r.kwparams]
            if st == '::' and not more:
                head = f'{r.name}::{sp}'
            else:
                head = f'{r.name}{opn}{", ".join([sp, *more])}{cls}'
        elif r.params or r.kwparams:   # parameters that name no type
            ps = [L.param_text(x) for x in r.params] + [f'{k}={L.param_text(v)}' for k, v in r.kwparams]
            head = f'{r.name}{opn}{", ".join(ps)}{cls}'
        else:
            head = r.name
        out.append(f'{head} = {L.txt(r.body)} ;')
    return '\n'.join(out) + '\n'


# ----------------------------------------------------------------------------- tagged oracle
class Tagged:
    __slots__ = ('spec', 'val', 'rule')

    def __init__(self, spec, val, rule=None):
        self.spec = spec
        self.val = val
        self.rule = rule

    def __repr__(self):
        return f'<{self.spec}>{self.val!r}'


class TagSemantics:
    """the documented semantic-action protocol: a method named like the rule (or _default) is called
    with (ast, *rule_params); ours only pairs the value with the annotation and the rule name"""

    def __init__(self, rule_names=()):
        self._rules = frozenset(rule_names)
        self.hits = {}   # kind of type-less parameter list -> actions run (evidence only)

    def __getattr__(self, name):
        if name.startswith('_') or name not in self.__dict__.get('_rules', ()):
            raise AttributeError(name)

        def action(ast, *args, **kwargs):
            if not args or not isinstance(args[0], str):
                hits = self.__dict__['hits']
                if args:
                    k = 'number-first' if len(args) == 1 else 'number-then-word'
                    hits[k] = hits.get(k, 0) + 1
                elif set(kwargs) - {'parseinfo'}:
                    hits['keywords-only'] = hits.get('keywords-only', 0) + 1
                return ast
            kw = set(kwargs) - {'parseinfo'}
            if len(args) > 1 or kw:   # a typed rule with further parameters after the type name
                hits = self.__dict__['hits']
                k = 'typed+' + ('both' if len(args) > 1 and kw else 'positional' if len(args) > 1 else 'keywords')
                hits[k] = hits.get(k, 0) + 1
            return Tagged(args[0], ast, name)
        action.__name__ = 'vt_tag_' + name
        self.__dict__[name] = action
        return action

    def _default(self, ast, *args, **kwargs):
        if not args or not isinstance(args[0], str):
            return ast
        return Tagged(args[0], ast)


def erase(v):
    if isinstance(v, Tagged):
        return erase(v.val)
    if isinstance(v, dict):
        return {k: erase(x) for k, x in v.items()}
    if isinstance(v, list):
        return [erase(x) for x in v]
    if isinstance(v, tuple):
        return tuple(erase(x) for x in v)
    return v


def same_plain(a, b) -> bool:
    """deep equality of plain ASTs (dict/list/tuple kinds kept apart, leaf types exact)"""
    if isinstance(a, dict) or isinstance(b, dict):
        return (isinstance(a, dict) and isinstance(b, dict) and set(a) == set(b)
                and all(same_plain(a[k], b[k]) for k in a))
    if isinstance(a, list) or isinstance(b, list):
        return (isinstance(a, list) and isinstance(b, list) and len(a) == len(b)
                and all(same_plain(x, y) for x, y in zip(a, b)))
    if isinstance(a, tuple) or isinstance(b, tuple):
        return (isinstance(a, tuple) and isinstance(b, tuple) and len(a) == len(b)
                and all(same_plain(x, y) for x, y in zip(a, b)))
    return type(a) is type(b) and a == b


def show(v, depth=0):
    """short rendering of a live value for messages"""
    from tatsu.objectmodel import BaseNode
    if depth > 6:
        return '...'
    if isinstance(v, Tagged):
        return f'<{v.spec}>' + show(v.val, depth + 1)
    if isinstance(v, BaseNode):
        pub = {k: x for k, x in vars(v).items() if not k.startswith('_') and k not in ('ctx', 'parseinfo')
               and not (k == 'ast' and x is None)}
        return f'{type(v).__name__}(' + ', '.join(f'{k}={show(x, depth + 1)}' for k, x in pub.items()) + ')'
    if isinstance(v, dict):
        return '{' + ', '.join(f'{k}: {show(x, depth + 1)}' for k, x in v.items()) + '}'
    if isinstance(v, list):
        return '[' + ', '.join(show(x, depth + 1) for x in v) + ']'
    if isinstance(v, tuple):
        return '(' + ', '.join(show(x, depth + 1) for x in v) + ')'
    return repr(v)


RESERVED_NODE_ATTRS = ('ast', 'ctx', 'parseinfo')


def shallow_same(mv, tv) -> bool:
    """one-level agreement of a live value with the expected one (kind, size, leaf equality)"""
    if isinstance(tv, Tagged):
        return not isinstance(mv, (dict, list, tuple)) and mv is not None
    if isinstance(tv, dict):
        return isinstance(mv, dict) and set(mv) == set(tv)
    if isinstance(tv, (list, tuple)):
        return isinstance(mv, type(tv) if type(tv) in (list, tuple) else (list if isinstance(tv, list) else tuple)) \
            and len(mv) == len(tv)
    return type(mv) is type(tv) and mv == tv


class Judge:
    """compares one live model value with the tagged tree; collects (sig, message) findings and
    evidence about what was seen"""

    def __init__(self, route, stale_names=(), module=None, hostile=None, own_names=None, shared_heads=(),
                 conflict_heads=(), declared_specs=None, extra_rules=None):
        self.route = route            # 'synth' | 'module'
        # rule name -> (shape, text of the further parameters) for typed rules that have parameters
        # after the type name: evidence, and named in the findings raised inside such a node
        self.extra_rules = extra_rules or {}
        self.inside: list[str] = []
        self.own_names = own_names or {}   # rule name -> names of the elements the rule itself defines
        self.shared_heads = set(shared_heads)   # classes declared by more than one rule
        self.conflict_heads = set(conflict_heads)   # ... with different chains of bases (MRO not judged)
        # rule name -> annotation in the grammar; given on the generated-parser route, where the
        # parameter the action received is itself under test (the model passes it whole)
        self.declared_specs = declared_specs
        self.stale = set(stale_names)  # class names declared with another chain earlier in this process
        self.module = module
        self.hostile = hostile
        self.findings: list[tuple[str, str]] = []
        self.ev: dict[str, int] = {}
        self.nodes: list[tuple] = []   # (live node, declared names) that passed the class checks
        self.maxdepth = 0

    def bump(self, k, n=1):
        self.ev[k] = self.ev.get(k, 0) + n

    def bad(self, sig, msg):
        if self.inside:
            msg += f' [inside the node of {self.inside[-1]}]'
        if not any(s == sig for s, _ in self.findings):
            self.findings.append((sig, msg))
        self.bump('finding:' + sig)

    # .................................................................
    def corr(self, mv, tv, path='$', depth=0, where=()):
        if isinstance(tv, Tagged) and tv.rule in self.extra_rules:
            shape, ptext = self.extra_rules[tv.rule]
            self.bump('extra_param_values_judged')
            self.bump('extra_param_values_judged:' + shape)
            self.inside.append(f'rule {tv.rule}, which has the further parameters {ptext} after the type name')
            try:
                return self.corr_(mv, tv, path, depth, where)
            finally:
                self.inside.pop()
        return self.corr_(mv, tv, path, depth, where)

    def corr_(self, mv, tv, path, depth, where):
        from tatsu.objectmodel import Node
        if isinstance(tv, Tagged):
            spec_ = tv.spec
            if self.declared_specs is not None and tv.rule in self.declared_specs:
                self.bump('params_compared_with_grammar')
                if self.declared_specs[tv.rule] != spec_:
                    self.bad('param-differs-from-grammar',
                             f'{path}: the action of rule {tv.rule} received the parameter {spec_!r}, the grammar '
                             f'(and the model route) say {self.declared_specs[tv.rule]!r}')
                    spec_ = self.declared_specs[tv.rule]
            names = spec_.split('::')
            if len(names) == 1 and names[0] in BUILTINS:
                return self.builtin(mv, tv, names[0], path)
            self.maxdepth = max(self.maxdepth, depth + 1)
            self.bump('nodes_expected')
            for w in set(where):
                self.bump('node_in:' + w)
            if len(where) >= 2 and where[-1] == 'list' and where[-2] == 'list':
                self.bump('node_in:nested-list')
            if not isinstance(mv, Node):
                return self.bad('type:not-a-node',
                                f'{path}: rule annotated {tv.spec} gave {type(mv).__name__} {show(mv)[:80]}, not a Node')
            cls = type(mv)
            if cls.__name__ != names[0]:
                return self.bad('type:wrong-class-name', f'{path}: annotated {tv.spec}, got class {cls.__name__}')
            mro = [c.__name__ for c in cls.__mro__]
            it = iter(mro)
            ok = all(any(n == m for m in it) for n in names)
            if self.route == 'module' and self.module is not None and getattr(self.module, names[0], None) is not cls:
                self.bad('module:class-not-from-module',
                         f'{path}: class {names[0]} is {cls.__module__}.{cls.__qualname__}, not the generated module\'s')
            conflicted = names[0] in self.conflict_heads
            if conflicted:
                # the class is declared with two different chains in this grammar: which one it gets is
                # not fixed by the documentation (first rule reduced / last rule declared): not judged
                self.bump('conflict_nodes')
                self.bump('conflict_mro:' + ('has-this-rules-chain' if ok else 'has-the-other-chain'))
            if not ok and conflicted:
                self.bump('flagged:conflicting-chains-mro-not-judged')
            elif not ok:
                if self.route == 'synth' and any(n in self.stale for n in names):
                    self.bad('bases:stale-synth-registry',
                             f'{path}: annotated {spec_}, class {names[0]} has MRO {mro[:len(names) + 2]}: a class '
                             f'of that name synthesized earlier in this process with other bases was reused')
                else:
                    self.bad('bases:mro-mismatch', f'{path}: annotated {spec_}, MRO is {mro[:len(names) + 3]}')
            else:
                self.bump(f'chain_len:{len(names)}')
                actual = []
                for m in mro:
                    if m in ('Node', 'SynthNode', 'BaseNode'):
                        break
                    if m != 'ModelBase':
                        actual.append(m)
                if actual == names:
                    self.nodes.append((mv, names))
                elif self.route == 'synth' and any(m in self.stale for m in actual):
                    self.bump('stale_class_with_undeclared_bases')
                else:
                    self.bump('class_with_undeclared_bases')
            inner = tv.val
            have = {k for k in vars(mv) if not k.startswith('_') and k not in RESERVED_NODE_ATTRS}
            if isinstance(inner, dict) and not self.keys_are_own(tv.rule, inner):
                # open corner: the value is the AST dict of an untyped callee, not (only) the rule's own
                # named elements (statement: `ast` holds the value; synthesized classes spread the keys)
                self.bump('flagged:dict-value-not-from-own-names')
                for k in inner:
                    if set(inner) & set(RESERVED_NODE_ATTRS):
                        # ... and one of the callee's names is a field of every node: not judged
                        self.bump('flagged:reserved-name-in-spread-dict')
                        break
                    if k in vars(mv):
                        self.corr(getattr(mv, k), inner[k], f'{path}.{k}', depth + 1, ())
                    elif isinstance(mv.ast, dict) and k in mv.ast:
                        self.corr(mv.ast[k], inner[k], f'{path}.ast[{k!r}]', depth + 1, ('dict',))
                    else:
                        self.bad('attrs:missing', f'{path}: value {k!r} of {tv.spec} is neither an attribute nor in .ast')
            elif isinstance(inner, dict):
                want = set(inner)
                self.bump('nodes_with_names')
                if conflicted:
                    self.bump(f'conflict_attrs_judged:{self.route}')
                clash = want & set(RESERVED_NODE_ATTRS)
                have |= clash        # fields every node has: judged by their value below
                alias = {}
                if self.route == 'module':
                    # a generated class cannot have a field called `class`, and declares `items`
                    # where the AST says `items_`: accept the sanitised spelling of the key, provided
                    # the value arrived there
                    for k in want - have:
                        for a in (k + '_', k.rstrip('_')):
                            if a and a != k and a in have and a not in want:
                                alias[k] = a
                                break
                missing = want - have - set(alias)
                extra = have - want - set(alias.values())
                if self.route == 'module':
                    extra = {k for k in extra if getattr(mv, k, None) is not None}
                if clash and (missing or extra or not all(shallow_same(getattr(mv, k, None), inner[k])
                                                          for k in clash)):
                    # one mechanism, judged as a whole: the element name is a field of every node
                    self.bad('attr-collision:node-api-name',
                             f'{path}: element name(s) {sorted(clash)} are fields of every node; {tv.spec} over '
                             f'{show(inner)[:100]} gave {show(mv)[:100]}')
                    return None
                if missing:
                    sig = 'attrs:missing' if self.route != 'module' else 'module:attrs-missing'
                    if self.route == 'module' and names[0] in self.shared_heads:
                        sig = 'module:shared-class-has-fields-of-one-rule'
                    self.bad(sig, f'{path}: {tv.spec} should have attributes {sorted(want)}, has {sorted(have)} '
                                  f'(missing {sorted(missing)})')
                if extra:
                    self.bad('attrs:extra', f'{path}: {tv.spec} has attributes {sorted(extra)} that are not named '
                                            f'elements of the rule ({sorted(want)})')
                for k in sorted(want & have):
                    self.corr(getattr(mv, k), inner[k], f'{path}.{k}', depth + 1, ())
                for k, a in sorted(alias.items()):
                    self.bump('module_field_alias')
                    if getattr(mv, a) is None and inner[k] is not None:
                        self.bad('module:field-name-differs-from-ast-key',
                                 f'{path}: the generated class {tv.spec.split("::")[0]} declares the field {a!r} for the '
                                 f'element the AST calls {k!r}; the value {show(inner[k])[:60]} never reaches it '
                                 f'(stays None, only in .ast)')
                    else:
                        self.corr(getattr(mv, a), inner[k], f'{path}.{a}', depth + 1, ())
            else:
                self.bump('nodes_without_names')
                extra = {k for k in have if getattr(mv, k, None) is not None} if self.route == 'module' else have
                if extra:
                    self.bad('attrs:extra', f'{path}: {tv.spec} (no named elements) has attributes {sorted(extra)}')
                self.corr(mv.ast, inner, f'{path}.ast', depth + 1, ())
            return None
        if isinstance(tv, dict):
            if not isinstance(mv, dict) or set(mv) != set(tv):
                return self.bad('value:differs', f'{path}: expected AST keys {sorted(tv)}, got {show(mv)[:100]}')
            for k in tv:
                self.corr(mv[k], tv[k], f'{path}[{k!r}]', depth, (*where, 'dict'))
            return None
        if isinstance(tv, (list, tuple)):
            kind = list if isinstance(tv, list) else tuple
            if not isinstance(mv, kind) or len(mv) != len(tv):
                return self.bad('value:differs', f'{path}: expected {show(tv)[:100]}, got {show(mv)[:100]}')
            for i, (a, b) in enumerate(zip(mv, tv)):
                self.corr(a, b, f'{path}[{i}]', depth, (*where, 'list' if kind is list else 'tuple'))
            return None
        if type(mv) is not type(tv) or mv != tv:
            return self.bad('value:differs', f'{path}: expected {tv!r}, got {show(mv)[:100]}')
        self.bump('leaves_compared')
        return None

    def keys_are_own(self, rule, inner):
        own = self.own_names.get(rule)
        if own is None:
            return True
        return all(k in own or k.rstrip('_') in own for k in inner)

    def builtin(self, mv, tv, bt, path):
        self.bump('builtin_expected:' + bt)
        inner = tv.val
        if bt == 'list':
            if type(mv) is not list:
                return self.bad('builtin:list-not-converted',
                                f'{path}: rule annotated list gave {type(mv).__name__} {show(mv)[:80]}, not list(value)')
            try:
                want = list(inner)
            except TypeError:
                return self.bump('builtin_unconvertible')
            if len(want) != len(mv):
                return self.bad('builtin:wrong-value', f'{path}: list({show(inner)[:60]}) expected, got {show(mv)[:60]}')
            for i, (a, b) in enumerate(zip(mv, want)):
                self.corr(a, b, f'{path}[{i}]', 0, ('list',))
            self.bump('builtin_ok:list')
            return None
        conv = {'int': int, 'float': float, 'str': str, 'bool': bool}[bt]
        plain = erase(inner)
        try:
            want = conv(plain)
        except (TypeError, ValueError):
            return self.bump('builtin_unconvertible')
        if type(mv) is not conv or mv != want:
            return self.bad(f'builtin:{bt}-not-converted' if type(mv) is not conv else 'builtin:wrong-value',
                            f'{path}: rule annotated {bt} over {plain!r} gave {show(mv)[:80]} ({type(mv).__name__}), '
                            f'expected {want!r}')
        self.bump('builtin_ok:' + bt)
        return None


# ----------------------------------------------------------------------------- live-tree monitors
def stored_nodes(holder):
    """Node objects stored in the attributes of `holder` (directly, in lists/tuples, in dicts),
    not looking through other nodes -> list of (node, container kinds, attribute name); the named
    attributes are searched before `ast`"""
    from tatsu.objectmodel import Node
    out = []
    seen = set()

    def go(v, kinds, attr):
        if isinstance(v, Node):
            if id(v) not in seen:
                seen.add(id(v))
                out.append((v, kinds, attr))
            return
        if isinstance(v, dict):
            for k, x in v.items():
                if isinstance(k, str) and k.startswith('_'):
                    continue
                go(x, (*kinds, 'dict'), attr)
        elif isinstance(v, (list, tuple)):
            for x in v:
                go(x, (*kinds, 'list'), attr)

    items = [(k, v) for k, v in vars(holder).items()
             if not k.startswith('_') and k not in ('ctx', 'parseinfo')]
    items.sort(key=lambda kv: kv[0] == 'ast')
    for k, v in items:
        go(v, (), k)
    return out


def top_nodes(value):
    from tatsu.objectmodel import Node
    out = []

    def go(v):
        if isinstance(v, Node):
            out.append(v)
        elif isinstance(v, dict):
            for x in v.values():
                go(x)
        elif isinstance(v, (list, tuple)):
            for x in v:
                go(x)
    go(value)
    return out


def structure_check(judge: Judge, root_value):
    """children()/parent invariants on the live tree; returns {id(root): [nodes reachable]}"""
    from tatsu.objectmodel import Node
    reach = {}
    for root in top_nodes(root_value):
        order = []
        stack = [(root, 1)]
        seen = set()
        while stack:
            node, depth = stack.pop()
            if id(node) in seen:
                judge.bump('shared_node_objects')
                continue
            seen.add(id(node))
            order.append(node)
            kids = stored_nodes(node)
            lazy_unset = sum(1 for c, _, _ in kids if c.parent is None)
            if 'children' in vars(node):
                judge.bad('attr-collision:node-api-name',
                          f'an element named children replaced the children() method of {show(node)[:100]}')
                continue
            try:
                ch = node.children()
            except Exception as e:  # noqa: BLE001
                judge.bad('children:exc:' + type(e).__name__, f'children() of {show(node)[:80]} raised {e!r}')
                continue
            judge.bump('children_calls')
            judge.bump('parent_unset_before_children_call', lazy_unset)
            chids = {id(c) for c in ch}
            for c, kinds, attr in kids:
                judge.bump('child_links_checked')
                for kd in set(kinds):
                    judge.bump('child_in:' + kd)
                if kinds.count('list') >= 2:
                    judge.bump('child_in:nested-list')
                if not kinds:
                    judge.bump('child_in:direct')
                if id(c) not in chids:
                    where = 'nested-list' if kinds.count('list') >= 2 else (kinds[-1] if kinds else 'direct')
                    if attr == 'ast' and judge.route == 'module':
                        where = 'only-in-ast-of-class-with-fields'
                    if attr != 'ast' and hasattr(Node, attr):
                        judge.bad('attr-collision:node-api-name',
                                  f'an element named {attr} (a name of the node API) is not searched by children() '
                                  f'of {show(node)[:100]}')
                        continue
                    judge.bad(f'children:missing:{where}',
                              f'{show(c)[:60]} is stored in an attribute of {show(node)[:100]} '
                              f'(container path {"/".join(kinds) or "direct"}) but is not in its children()')
                    continue
                if not isinstance(getattr(type(c), 'parent', None), property) or 'parent' in vars(c):
                    judge.bad('attr-collision:node-api-name',
                              f'an element named parent replaced the parent property of {show(c)[:100]}')
                elif c.parent is not node:
                    judge.bad('parent:not-holder', f'{show(c)[:60]}.parent is {show(c.parent)[:60]}, holder is '
                                                   f'{show(node)[:80]}')
                stack.append((c, depth + 1))
            extra = [c for c in ch if id(c) not in {id(k) for k, _, _ in kids}]
            if extra:
                judge.bump('children_not_stored', len(extra))
        reach[id(root)] = (root, order)
    return reach


def walker_check(judge: Judge, reach, rng):
    """DepthFirst / BreadthFirst / PostOrder walkers must reach every node, with a fresh instance
    and with an instance that has a history (reused_walker_check); a plain NodeWalker must
    dispatch on the class name or, failing that, on the declared bases (documented spellings)"""
    from tatsu import walkers as W
    kinds = [('depthfirst', W.DepthFirstWalker), ('breadthfirst', W.BreadthFirstWalker),
             ('postorder', W.PostOrderDepthFirstWalker)]
    roots = [r for r, _ in reach.values()]
    saved = rng.getstate()
    rr = random.Random(rng.random())   # histories of the reused instances: a stream of their own,
    rng.setstate(saved)                # the draws of the dispatch part stay as they were
    for root, order in reach.values():
        want = {id(n) for n in order}
        for label, base in kinds:
            seen = []

            def walk_Node(self, node, *a, _seen=seen, **k):
                _seen.append(node)
                return node
            cls = type('VT' + base.__name__, (base,), {'walk_Node': walk_Node})
            try:
                cls().walk(root)
            except Exception as e:  # noqa: BLE001
                judge.bad(f'walker:{label}:exc:{type(e).__name__}', f'{base.__name__}.walk raised {e!r} on '
                                                                   f'{show(root)[:100]}')
                continue
            got = [id(n) for n in seen]
            judge.bump(f'walker_visits:{label}', len(got))
            judge.bump(f'walker_runs:{label}')
            missing = want - set(got)
            if missing:
                miss = [n for n in order if id(n) in missing]
                judge.bad(f'walker:{label}:missed-nodes',
                          f'{base.__name__} visited {len(set(got))} of {len(want)} nodes of {show(root)[:100]}; '
                          f'missed e.g. {show(miss[0])[:60]}')
            if set(got) - want:
                judge.bad(f'walker:{label}:foreign-nodes', f'{base.__name__} visited nodes outside the tree')
            if len(got) != len(set(got)):
                judge.bump(f'walker_duplicates:{label}')
            if label == 'postorder' and not missing and len(got) == len(set(got)):
                pos = {i: k for k, i in enumerate(got)}
                for n in order:
                    for c, _, _ in stored_nodes(n):
                        if id(c) in pos and pos[id(c)] > pos[id(n)]:
                            judge.bad('walker:postorder:parent-before-child',
                                      'PostOrderDepthFirstWalker walked a parent before its child')
                            break
            if not missing:
                reused_walker_check(judge, root, order, label, base, rr, roots)
    # dispatch on declared class names / bases
    declared = {}
    for node, names in judge.nodes:
        declared[id(node)] = (node, names)
    if not declared:
        return
    allnames = sorted({n for _, names in declared.values() for n in names})
    chosen = [n for n in allnames if rng.random() < 0.5]
    methods = {}
    spell = {}
    for n in chosen:
        camel = rng.random() < 0.5
        spell[n] = 'camel' if camel else 'pythonic'
        mname = 'walk_' + n if camel else 'walk__' + pythonic(n)

        def m(self, node, *a, _n=n, **k):
            return _n
        methods[mname] = m

    def walk_Node(self, node, *a, **k):
        return 'Node'
    methods['walk_Node'] = walk_Node
    cls = type('VTDispatch', (W.NodeWalker,), methods)
    walker = cls()
    for node, names in declared.values():
        want = next((n for n in names if n in chosen), 'Node')
        try:
            got = walker.walk(node)
        except Exception as e:  # noqa: BLE001
            judge.bad('walker:dispatch:exc:' + type(e).__name__, f'NodeWalker.walk raised {e!r}')
            continue
        judge.bump('dispatch_checked')
        if want != 'Node':
            judge.bump('dispatch_via:' + ('own-class' if want == names[0] else 'declared-base'))
            judge.bump('dispatch_spelling:' + spell[want])
        if got != want:
            judge.bad('walker:dispatch:wrong-method',
                      f'NodeWalker with methods for {chosen} dispatched a {"::".join(names)} node to {got!r}, '
                      f'expected {want!r}')


class _StopWalk(Exception):
    """raised by our walk_Node to interrupt a traversal (a validating walker that refuses a node)"""


WALKER_ITER = {'depthfirst': 'iter_depthfirst', 'breadthfirst': 'iter_breadthfirst',
               'postorder': 'iter_postdepthfirst'}
WALKER_HISTORIES = ('walked', 'interrupted', 'iterated-to-the-end', 'iterated-partly', 'walked-another-tree')


def reused_walker_check(judge: Judge, root, order, label, base, rng, roots):
    """a walker INSTANCE that was used before (a complete walk, a walk interrupted by an exception
    from a walk_xxx method, its generator run to the end or abandoned after the first node, a walk
    of another tree) must still reach every node of `root` (a fresh instance was seen to)"""
    want = {id(n) for n in order}
    seen = []
    limit = [None]

    def walk_Node(self, node, *a, **k):
        if limit[0] is not None and len(seen) >= limit[0]:
            raise _StopWalk
        seen.append(node)
        return node
    w = type('VTReused' + base.__name__, (base,), {'walk_Node': walk_Node})()
    hist = rng.choice(WALKER_HISTORIES)
    others = [r for r in roots if r is not root]
    if hist == 'walked-another-tree' and not others:
        hist = 'walked'
    it_fn = getattr(w, WALKER_ITER[label], None)
    if hist.startswith('iterated') and not callable(it_fn):
        judge.bump('walker_reuse_generator_unobserved')   # the generator method is gone: not an alarm
        hist = 'interrupted'
    try:
        if hist == 'walked':
            w.walk(root)
        elif hist == 'interrupted':
            limit[0] = rng.randrange(len(order))    # refuses the node after that many
            try:
                w.walk(root)
            except _StopWalk:
                pass
            limit[0] = None
        elif hist == 'iterated-to-the-end':
            for _ in it_fn(root):
                pass
        elif hist == 'iterated-partly':
            it = iter(it_fn(root))
            next(it, None)
            it.close()       # what leaving a `for` loop early does to the generator
        else:
            w.walk(rng.choice(others))
    except Exception as e:  # noqa: BLE001
        judge.bad(f'walker:{label}:exc:{type(e).__name__}',
                  f'{base.__name__} ({hist}) raised {e!r} on {show(root)[:100]}')
        return
    seen.clear()
    try:
        w.walk(root)
    except Exception as e:  # noqa: BLE001
        judge.bad(f'walker:{label}:state-kept-from:{hist}',
                  f'{base.__name__}: walk() on an instance last used for {hist} raised {e!r} on '
                  f'{show(root)[:100]} (a fresh instance walks it)')
        return
    judge.bump(f'walker_reuse:{label}')
    judge.bump(f'walker_reuse_history:{hist}')
    got = {id(n) for n in seen}
    if want - got:
        miss = [n for n in order if id(n) not in got]
        judge.bad(f'walker:{label}:state-kept-from:{hist}',
                  f'{base.__name__}: walk() on an instance last used for {hist} visited {len(got & want)} of '
                  f'{len(want)} nodes of {show(root)[:100]} (a fresh instance reaches all); missed e.g. '
                  f'{show(miss[0])[:60]}')
    elif got - want:
        judge.bad(f'walker:{label}:state-kept-from:{hist}',
                  f'{base.__name__}: walk() on an instance last used for {hist} visited nodes outside the tree of '
                  f'{show(root)[:100]}')


# ----------------------------------------------------------------------------- generated module
_modcount = [0]


def load_model_module(src: str):
    _modcount[0] += 1
    name = f'vt_c07_genmodel_{_modcount[0]}'
    mod = types.ModuleType(name)
    sys.modules[name] = mod
    try:
        exec(compile(src, f'<{name}>', 'exec'), mod.__dict__)  # noqa: S102
    except BaseException:
        sys.modules.pop(name, None)
        raise
    return mod


def drop_module(mod):
    sys.modules.pop(getattr(mod, '__name__', ''), None)
