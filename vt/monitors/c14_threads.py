"""C14 THREADS monitor: K threads released by a barrier convert the SAME object (or distinct structures that
share a sub-object) to JSON through the entry points the check uses; every thread's result is compared with
the sequential result of the very same conversion, computed before the threads start.

Schedules (never wall clock; all decided by seeded counters):
 * sys.setswitchinterval(1e-6) for the whole run;
 * 'yields': a sys.monitoring LINE tool restricted (set_local_events) to the code objects of
   tatsu/util/asjson.py calls time.sleep(0) with a seeded per-thread probability: a yield at a statement
   boundary inside the conversion, i.e. at a place where CPython can really switch threads;
 * 'pause': in every round one designated thread is SUSPENDED at its N-th statement boundary inside
   tatsu/util/asjson.py (N seeded, 1..number of LINE events the sequential conversion produced) while all other
   threads run their whole conversion, then it is resumed.  This is one legal preemption made long: it decides
   deterministically what a lucky switch decides by chance.
Evidence: injected yields, forced pauses, observed thread switches, interleaving signatures.
"""
from __future__ import annotations

import random
import sys
import threading
import time

from ..common import h64

PAUSE_WATCHDOG_S = 120      # deadlock watchdog only: expiry is reported as a hang, never used as a verdict clock


class TState:
    __slots__ = ('idx', 'rng', 'lines', 'pause_at', 'on_pause', 'yields', 'pauses')

    def __init__(self, idx, rng):
        self.idx = idx
        self.rng = rng
        self.lines = 0
        self.pause_at = None
        self.on_pause = None
        self.yields = 0
        self.pauses = 0


class Sched:
    """yield injection / forced pause / switch observation through sys.monitoring LINE events of given code objects"""

    def __init__(self):
        self.mon = getattr(sys, 'monitoring', None)
        self.tool = None
        self.codes = []
        self.tls = threading.local()
        self.note = None
        self.reset(0.0)

    def reset(self, p):
        self.p = p
        self.last = None
        self.switches = []
        self.nswitch = 0

    def install(self, codes):
        if self.tool is not None:
            return True
        if self.mon is None:
            self.note = 'sys.monitoring missing'
            return False
        self.codes = list(codes)
        if not self.codes:
            self.note = 'no code objects to monitor'
            return False
        for tid in (3, 5, 2, 1):
            try:
                self.mon.use_tool_id(tid, 'vt-c14-threads')
                self.tool = tid
                break
            except ValueError:
                continue
        if self.tool is None:
            self.note = 'no free sys.monitoring tool id'
            return False
        self.mon.register_callback(self.tool, self.mon.events.LINE, self._line)
        return True

    def start(self):
        if self.tool is not None:
            for c in self.codes:
                self.mon.set_local_events(self.tool, c, self.mon.events.LINE)

    def stop(self):
        if self.tool is not None:
            for c in self.codes:
                self.mon.set_local_events(self.tool, c, 0)

    def uninstall(self):
        if self.tool is not None:
            self.stop()
            self.mon.register_callback(self.tool, self.mon.events.LINE, None)
            self.mon.free_tool_id(self.tool)
            self.tool = None

    def attach(self, idx, rng=None):
        st = TState(idx, rng or random.Random(0))
        self.tls.st = st
        return st

    def detach(self):
        self.tls.st = None

    def _line(self, code, line):
        st = getattr(self.tls, 'st', None)
        if st is None:
            return None
        st.lines += 1
        if st.idx != self.last:
            self.last = st.idx
            self.nswitch += 1
            if len(self.switches) < 96:
                self.switches.append((st.idx, code.co_name, line))
        if st.pause_at is not None and st.lines == st.pause_at:
            st.pause_at = None
            st.pauses += 1
            st.on_pause()
        elif self.p and st.idx >= 0 and st.rng.random() < self.p:
            st.yields += 1
            time.sleep(0)
        return None


def measure(sched, fn):
    """run fn() in the calling thread with the LINE counter attached, no injection -> (outcome, line events)"""
    st = sched.attach(-1)
    try:
        out = fn()
    finally:
        sched.detach()
    return out, st.lines


def run_threads(sched, jobs, rounds, p, schedule, pause_points, seed):
    """jobs: one zero-argument callable per thread (returns an already-canonical outcome, must not raise).
    pause_points: for schedule 'pause', per round (thread index, N) -> that thread is suspended at its N-th LINE
    event while the others convert.  -> dict(results[t][r], yields, pauses, switches, sig, nsig, hung, timeouts)"""
    k = len(jobs)
    results = [[None] * rounds for _ in range(k)]
    barrier = threading.Barrier(k)
    paused = [threading.Event() for _ in range(rounds)]
    resume = [threading.Event() for _ in range(rounds)]
    left = [k - 1] * rounds
    lock = threading.Lock()
    stats = {'yields': 0, 'pauses': 0, 'timeouts': 0, 'lines': 0}
    sched.reset(p)

    def body(t):
        st = sched.attach(t, random.Random(h64('c14-yield', seed, t)))
        try:
            for r in range(rounds):
                try:
                    barrier.wait(timeout=PAUSE_WATCHDOG_S)
                except threading.BrokenBarrierError:
                    with lock:
                        stats['timeouts'] += 1
                    return
                st.lines = 0
                if schedule == 'pause':
                    who, n = pause_points[r]
                    if t == who:
                        def on_pause(r=r):
                            paused[r].set()
                            if not resume[r].wait(timeout=PAUSE_WATCHDOG_S):
                                with lock:
                                    stats['timeouts'] += 1
                        st.pause_at, st.on_pause = n, on_pause
                        try:
                            results[t][r] = jobs[t]()
                        finally:
                            st.pause_at = None
                            paused[r].set()
                    else:
                        if not paused[r].wait(timeout=PAUSE_WATCHDOG_S):
                            with lock:
                                stats['timeouts'] += 1
                        try:
                            results[t][r] = jobs[t]()
                        finally:
                            with lock:
                                left[r] -= 1
                                last = left[r] == 0
                            if last:
                                resume[r].set()
                else:
                    results[t][r] = jobs[t]()
        finally:
            with lock:
                stats['yields'] += st.yields
                stats['pauses'] += st.pauses
            sched.detach()

    threads = [threading.Thread(target=body, args=(t,), daemon=True) for t in range(k)]
    old = sys.getswitchinterval()
    sys.setswitchinterval(1e-6)
    try:
        for th in threads:
            th.start()
        for th in threads:
            th.join(timeout=3 * PAUSE_WATCHDOG_S)
    finally:
        sys.setswitchinterval(old)
    hung = sum(1 for th in threads if th.is_alive())
    return {'results': results, 'yields': stats['yields'], 'pauses': stats['pauses'], 'timeouts': stats['timeouts'],
            'switches': sched.nswitch, 'sig': h64(sched.switches), 'nsig': len(sched.switches), 'hung': hung}
