"""C12 evidence monitor (b, pass-through / retry family): which rule evaluations were answered from the memo.

Never decides anything: the verdict on a parseinfo is judge_tree's (vt/checks/c12.py).  This module only says how
often the workload reached the situation "a node that an outer rule had returned unchanged (and so relabelled) was
handed out again from the memo of the inner rule", so that a run that never gets there is INCONCLUSIVE.

Two independent sources, compared with each other per execution:

* observed at the client boundary: a semantics object whose per-rule actions return the node unchanged (or delegate
  to ModelBuilderSemantics) and record (rule, start offset).  A rule evaluation answered from the memo runs no
  action, so the action events of a parse with memoization on are a sub-multiset of those with memoization off,
  and the difference is what the memo saved.
* predicted: REF (memo-free) run with a call tree (enter / success / failure per rule evaluation), over which a
  packrat memo is simulated: the first evaluation of (rule, offset) is computed, every later one that is not
  inside an answered evaluation is an answer.  Values keep their identity through REF's pass-through rules, which
  tells which answered nodes carried the label of another rule at that moment.

The classification counters (relabelled, in the result) are only taken from executions in which the observed action
events equal the predicted ones.
"""
from __future__ import annotations

from collections import Counter

from ..ref import PFail, Ref, RefBudget


class TreeRef(Ref):
    """REF that also logs the call tree: ('in', rule, pos) ... ('out', rule, pos, end, value) | ('fail', rule, pos)"""

    def __init__(self, *a, **kw):
        super().__init__(*a, **kw)
        self.tree = []

    def rule_body(self, r, pos):
        self.tree.append(('in', r.name, pos))
        try:
            res = super().rule_body(r, pos)
        except BaseException:
            self.tree.append(('fail', r.name, pos))
            raise
        self.tree.append(('out', r.name, pos, res[0], res[1]))
        return res


def tree_run(g, text, start, action=None, max_steps=30000):
    """-> TreeRef | None (budget / recursion / left recursion: no prediction)"""
    r = TreeRef(g, text, max_steps=max_steps, action=action)
    try:
        r.parse(start)
    except PFail:
        pass
    except (RefBudget, RecursionError):
        return None
    if r.lr_growth or r.lr_heads:
        return None
    return r


def _is_node(v):
    return isinstance(v, dict) or hasattr(v, 'typename')


def _kids(v):
    if isinstance(v, dict):
        return list(v.values())
    if hasattr(v, 'typename'):
        return [v.val]
    if isinstance(v, (list, tuple)):
        return list(v)
    return []


def predict(tree, memoizable, memo_on=True):
    """simulate a packrat memo over REF's call tree.

    -> {'computed': Counter[(rule,pos)] of successful evaluations that run their action,
        'all': Counter[(rule,pos)] of every successful evaluation (= memoization off),
        'answers': [{'rule','pos','end','node','relabelled','by','span_differs','depth'}] successful answers,
        'failed_answers': n,
        'result_nodes_last_answered_relabelled': n, 'result_nodes_passed_through': n}"""
    memo = {}
    labels = {}     # id(canonical node) -> [(rule, pos, end)] in the order the rules returned it
    last = {}       # id(canonical node) -> the last thing that happened to it: ('label', rule) | ('answer', rule, relabelled)
    alias = {}      # id(value of a re-evaluation REF made where the memo answers) -> canonical value
    computed, every = Counter(), Counter()
    answers = []
    failed_answers = 0
    skip = 0
    skip_key = None
    for ev in tree:
        kind = ev[0]
        if kind == 'out':
            every[(ev[1], ev[2])] += 1
        if skip:
            if kind == 'in':
                skip += 1
            else:
                skip -= 1
                if not skip and kind == 'out' and memo[skip_key][0] == 'ok':
                    alias[id(ev[4])] = memo[skip_key][2]
            continue
        if kind == 'in':
            key = (ev[1], ev[2])
            if memo_on and key in memo and ev[1] in memoizable:
                skip, skip_key = 1, key
                m = memo[key]
                if m[0] != 'ok':
                    failed_answers += 1
                    continue
                v = m[2]
                a = {'rule': key[0], 'pos': key[1], 'end': m[1], 'node': _is_node(v), 'relabelled': False,
                     'by': None, 'span_differs': False, 'depth': 0}
                if a['node']:
                    lab = labels.get(id(v), [])
                    if lab and lab[-1][0] != key[0]:
                        a['relabelled'] = True
                        a['by'] = lab[-1][0]
                        a['span_differs'] = lab[-1][1:] != (key[1], m[1])
                        a['depth'] = len({x[0] for x in lab}) - 1
                    last[id(v)] = ('answer', key[0], a['relabelled'])
                answers.append(a)
            continue
        key = (ev[1], ev[2])
        if kind == 'fail':
            memo[key] = ('fail',)
            continue
        _k, rule, pos, end, val = ev
        val = alias.get(id(val), val)
        memo[key] = ('ok', end, val)
        computed[key] += 1
        if _is_node(val):
            labels.setdefault(id(val), []).append((rule, pos, end))
            last[id(val)] = ('label', rule)
    decisive = passed = 0
    if tree and tree[-1][0] == 'out':
        seen = set()
        # canonicalise first, then descend into the canonical value's children
        todo = [tree[-1][4]]
        while todo:
            v = todo.pop()
            v = alias.get(id(v), v)
            if id(v) in seen:
                continue
            seen.add(id(v))
            if _is_node(v):
                if len({x[0] for x in labels.get(id(v), [])}) > 1:
                    passed += 1
                z = last.get(id(v))
                if z and z[0] == 'answer' and z[2]:
                    decisive += 1
            todo.extend(_kids(v))
    return {'computed': computed, 'all': every, 'answers': answers, 'failed_answers': failed_answers,
            'result_nodes_last_answered_relabelled': decisive, 'result_nodes_passed_through': passed}


class Recorder:
    """semantics object: one action per rule name in `rules`, found by the parser through getattr; each records
    (rule, parseinfo.pos) and returns the node unchanged, or what `inner._default` (ModelBuilderSemantics) makes"""

    def __init__(self, rules, inner=None):
        self._vt_rules = frozenset(rules)
        self._vt_inner = inner
        self.events = []

    def __getattr__(self, name):
        if name.startswith('_') or name not in self.__dict__.get('_vt_rules', ()):
            raise AttributeError(name)

        def action(ast, *args, parseinfo=None, **kwargs):
            self.events.append((name, getattr(parseinfo, 'pos', None)))
            if self._vt_inner is not None:
                return self._vt_inner._default(ast, *args, parseinfo=parseinfo, **kwargs)
            return ast

        # (the function keeps its own name: TatSu hands a callable whose __name__ is that of a builtin, e.g. a rule
        # called `sum`, the node only)
        return action

    def counts(self):
        return Counter(self.events)
