"""C19 helpers: hostile payload generator, strict comparison, round-trip oracle with witness
shrinking and mechanism signatures, RLE postcondition monitor (icontract), offline history checker,
child-process sender/reader for the stress workload.

Nothing here reimplements packetz: the oracles are equality with what was handed to the real
`pack`/`send`, a sequential model of "append-only log + one cursor per reader", and real-time
order/visibility conditions over recorded call/return stamps.
"""
from __future__ import annotations

import hashlib
import json
import os
import re
import sys
import time

# --------------------------------------------------------------------------- strict comparison


def same(exp, got) -> bool:
    """type-exact equality of JSON data (a Style/namespace/Packet never equals a str/dict)"""
    if exp is None:
        return got is None
    if isinstance(exp, bool):
        return type(got) is bool and got == exp
    if isinstance(exp, int):
        return type(got) is int and got == exp
    if isinstance(exp, float):
        return type(got) is float and got == exp
    if isinstance(exp, str):
        return type(got) is str and got == exp
    if isinstance(exp, list):
        return type(got) is list and len(got) == len(exp) and all(same(a, b) for a, b in zip(exp, got))
    if isinstance(exp, dict):
        return (type(got) is dict and len(got) == len(exp) and all(k in got for k in exp)
                and all(same(v, got[k]) for k, v in exp.items()))
    return False


# --------------------------------------------------------------------------- payload generator

RUN_CHARS = ['a', ' ', '~', '1', '0', 'é', '😀', '\n', '"', '\\', '{', '@', '_', '9', 'x']
CLEAN_FRAGS = [
    '~', '~~', '~~~', 'a', 'b', 'z', 'a', 'b', '0', '1', '7', '12', '405', ' ', '  ', '"', "'",
    '\\', '\\\\', '\\n', '\\u001b', '\n', '\r', '\t', '\x00', '\x1b', '\x1b[31m', '\x7f', '\x85',
    ' ', 'é', 'é', '😀', '𝒳', 'ß', '{', '}', '[', ']', ':', ',', '@', '_', '__class__',
    '"@"', '"@":', '"__class__":', '{"hash":"0000","data":', 'hash', 'null', 'F{', 'word', 'xy',
]
BAD_FRAGS = [
    '~a1~', '~a4~', '~15~', '~ 12~', '~é2~', '~"3~', '~b007~',
    '\\e', '\\e[1m', '\\x1b', '\\x1b[0m', '\\\\e', 'e',
]
BAD_PREFIX = ['f{x}', 'f{', 'f{red}text', 'f{bold red:on blue}', '\\e[1mX\\e[0m']
CLEAN_KEYS = ['k', 'a', 'n', 'seq', '~', 'aaaa', 'aaaaa1', '~~', '~a1~', 'id', 'to', 'data', 'hash',
              'é', '', ' ', '"', 'f{', '1', 'key with space', '😀', 'class', '__class', '@@']
BAD_KEYS = ['@', '__class__', 'x"@', '\\e', '@', '__class__']


def gen_string(rng, mode):
    r = rng.random()
    if r < 0.12:
        return rng.choice(['', 'plain', 'hello world', 'a', 'x1'])
    parts = []
    if mode == 'full' and rng.random() < 0.12:
        parts.append(rng.choice(BAD_PREFIX))
    for _ in range(rng.randint(1, 5)):
        q = rng.random()
        if q < 0.3:
            n = rng.choice([4, 4, 5, 5, 6, 9, 10, 11, 12, 20, 100])
            parts.append(rng.choice(RUN_CHARS) * n)
        elif q < 0.4:
            parts.append(rng.choice(RUN_CHARS) * rng.randint(1, 3))
        elif mode == 'full' and q < 0.55:
            parts.append(rng.choice(BAD_FRAGS))
        else:
            parts.append(rng.choice(CLEAN_FRAGS))
    return ''.join(parts)


def gen_scalar(rng):
    return rng.choice([None, True, False, 0, 1, -1, 7, 2 ** 70, -(2 ** 63), 1.5, -0.0, 1e300, 3.14, 1e-9])


def gen_key(rng, mode):
    if mode == 'full' and rng.random() < 0.2:
        return rng.choice(BAD_KEYS)
    if rng.random() < 0.15:
        return gen_string(rng, 'clean')[:12]
    return rng.choice(CLEAN_KEYS)


def gen_value(rng, depth, mode):
    r = rng.random()
    if depth <= 0 or r < 0.5:
        return gen_string(rng, mode) if rng.random() < 0.8 else gen_scalar(rng)
    if r < 0.75:
        return [gen_value(rng, depth - 1, mode) for _ in range(rng.randint(0, 4))]
    d = {}
    for _ in range(rng.randint(0, 4)):
        k = gen_key(rng, mode)
        v = gen_value(rng, depth - 1, mode)
        if k == '__class__' and rng.random() < 0.7:
            v = rng.choice(['Packet', 'zzz', 'PacketzQueue', None, 1, ''])
        d[k] = v
    return d


def gen_case(rng):
    """-> (mode, to, data)"""
    mode = 'full' if rng.random() < 0.3 else 'clean'
    data = gen_value(rng, 3, mode)
    r = rng.random()
    if r < 0.3:
        to = None
    elif r < 0.7:
        to = rng.choice(['r', 'worker-1', 'all', ''])
    else:
        to = gen_string(rng, mode)
    return mode, to, data


FEATURE_RES = {
    'tilde': re.compile(r'~'),
    'run4': re.compile(r'(.)\1{3,}', re.S),
    'run10': re.compile(r'(.)\1{9,}', re.S),
    'digit_next_to_run': re.compile(r'\d(\D)\1{3,}|(\D)\2{3,}\d', re.S),
    'digit_run': re.compile(r'(\d)\1{3,}'),
    'tilde_run': re.compile(r'~{4,}'),
    'backslash': re.compile(r'\\'),
    'quote': re.compile(r'"'),
    'esc_char': re.compile('\x1b'),
    'newline': re.compile(r'[\n\r \x85]'),
    'control': re.compile(r'[\x00-\x08\x0b-\x1f\x7f]'),
    'non_bmp': re.compile('[\U00010000-\U0010ffff]'),
    'non_ascii': re.compile(r'[^\x00-\x7f]'),
    'marker_text': re.compile(r'"@":|__class__'),
    'rle_like': re.compile(r'~[^~]\d+~'),
    'literal_backslash_e': re.compile(r'\\e|\\x1b'),
}


def strings_of(v, keys=True):
    if isinstance(v, str):
        yield v
    elif isinstance(v, list):
        for x in v:
            yield from strings_of(x, keys)
    elif isinstance(v, dict):
        for k, x in v.items():
            if keys:
                yield k
            yield from strings_of(x, keys)


def features(to, data) -> set[str]:
    f = set()
    for s in list(strings_of(data)) + ([to] if isinstance(to, str) else []):
        for name, rx in FEATURE_RES.items():
            if name not in f and rx.search(s):
                f.add(name)
    for s in list(strings_of(data, keys=False)) + ([to] if isinstance(to, str) else []):
        if s.startswith('f{'):
            f.add('f_brace_prefix')

    def walk(v, d):
        if isinstance(v, dict):
            f.add('dict')
            if d >= 2:
                f.add('nested3')
            for k, x in v.items():
                if k == '@' or k.endswith('"@'):
                    f.add('at_key')
                if k == '__class__':
                    f.add('class_key')
                walk(x, d + 1)
        elif isinstance(v, list):
            f.add('list')
            if d >= 2:
                f.add('nested3')
            for x in v:
                walk(x, d + 1)
    walk(data, 0)
    return f


# --------------------------------------------------------------------------- round-trip oracle


def roundtrip_outcome(to, data):
    """run the REAL pack/unpack; -> ('ok',) | ('exc', phase, cls, msg) | ('diff', field, got_repr)"""
    from tatsu.packetz.packet import Packet, pack, unpack
    p = Packet(to=to, data=data)
    try:
        line = pack(p)
    except Exception as e:  # noqa: BLE001  (every class is an observation)
        return ('exc', 'pack', type(e).__name__, str(e)[:120])
    if '\n' in line or '\r' in line:
        return ('diff', 'line-break-in-packed-line', repr(line)[:120])
    try:
        u = unpack(line)
    except Exception as e:  # noqa: BLE001
        return ('exc', 'unpack', type(e).__name__, str(e)[:120])
    if type(u) is not Packet:
        return ('diff', 'type', type(u).__name__)
    if getattr(u, 'id', None) != p.id:
        return ('diff', 'id', repr(getattr(u, 'id', None))[:80])
    if not same(to, getattr(u, 'to', None)):
        return ('diff', 'to', repr(getattr(u, 'to', None))[:120])
    if not same(data, getattr(u, 'data', None)):
        return ('diff', 'data', repr(getattr(u, 'data', None))[:160])
    return ('ok',)


def outcome_kind(o):
    if o[0] == 'ok':
        return 'ok'
    if o[0] == 'exc':
        return f'exc:{o[1]}:{o[2]}'
    return 'diff'


def value_cands(v):
    """smaller variants of a JSON value, most aggressive first"""
    if isinstance(v, str):
        n = len(v)
        if n == 0:
            return
        size = n // 2
        while size >= 1:
            for i in range(0, n, size):
                yield v[:i] + v[i + size:]
            size //= 2
    elif isinstance(v, list):
        yield from v
        for i in range(len(v)):
            yield v[:i] + v[i + 1:]
        for i, x in enumerate(v):
            for c in value_cands(x):
                yield v[:i] + [c] + v[i + 1:]
    elif isinstance(v, dict):
        yield from v.values()
        for k in v:
            yield {kk: vv for kk, vv in v.items() if kk != k}
        for k, x in v.items():
            if x is not None:
                yield {kk: (None if kk == k else vv) for kk, vv in v.items()}
            for c in value_cands(x):
                yield {kk: (c if kk == k else vv) for kk, vv in v.items()}
            for ck in value_cands(k):
                if ck not in v:
                    yield {(ck if kk == k else kk): vv for kk, vv in v.items()}


def shrink_case(to, data, budget=600):
    """1-minimal (w.r.t. value_cands) case with the same outcome kind, using the real code"""
    kind = outcome_kind(roundtrip_outcome(to, data))
    if kind == 'ok':
        return to, data, kind

    def bad(t, d):
        return outcome_kind(roundtrip_outcome(t, d)) == kind

    changed = True
    while changed and budget > 0:
        changed = False
        cands = []
        if to is not None:
            cands.append((None, data))
        if data is not None:
            cands.append((to, None))
        for t, d in cands:
            budget -= 1
            if bad(t, d):
                to, data, changed = t, d, True
                break
        if changed:
            continue
        for c in value_cands(data):
            budget -= 1
            if bad(to, c):
                data, changed = c, True
                break
            if budget <= 0:
                break
        if changed or budget <= 0:
            continue
        if isinstance(to, str):
            for c in value_cands(to):
                budget -= 1
                if bad(c, data):
                    to, changed = c, True
                    break
                if budget <= 0:
                    break
    return to, data, kind


def cclass(ch):
    if ch in '~\\"{}[]:,@_ \'':
        return ch
    if ch.isdigit():
        return '9'
    o = ord(ch)
    if o < 32 or o == 127:
        return 'C'
    if o > 127:
        return 'U'
    if ch.isalpha():
        return 'a'
    return 'p'


def shape(v):
    if isinstance(v, str):
        out = []
        for ch in v[:24]:
            c = cclass(ch)
            if len(out) >= 2 and out[-1] == c and out[-2] == c:
                continue
            out.append(c)
        return 'S(' + ''.join(out) + ')'
    if isinstance(v, list):
        return '[' + ','.join(shape(x) for x in v[:4]) + ']'
    if isinstance(v, dict):
        return '{' + ','.join(shape(k) + ':' + shape(x) for k, x in list(v.items())[:4]) + '}'
    return type(v).__name__


# a literal tilde, any character, digits, and then a tilde of either origin (literal, or the opening
# tilde of a run marker): the first decode pass reads "~c<digits>~" as a run
RLE_AMBIG = re.compile(r'~[^~]\d+(?:~|([^~])\1{3})', re.S)


def string_sig(s, value_position=True):
    if RLE_AMBIG.fullmatch(s):
        return 'roundtrip/rle:literal-tilde-char-digits-before-tilde'
    if s in ('\\e', '\\x1b'):
        return 'roundtrip/tty:literal-backslash-e'
    if value_position and s in ('f{', '\\e['):
        # fromjson() hands every string value starting with "f{" or a literal "\e[" to Style.from_raw
        return 'roundtrip/fromjson:style-prefix-string-sniffed-as-style'
    return None


def classify(to, data, kind):
    """mechanism signature of a MINIMAL failing case"""
    sig = None
    if data is None and isinstance(to, str):
        sig = string_sig(to)
    elif to is None:
        v = data
        while isinstance(v, list) and len(v) == 1:
            v = v[0]
        if isinstance(v, str):
            sig = string_sig(v)
        elif isinstance(v, dict) and len(v) == 1:
            (k, x), = v.items()
            if k == '__class__':
                sig = 'roundtrip/fromjson:class-key-in-plain-dict'
            elif k == '@' or k.endswith('"@'):
                sig = 'roundtrip/class-escape:at-key-rewritten'
            elif x is None or x == '':
                sig = string_sig(k, value_position=False)
            elif isinstance(x, str) and len(k) <= 1:
                sig = string_sig(x)
    if sig is None:
        rel = 'exc' if kind.startswith('exc') else 'diff'
        sig = f'roundtrip/other:{rel}:to={shape(to)}:data={shape(data)}'[:200]
    return sig


def shrink_rle_string(s, budget=300):
    """minimal string violating rle_decode(rle_encode(s)) == s on the real functions"""
    from tatsu.packetz import compact

    def bad(x):
        try:
            return compact.rle_decode(compact.rle_encode(x)) != x
        except Exception:  # noqa: BLE001
            return True
    if not bad(s):
        return s
    changed = True
    while changed and budget > 0:
        changed = False
        for c in value_cands(s):
            budget -= 1
            if bad(c):
                s, changed = c, True
                break
            if budget <= 0:
                break
    return s


class RLEMonitor:
    """online postcondition monitor on the real rle_encode: rle_decode(rle_encode(s)) == s.

    Installed by replacing the module attribute tatsu.packetz.compact.rle_encode (compact_value looks
    it up at call time).  Never changes the execution: the value returned to the caller is the real
    function's.  Uses icontract when importable, a plain wrapper otherwise.
    """

    def __init__(self):
        self.calls = 0
        self.compressed = 0
        self.escaped_tilde = 0
        self.violations: list[str] = []
        self.probe_errors = 0
        self.installed = False
        self.engine = 'none'
        self._real = None
        self._mod = None

    def install(self):
        try:
            from tatsu.packetz import compact
            real_enc, real_dec = compact.rle_encode, compact.rle_decode
        except Exception:  # noqa: BLE001
            return False
        self._mod, self._real = compact, real_enc
        try:
            import icontract

            class RLEPostconditionViolated(Exception):
                pass

            @icontract.ensure(lambda text, result: real_dec(result) == text,
                              error=lambda text: RLEPostconditionViolated(text))
            def checked(text):
                return real_enc(text)
            self.engine = 'icontract'
            violation_error = RLEPostconditionViolated
        except Exception:  # noqa: BLE001
            def checked(text):
                r = real_enc(text)
                if real_dec(r) != text:
                    raise AssertionError
                return r
            self.engine = 'plain'
            violation_error = AssertionError
        mon = self

        def rle_encode(text):
            mon.calls += 1
            try:
                r = checked(text)
            except violation_error:
                if len(mon.violations) < 2000:
                    mon.violations.append(text)
                r = real_enc(text)
            except Exception:  # noqa: BLE001  (the probe itself failed: unobserved, never an alarm)
                mon.probe_errors += 1
                r = real_enc(text)
            if len(r) < len(text):
                mon.compressed += 1
            if '~' in text:
                mon.escaped_tilde += 1
            return r
        rle_encode.__wrapped__ = real_enc
        compact.rle_encode = rle_encode
        self.installed = True
        return True

    def uninstall(self):
        if self.installed:
            self._mod.rle_encode = self._real
            self.installed = False


# --------------------------------------------------------------------------- stress payloads

_BLOCK = None


def _block():
    global _BLOCK  # noqa: PLW0603
    if _BLOCK is None:
        import random
        rng = random.Random(19)
        alphabet = 'abcdefghijklmnopqrstuvwxyz    ~~01239é😀"\\{}:,[]'
        _BLOCK = ''.join(rng.choice(alphabet) for _ in range(1024)).replace('\\e', '\\a')
        _BLOCK = RLE_AMBIG.sub('~~', _BLOCK)
    return _BLOCK


def stress_payload(sender: str, seq: int):
    """deterministic function of (sender, seq) so that any reader can verify the content"""
    h = int.from_bytes(hashlib.blake2b(f'{sender}/{seq}'.encode(), digest_size=4).digest(), 'big')
    kind = h % 100
    if seq == 7:
        pad = _block() * 300             # > the reader's 256 KiB buffer
    elif kind < 3:
        pad = _block() * 20              # > the writer's buffer
    elif kind < 30:
        pad = _block()[h % 512: h % 512 + (h >> 8) % 400]
    elif kind < 45:
        pad = 'é' * (4 + h % 9) + '~' * (h % 5) + ' ' * (h % 13)
    else:
        pad = ''
    return {'s': sender, 'n': seq, 'pad': pad}


def now() -> int:
    return time.monotonic_ns()


def item_of(p):
    """(sender, seq, content_ok) of a delivered packet, or ('?', repr, False)"""
    d = getattr(p, 'data', None)
    if type(d) is dict and type(d.get('s')) is str and type(d.get('n')) is int:
        ok = same(stress_payload(d['s'], d['n']), d) and getattr(p, 'to', None) == d['s']
        return [d['s'], d['n'], bool(ok)]
    return ['?', repr(d)[:80], False]


def sender_loop(path, name, n, yield_every=0):
    from tatsu.packetz.queue import PacketzQueue
    q = PacketzQueue(path)
    log = []
    for i in range(n):
        data = stress_payload(name, i)
        t0 = now()
        try:
            p = q.send(to=name, data=data)
            pid, exc = p.id, None
        except Exception as e:  # noqa: BLE001
            pid, exc = None, type(e).__name__
        t1 = now()
        log.append([name, i, t0, t1, pid, exc])
        if yield_every and i % yield_every == 0:
            time.sleep(0)
    return log


def reader_loop(path, stop_check, max_calls=1_000_000, pause=0.0005, q=None):
    """drain repeatedly until stop_check() is true, then drain once more (the final drain starts
    after every send has returned)"""
    from tatsu.packetz.queue import PacketzQueue
    if q is None:
        q = PacketzQueue(path)
    calls = []
    final_done = 0
    for _ in range(max_calls):
        final = stop_check()
        t0 = now()
        items, exc = [], None
        try:
            for p in q.receive():
                items.append(item_of(p))
        except Exception as e:  # noqa: BLE001
            exc = type(e).__name__
        t1 = now()
        if items or exc or final:
            calls.append({'t0': t0, 't1': t1, 'items': items, 'exc': exc, 'final': final})
        if final:
            final_done += 1
            if exc is None or final_done >= 3:
                break
        else:
            time.sleep(pause)
    return calls


# --------------------------------------------------------------------------- offline history checker


def check_history(sends, readers):
    """sends: [[sender, seq, t0, t1, id, exc]]   readers: {name: [call dicts]}
    -> (violations [(sig, what, detail)], stats dict)

    Per reader: no phantom, no altered content, no duplicate, real-time order preserved
    (ret(a) < call(b) => a before b), every send returned before a receive call started is delivered
    by the end of that call (calls that raised are exempt; the final drain is not).
    """
    out = []
    stats = {'sends_completed': 0, 'deliveries': 0, 'calls': 0, 'calls_nonempty': 0, 'exceptions': 0,
             'order_pairs_checked': 0, 'id_collisions_among_sends': 0, 'delivered_while_call_running': 0}
    info = {}
    by_id: dict = {}
    for s, n, t0, t1, pid, exc in sends:
        if exc is None:
            info[(s, n)] = (t0, t1, pid)
            by_id.setdefault(pid, []).append((s, n))
            stats['sends_completed'] += 1
        else:
            out.append(('queue/send-raised', f'send raised {exc} for ({s},{n})', {'send': [s, n, exc]}))
    colliding = {k for ks in by_id.values() if len(ks) > 1 for k in ks}
    stats['id_collisions_among_sends'] = len(colliding)
    done_sorted = sorted(((t1, k) for k, (t0, t1, pid) in info.items()))
    for rname, calls in readers.items():
        seen = set()
        max_call_t0 = -1
        max_call_key = None
        ptr = 0
        pending = set()
        for ci, c in enumerate(calls):
            stats['calls'] += 1
            if c['items']:
                stats['calls_nonempty'] += 1
            if c.get('exc'):
                stats['exceptions'] += 1
            for s, n, ok in c['items']:
                k = (s, n)
                stats['deliveries'] += 1
                if k not in info:
                    out.append(('queue/phantom-delivered', f'reader {rname} received a packet that was never '
                                f'sent: {k!r}', {'reader': rname, 'item': [s, n]}))
                    continue
                if not ok:
                    out.append(('queue/delivered-altered', f'reader {rname} received ({s},{n}) with altered '
                                'content', {'reader': rname, 'item': [s, n]}))
                if k in seen:
                    out.append(('queue/repeated', f'reader {rname} received ({s},{n}) twice',
                                {'reader': rname, 'item': [s, n]}))
                    continue
                seen.add(k)
                pending.discard(k)
                t0, t1, _ = info[k]
                if c.get('t0') is not None and t1 > c['t0']:
                    stats['delivered_while_call_running'] += 1   # the send completed after this call began
                stats['order_pairs_checked'] += 1
                if max_call_t0 > t1:
                    out.append(('queue/out-of-order', f'reader {rname} received {max_call_key} before ({s},{n}) '
                                'although the latter send had returned before the former began',
                                {'reader': rname, 'first': list(max_call_key), 'second': [s, n]}))
                if t0 > max_call_t0:
                    max_call_t0, max_call_key = t0, k
            last = ci == len(calls) - 1
            if c.get('t0') is None or (c.get('exc') and not c.get('final')):
                continue
            while ptr < len(done_sorted) and done_sorted[ptr][0] < c['t0']:
                k = done_sorted[ptr][1]
                if k not in seen:
                    pending.add(k)
                ptr += 1
            if c.get('exc') and pending and not last:
                continue   # a later (retried) final drain decides
            for k in sorted(pending):
                sig = 'queue/id-collision-dedup' if k in colliding else 'queue/lost'
                out.append((sig, f'reader {rname}: send {k} had returned before the receive call began '
                            f'but was not delivered by the end of that call (final={c.get("final")})'
                            + (' - its id equals the id of another packet' if k in colliding else ''),
                            {'reader': rname, 'item': list(k), 'id': info[k][2]}))
            seen |= pending   # report each loss once
            pending = set()
    return out, stats


# --------------------------------------------------------------------------- child processes


def main(argv):
    sys.path  # PYTHONPATH is inherited from the shard
    from vt.common import assert_repo_tatsu
    assert_repo_tatsu()
    try:
        from tatsu.util import debugging
        debugging.set_debugging('WARNING')
    except Exception:  # noqa: BLE001
        pass
    sys.setswitchinterval(1e-5)
    role = argv[1]
    if role == 'send':
        path, name, n, outfile = argv[2], argv[3], int(argv[4]), argv[5]
        log = sender_loop(path, name, n)
        res = {'sends': log}
    elif role == 'recv':
        path, stopfile, outfile = argv[2], argv[3], argv[4]
        deadline = time.monotonic() + float(argv[5])
        pause = float(argv[6]) if len(argv) > 6 else 0.0005
        def stop_check():
            if time.monotonic() > deadline:
                # never mistake the watchdog for "all sends have returned": that would fabricate losses
                raise SystemExit('reader child: deadline passed before the stop file appeared')
            return os.path.exists(stopfile)
        calls = reader_loop(path, stop_check, pause=pause)
        res = {'calls': calls}
    else:
        raise SystemExit(f'unknown role {role}')
    tmp = outfile + '.tmp'
    with open(tmp, 'w') as f:
        json.dump(res, f)
    os.replace(tmp, outfile)
    return 0


if __name__ == '__main__':
    sys.exit(main(sys.argv))
