"""C19 helpers: hostile payload generator, strict comparison, round-trip oracle with witness
shrinking and mechanism signatures, RLE postcondition monitor (icontract), offline history checker,
child-process sender/reader for the stress workload.

Nothing here reimplements packetz: the oracles are equality with what was handed to the real
`pack`/`send`, a sequential model of "append-only log + one cursor per reader", and real-time
order/visibility conditions over recorded call/return stamps.
"""
from __future__ import annotations

import hashlib
import json
import os
import re
import sys
import time

# --------------------------------------------------------------------------- strict comparison


def same(exp, got) -> bool:
    """type-exact equality of JSON data (a Style/namespace/Packet never equals a str/dict)"""
    if exp is None:
        return got is None
    if isinstance(exp, bool):
        return type(got) is bool and got == exp
    if isinstance(exp, int):
        return type(got) is int and got == exp
    if isinstance(exp, float):
        return type(got) is float and got == exp
    if isinstance(exp, str):
        return type(got) is str and got == exp
    if isinstance(exp, list):
        return type(got) is list and len(got) == len(exp) and all(same(a, b) for a, b in zip(exp, got))
    if isinstance(exp, dict):
        return (type(got) is dict and len(got) == len(exp) and all(k in got for k in exp)
                and all(same(v, got[k]) for k, v in exp.items()))
    return False


# --------------------------------------------------------------------------- payload generator

RUN_CHARS = ['a', ' ', '~', '1', '0', 'é', '😀', '\n', '"', '\\', '{', '@', '_', '9', 'x']
CLEAN_FRAGS = [
    '~', '~~', '~~~', 'a', 'b', 'z', 'a', 'b', '0', '1', '7', '12', '405', ' ', '  ', '"', "'",
    '\\', '\\\\', '\\n', '\\u001b', '\n', '\r', '\t', '\x00', '\x1b', '\x1b[31m', '\x7f', '\x85',
    ' ', 'é', 'é', '😀', '𝒳', 'ß', '{', '}', '[', ']', ':', ',', '@', '_', '__class__',
    '"@"', '"@":', '"__class__":', '{"hash":"0000","data":', 'hash', 'null', 'F{', 'word', 'xy',
]
BAD_FRAGS = [
    '~a1~', '~a4~', '~15~', '~ 12~', '~é2~', '~"3~', '~b007~',
    '\\e', '\\e[1m', '\\x1b', '\\x1b[0m', '\\\\e', 'e',
]
BAD_PREFIX = ['f{x}', 'f{', 'f{red}text', 'f{bold red:on blue}', '\\e[1mX\\e[0m']
CLEAN_KEYS = ['k', 'a', 'n', 'seq', '~', 'aaaa', 'aaaaa1', '~~', '~a1~', 'id', 'to', 'data', 'hash',
              'é', '', ' ', '"', 'f{', '1', 'key with space', '😀', 'class', '__class', '@@']
BAD_KEYS = ['@', '__class__', 'x"@', '\\e', '@', '__class__']


# --------------------------------------------------------------------------- code-point table
#
# Every class of code point that a JSON string can carry (RFC 8259: any Unicode scalar value; the
# text is UTF-8, so lone surrogates are not representable and the real pack() refuses them with
# UnicodeEncodeError - they stay outside, see ASSUMPTIONS).  Per class: `ranges` is the extent the
# random generator draws from, `sweep` the code points the deterministic sweep visits (the whole
# class when it is small, its edges and well-known members otherwise).


def _span(*pairs):
    return [cp for lo, hi in pairs for cp in range(lo, hi + 1)]


CP_TABLE = {
    # class: (ranges, sweep)
    'c0': ([(0x00, 0x1F)], _span((0x00, 0x1F))),
    'del': ([(0x7F, 0x7F)], [0x7F]),
    'c1': ([(0x80, 0x9F)], _span((0x80, 0x9F))),
    'linesep': ([(0x2028, 0x2029)], [0x2028, 0x2029]),
    'uspace': ([(0xA0, 0xA0), (0x1680, 0x1680), (0x2000, 0x200A), (0x202F, 0x202F), (0x205F, 0x205F),
                (0x3000, 0x3000)],
               [0xA0, 0x1680, 0x2000, 0x2003, 0x200A, 0x202F, 0x205F, 0x3000]),
    'format': ([(0xAD, 0xAD), (0x600, 0x605), (0x61C, 0x61C), (0x6DD, 0x6DD), (0x70F, 0x70F), (0x180E, 0x180E),
                (0x200B, 0x200F), (0x202A, 0x202E), (0x2060, 0x2064), (0x2066, 0x206F), (0xFEFF, 0xFEFF),
                (0xFFF9, 0xFFFB), (0x110BD, 0x110BD), (0x1D173, 0x1D17A), (0xE0001, 0xE0001), (0xE0020, 0xE007F)],
               [0xAD, 0x600, 0x61C, 0x180E, 0x200B, 0x200C, 0x200D, 0x200E, 0x200F, 0x202A, 0x202E, 0x2060,
                0x2064, 0x2066, 0x2069, 0xFEFF, 0xFFF9, 0xFFFB, 0x1D173, 0xE0001, 0xE0020, 0xE007F]),
    'combining': ([(0x300, 0x36F), (0x483, 0x489), (0x591, 0x5BD), (0x64B, 0x65F), (0x93C, 0x93C), (0xE31, 0xE31),
                   (0x1DC0, 0x1DFF), (0x20D0, 0x20F0), (0x3099, 0x309A), (0xFE00, 0xFE0F), (0xFE20, 0xFE2F),
                   (0xE0100, 0xE01EF)],
                  [0x300, 0x301, 0x308, 0x327, 0x34F, 0x36F, 0x489, 0x5BD, 0x64B, 0x93C, 0xE31, 0x1DC0, 0x20D0,
                   0x20E3, 0x3099, 0xFE00, 0xFE0F, 0xFE20, 0xE0100, 0xE01EF]),
    'nonchar': ([(0xFDD0, 0xFDEF), (0xFFFE, 0xFFFF)] + [(p * 0x10000 + 0xFFFE, p * 0x10000 + 0xFFFF)
                                                      for p in range(1, 17)],
                [0xFDD0, 0xFDEF, 0xFFFE, 0xFFFF, 0x1FFFE, 0x1FFFF, 0x8FFFE, 0xEFFFF, 0x10FFFE, 0x10FFFF]),
    'specials': ([(0xFFFC, 0xFFFD)], [0xFFFC, 0xFFFD]),
    'private': ([(0xE000, 0xF8FF), (0xF0000, 0xFFFFD), (0x100000, 0x10FFFD)],
                [0xE000, 0xE0B0, 0xF8FF, 0xF0000, 0xFFFFD, 0x100000, 0x10FFFD]),
    'astral': ([(0x10000, 0x1FFFD), (0x20000, 0x2FFFD), (0x30000, 0x3FFFD), (0xE0000, 0xE0000),
                (0xE0200, 0xEFFFD)],
               [0x10000, 0x103FF, 0x1D4B3, 0x1F1E6, 0x1F3FB, 0x1F468, 0x1F600, 0x1FFFD, 0x20000, 0x2FA1D,
                0x2FFFD, 0x30000, 0x3134A, 0x3FFFD, 0xE0000, 0xEFFFD]),
    # digits and numerics beyond ASCII (the run marker ~cN~ is read back with a digit pattern)
    'udigit': ([(0x660, 0x669), (0x6F0, 0x6F9), (0x966, 0x96F), (0xE50, 0xE59), (0xFF10, 0xFF19),
                (0x1D7CE, 0x1D7FF), (0xB2, 0xB3), (0xB9, 0xB9), (0x2460, 0x2473), (0x2150, 0x215F)],
               [0x660, 0x664, 0x669, 0x6F0, 0x966, 0xE50, 0xFF10, 0xFF14, 0xFF19, 0x1D7CE, 0x1D7FF, 0xB2, 0xB9,
                0x2460, 0x2155]),
    # compatibility look-alikes of the characters the encoding uses (~ \ " @ { } [ : e) and letters whose
    # case / normal form is another string
    'lookalike': ([(0xFF01, 0xFF0F), (0xFF1A, 0xFF5E), (0x2018, 0x201F), (0x2DC, 0x2DC), (0x223C, 0x223C),
                   (0xFE50, 0xFE6B)],
                  [0xFF5E, 0x2DC, 0x223C, 0x301C, 0xFF3C, 0xFE68, 0x2216, 0xFF02, 0x201C, 0x201D, 0x2033, 0xFF20,
                   0xFE6B, 0xFF5B, 0xFF5D, 0xFF3B, 0xFF1A, 0xFF45, 0x212F, 0xFF46, 0x212A, 0x130, 0x131, 0xDF,
                   0x1E9E, 0xFB01, 0x3A3, 0x3C2]),
    # plain letters of the BMP, the last scalar before and the first after the surrogate block
    'bmp': ([(0xA1, 0xAC), (0xAE, 0x2FF), (0x370, 0x482), (0x3041, 0x3096), (0x4E00, 0x9FFF), (0xAC00, 0xD7FF)],
            [0xA1, 0xE9, 0xFF, 0x100, 0x17F, 0x3A9, 0x416, 0x5D0, 0x627, 0x905, 0xE01, 0x3042, 0x4E00, 0x9FFF,
             0xAC00, 0xD7A3, 0xD7FF]),
}
CP_CLASSES = tuple(CP_TABLE)
CP_SWEEP = [(cls, cp) for cls, (_, sweep) in CP_TABLE.items() for cp in sweep]     # order is part of the plan


def _cls_regex(ranges, sweep):
    parts = [(lo, hi) for lo, hi in ranges] + [(cp, cp) for cp in sweep]
    return re.compile('[' + ''.join(f'\\U{lo:08x}-\\U{hi:08x}' if lo != hi else f'\\U{lo:08x}'
                                    for lo, hi in parts) + ']')


CP_CLASS_RES = {cls: _cls_regex(r, s) for cls, (r, s) in CP_TABLE.items()}
_CP_ANY = re.compile(r'[^\x20-\x7e]')


def cp_classes(to, data) -> set[str]:
    """the code-point classes present in the recipient, the keys and the string values"""
    out = set()
    for s in list(strings_of(data)) + ([to] if isinstance(to, str) else []):
        if _CP_ANY.search(s):
            for cls, rx in CP_CLASS_RES.items():
                if cls not in out and rx.search(s):
                    out.add(cls)
    return out


def cp_where(to, data, rx=_CP_ANY) -> set[str]:
    """where a character beyond printable ASCII sits: recipient / key / value / at depth >= 3"""
    out = set()
    if isinstance(to, str) and rx.search(to):
        out.add('recipient')

    def walk(v, d):
        if isinstance(v, str):
            if rx.search(v):
                out.add('value')
                if d >= 3:
                    out.add('value_depth3')
        elif isinstance(v, list):
            for x in v:
                walk(x, d + 1)
        elif isinstance(v, dict):
            for k, x in v.items():
                if rx.search(k):
                    out.add('key')
                    if d >= 2:
                        out.add('key_depth3')
                walk(x, d + 1)
    walk(data, 0)
    return out


# The contexts a code point c is put in: alone, in runs of its own (the run marker then carries c itself),
# and next to every character the encoding layers give a meaning to (RLE: tilde, digits, runs; tty: ESC,
# backslash, e, CSI tails; JSON: quote, backslash, punctuation; class escaping: "@": / __class__; fromjson: f{).
# (group, name, template); `{c}` is the code point.  The last group holds text the UNCHANGED tree is known
# not to round-trip (finding roundtrip/tty:literal-backslash-e): those cases are driven and classified, and
# must keep shrinking to that mechanism.
CP_CONTEXTS = [
    ('alone', 'alone', '{c}'),
    ('alone', 'inside_word', 'x{c}y'),
    ('alone', 'start_of_text', '{c}word'),
    ('alone', 'end_of_text', 'word{c}'),
    ('run', 'pair', '{c}{c}'),
    ('run', 'run3', '{c}{c}{c}'),
    ('run', 'run4', '{c}{c}{c}{c}'),
    ('run', 'run5_in_text', 'a{c}{c}{c}{c}{c}b'),
    ('run', 'run12', '{c}' * 12),
    ('run', 'run4_then_digit', '{c}{c}{c}{c}1'),
    ('run', 'digit_then_run5', '12{c}{c}{c}{c}{c}'),
    ('run', 'run4_between_tildes', '~{c}{c}{c}{c}~'),
    ('tilde', 'after_tilde', '~{c}'),
    ('tilde', 'before_tilde', '{c}~'),
    ('tilde', 'between_tildes', '~{c}~'),
    ('tilde', 'in_tilde_run', '~~~~{c}~~~~~'),
    ('tilde', 'marker_text_of_its_run', '~{c}4~'),
    ('tilde', 'in_count_of_marker_text', '~a{c}~'),
    ('tilde', 'in_count_of_marker_text2', '~a1{c}2~'),
    ('digit', 'after_digit', '7{c}'),
    ('digit', 'before_digit', '{c}7'),
    ('digit', 'between_digits', '10{c}24'),
    ('run_neighbour', 'after_run', 'aaaa{c}'),
    ('run_neighbour', 'before_run', '{c}aaaa'),
    ('run_neighbour', 'between_runs', 'aaaaa{c}bbbb'),
    ('run_neighbour', 'between_digit_runs', '1111{c}00000'),
    ('run_neighbour', 'between_space_runs', '     {c}    '),
    ('run_neighbour', 'between_nonascii_runs', 'éééé{c}😀😀😀😀'),
    ('esc', 'after_esc', '\x1b{c}'),
    ('esc', 'before_esc', '{c}\x1b'),
    ('esc', 'inside_csi', '\x1b[{c}m'),
    ('esc', 'before_csi_tail', '{c}[31m'),
    ('esc', 'sgr_written_with_it', '{c}31m red {c}0m'),
    ('esc', 'before_e', '{c}e'),
    ('esc', 'before_e_bracket', '{c}e[1m'),
    ('esc', 'after_escape_text', '\\u001b{c}'),
    ('quote', 'after_quote', '"{c}'),
    ('quote', 'before_quote', '{c}"'),
    ('quote', 'quoted', '"{c}"'),
    ('quote', 'single_quoted', "'{c}'"),
    ('backslash', 'after_backslash', '\\{c}'),
    ('backslash', 'before_backslash', '{c}\\'),
    ('backslash', 'between_double_backslashes', '\\\\{c}\\\\'),
    ('backslash', 'after_escape_n_text', '\\n{c}\\u'),
    ('punct', 'in_braces', '{{{c}}}'),
    ('punct', 'in_brackets', '[{c}]'),
    ('punct', 'json_text', '{{"k":"{c}"}}'),
    ('punct', 'around_line_breaks', '\n{c}\r\n{c}'),
    ('punct', 'envelope_text', '{{"hash":"0000","data":{c}}}'),
    ('marker', 'after_at_marker', '"@":{c}'),
    ('marker', 'inside_at_marker', '"@{c}":'),
    ('marker', 'after_class_marker', '__class__{c}'),
    ('marker', 'inside_class_marker', '"__class__{c}":'),
    ('marker', 'f_brace_not_first', '{c}f{{x}}'),
    ('known_bad', 'before_literal_backslash_e', '{c}\\e'),
]
CP_CLEAN_CONTEXTS = [x for x in CP_CONTEXTS if x[0] != 'known_bad']
CP_CTX_GROUPS = tuple(dict.fromkeys(g for g, _, _ in CP_CONTEXTS))


def cp_text(template, c):
    """the template with {c} replaced by the code point ({{ and }} are literal braces)"""
    out, i = [], 0
    while i < len(template):
        if template.startswith('{c}', i):
            out.append(c)
            i += 3
        elif template.startswith('{{', i) or template.startswith('}}', i):
            out.append(template[i])
            i += 2
        else:
            out.append(template[i])
            i += 1
    return ''.join(out)


# where the text goes: recipient, the payload itself, list elements, dict values and dict KEYS down to
# depth 4, the same text in several places of one packet
CP_POSITIONS = [
    ('recipient', lambda s: (s, {'n': 1})),
    ('data', lambda s: (None, s)),
    ('list_element', lambda s: ('r', ['a', s, 1])),
    ('dict_value', lambda s: ('r', {'k': s})),
    ('dict_key', lambda s: (None, {s: 1})),
    ('value_depth4', lambda s: ('worker-1', {'a': [{'b': {'c': s}}]})),
    ('key_depth3', lambda s: ('r', [{'a': {s: [None]}}])),
    ('key_and_value', lambda s: (None, {s: s})),
    ('recipient_and_data', lambda s: (s, [s, {s: s}])),
    ('mixed_with_runs', lambda s: ('all', {'pre': 'aaaa~1', s + 'k': [s + '~', 1.5, {'q': '~~' + s}]})),
]


def cp_sweep_plan(seed, shard, of, every_position):
    """the sweep cases of one shard: [(cls, cp, group, ctx name, position name, to, data)].

    A code point belongs to exactly one shard (its index in CP_SWEEP mod `of`).  Each is put in EVERY
    context; the position rotates with (code point, context, seed) unless every_position (thorough).
    """
    out = []
    npos = len(CP_POSITIONS)
    for i, (cls, cp) in enumerate(CP_SWEEP):
        if i % of != shard:
            continue
        c = chr(cp)
        for j, (group, name, template) in enumerate(CP_CONTEXTS):
            s = cp_text(template, c)
            if every_position and group != 'known_bad':
                ps = range(npos)
            else:
                ps = [(i * 7 + j * 3 + seed) % npos]
            for p in ps:
                pname, build = CP_POSITIONS[p]
                to, data = build(s)
                out.append((cls, cp, group, name, pname, to, data))
    return out


_CP_STRINGS = None


def cp_strings():
    """every clean (code point x context) text, in plan order (pads of the queue workloads)"""
    global _CP_STRINGS  # noqa: PLW0603
    if _CP_STRINGS is None:
        _CP_STRINGS = [cp_text(t, chr(cp)) for _, cp in CP_SWEEP for _, _, t in CP_CLEAN_CONTEXTS]
    return _CP_STRINGS


def wide_pad(k: int) -> str:
    """deterministic text from the code-point table for record number k of a queue workload"""
    ss = cp_strings()
    return ss[(k * 2654435761) % len(ss)]


def gen_wide_char(rng):
    """one code point: class uniformly, then uniformly over the class's whole extent"""
    ranges, sweep = CP_TABLE[rng.choice(CP_CLASSES)]
    if rng.random() < 0.3:
        return chr(rng.choice(sweep))
    lo, hi = rng.choice(ranges)
    return chr(rng.randint(lo, hi))


_WIDE_NEIGHBOURS = ['~', '~~', '1', '40', 'aaaa', '    ', '\x1b', '\x1b[', '"', '\\', '\\\\', '[1m', '{', ':', 'e', '@']


def gen_wide_piece(rng):
    c = gen_wide_char(rng)
    r = rng.random()
    if r < 0.3:
        return c
    if r < 0.5:
        return c * rng.choice([2, 3, 4, 4, 5, 9, 10, 11, 30])
    if r < 0.65:
        return c + gen_wide_char(rng)
    n = rng.choice(_WIDE_NEIGHBOURS)
    if n == 'e':
        return c + n            # never a piece that starts with e: the part before may end in a backslash
    return rng.choice([n + c, c + n, n + c + n])


def gen_string(rng, mode):
    r = rng.random()
    if r < 0.12:
        return rng.choice(['', 'plain', 'hello world', 'a', 'x1'])
    parts = []
    if mode == 'full' and rng.random() < 0.12:
        parts.append(rng.choice(BAD_PREFIX))
    for _ in range(rng.randint(1, 5)):
        q = rng.random()
        if q < 0.3:
            n = rng.choice([4, 4, 5, 5, 6, 9, 10, 11, 12, 20, 100])
            parts.append(rng.choice(RUN_CHARS) * n)
        elif q < 0.4:
            parts.append(rng.choice(RUN_CHARS) * rng.randint(1, 3))
        elif mode == 'full' and q < 0.55:
            parts.append(rng.choice(BAD_FRAGS))
        elif q >= 0.88:
            parts.append(gen_wide_piece(rng))       # any class of code point JSON can carry
        else:
            parts.append(rng.choice(CLEAN_FRAGS))
    return ''.join(parts)


def gen_scalar(rng):
    return rng.choice([None, True, False, 0, 1, -1, 7, 2 ** 70, -(2 ** 63), 1.5, -0.0, 1e300, 3.14, 1e-9])


def gen_key(rng, mode):
    if mode == 'full' and rng.random() < 0.2:
        return rng.choice(BAD_KEYS)
    if rng.random() < 0.15:
        return gen_string(rng, 'clean')[:12]
    return rng.choice(CLEAN_KEYS)


def gen_value(rng, depth, mode):
    r = rng.random()
    if depth <= 0 or r < 0.5:
        return gen_string(rng, mode) if rng.random() < 0.8 else gen_scalar(rng)
    if r < 0.75:
        return [gen_value(rng, depth - 1, mode) for _ in range(rng.randint(0, 4))]
    d = {}
    for _ in range(rng.randint(0, 4)):
        k = gen_key(rng, mode)
        v = gen_value(rng, depth - 1, mode)
        if k == '__class__' and rng.random() < 0.7:
            v = rng.choice(['Packet', 'zzz', 'PacketzQueue', None, 1, ''])
        d[k] = v
    return d


def gen_case(rng):
    """-> (mode, to, data)"""
    mode = 'full' if rng.random() < 0.3 else 'clean'
    data = gen_value(rng, 3, mode)
    r = rng.random()
    if r < 0.3:
        to = None
    elif r < 0.7:
        to = rng.choice(['r', 'worker-1', 'all', ''])
    else:
        to = gen_string(rng, mode)
    return mode, to, data


FEATURE_RES = {
    'tilde': re.compile(r'~'),
    'run4': re.compile(r'(.)\1{3,}', re.S),
    'run10': re.compile(r'(.)\1{9,}', re.S),
    'digit_next_to_run': re.compile(r'\d(\D)\1{3,}|(\D)\2{3,}\d', re.S),
    'digit_run': re.compile(r'(\d)\1{3,}'),
    'tilde_run': re.compile(r'~{4,}'),
    'backslash': re.compile(r'\\'),
    'quote': re.compile(r'"'),
    'esc_char': re.compile('\x1b'),
    'newline': re.compile(r'[\n\r \x85]'),
    'control': re.compile(r'[\x00-\x08\x0b-\x1f\x7f]'),
    'non_bmp': re.compile('[\U00010000-\U0010ffff]'),
    'non_ascii': re.compile(r'[^\x00-\x7f]'),
    'marker_text': re.compile(r'"@":|__class__'),
    'rle_like': re.compile(r'~[^~]\d+~'),
    'literal_backslash_e': re.compile(r'\\e|\\x1b'),
}


def strings_of(v, keys=True):
    if isinstance(v, str):
        yield v
    elif isinstance(v, list):
        for x in v:
            yield from strings_of(x, keys)
    elif isinstance(v, dict):
        for k, x in v.items():
            if keys:
                yield k
            yield from strings_of(x, keys)


def features(to, data) -> set[str]:
    f = set()
    for s in list(strings_of(data)) + ([to] if isinstance(to, str) else []):
        for name, rx in FEATURE_RES.items():
            if name not in f and rx.search(s):
                f.add(name)
    for s in list(strings_of(data, keys=False)) + ([to] if isinstance(to, str) else []):
        if s.startswith('f{'):
            f.add('f_brace_prefix')

    def walk(v, d):
        if isinstance(v, dict):
            f.add('dict')
            if d >= 2:
                f.add('nested3')
            for k, x in v.items():
                if k == '@' or k.endswith('"@'):
                    f.add('at_key')
                if k == '__class__':
                    f.add('class_key')
                walk(x, d + 1)
        elif isinstance(v, list):
            f.add('list')
            if d >= 2:
                f.add('nested3')
            for x in v:
                walk(x, d + 1)
    walk(data, 0)
    return f


# --------------------------------------------------------------------------- round-trip oracle


def roundtrip_outcome(to, data):
    """run the REAL pack/unpack; -> ('ok',) | ('exc', phase, cls, msg) | ('diff', field, got_repr)"""
    from tatsu.packetz.packet import Packet, pack, unpack
    p = Packet(to=to, data=data)
    try:
        line = pack(p)
    except Exception as e:  # noqa: BLE001  (every class is an observation)
        return ('exc', 'pack', type(e).__name__, str(e)[:120])
    if '\n' in line or '\r' in line:
        return ('diff', 'line-break-in-packed-line', repr(line)[:120])
    try:
        u = unpack(line)
    except Exception as e:  # noqa: BLE001
        return ('exc', 'unpack', type(e).__name__, str(e)[:120])
    if type(u) is not Packet:
        return ('diff', 'type', type(u).__name__)
    if getattr(u, 'id', None) != p.id:
        return ('diff', 'id', repr(getattr(u, 'id', None))[:80])
    if not same(to, getattr(u, 'to', None)):
        return ('diff', 'to', repr(getattr(u, 'to', None))[:120])
    if not same(data, getattr(u, 'data', None)):
        return ('diff', 'data', repr(getattr(u, 'data', None))[:160])
    return ('ok',)


def outcome_kind(o):
    if o[0] == 'ok':
        return 'ok'
    if o[0] == 'exc':
        return f'exc:{o[1]}:{o[2]}'
    return 'diff'


def value_cands(v):
    """smaller variants of a JSON value, most aggressive first"""
    if isinstance(v, str):
        n = len(v)
        if n == 0:
            return
        size = n // 2
        while size >= 1:
            for i in range(0, n, size):
                yield v[:i] + v[i + size:]
            size //= 2
    elif isinstance(v, list):
        yield from v
        for i in range(len(v)):
            yield v[:i] + v[i + 1:]
        for i, x in enumerate(v):
            for c in value_cands(x):
                yield v[:i] + [c] + v[i + 1:]
    elif isinstance(v, dict):
        yield from v.values()
        for k in v:
            yield {kk: vv for kk, vv in v.items() if kk != k}
        for k, x in v.items():
            if x is not None:
                yield {kk: (None if kk == k else vv) for kk, vv in v.items()}
            for c in value_cands(x):
                yield {kk: (c if kk == k else vv) for kk, vv in v.items()}
            for ck in value_cands(k):
                if ck not in v:
                    yield {(ck if kk == k else kk): vv for kk, vv in v.items()}


def shrink_case(to, data, budget=600):
    """1-minimal (w.r.t. value_cands) case with the same outcome kind, using the real code"""
    kind = outcome_kind(roundtrip_outcome(to, data))
    if kind == 'ok':
        return to, data, kind

    def bad(t, d):
        return outcome_kind(roundtrip_outcome(t, d)) == kind

    changed = True
    while changed and budget > 0:
        changed = False
        cands = []
        if to is not None:
            cands.append((None, data))
        if data is not None:
            cands.append((to, None))
        for t, d in cands:
            budget -= 1
            if bad(t, d):
                to, data, changed = t, d, True
                break
        if changed:
            continue
        for c in value_cands(data):
            budget -= 1
            if bad(to, c):
                data, changed = c, True
                break
            if budget <= 0:
                break
        if changed or budget <= 0:
            continue
        if isinstance(to, str):
            for c in value_cands(to):
                budget -= 1
                if bad(c, data):
                    to, changed = c, True
                    break
                if budget <= 0:
                    break
    return to, data, kind


def cclass(ch):
    if ch in '~\\"{}[]:,@_ \'':
        return ch
    if ch.isdigit():
        return '9'
    o = ord(ch)
    if o < 32 or o == 127:
        return 'C'
    if o > 127:
        return 'U'
    if ch.isalpha():
        return 'a'
    return 'p'


def shape(v):
    if isinstance(v, str):
        out = []
        for ch in v[:24]:
            c = cclass(ch)
            if len(out) >= 2 and out[-1] == c and out[-2] == c:
                continue
            out.append(c)
        return 'S(' + ''.join(out) + ')'
    if isinstance(v, list):
        return '[' + ','.join(shape(x) for x in v[:4]) + ']'
    if isinstance(v, dict):
        return '{' + ','.join(shape(k) + ':' + shape(x) for k, x in list(v.items())[:4]) + '}'
    return type(v).__name__


# a literal tilde, any character, digits, and then a tilde of either origin (literal, or the opening
# tilde of a run marker): the first decode pass reads "~c<digits>~" as a run
RLE_AMBIG = re.compile(r'~[^~]\d+(?:~|([^~])\1{3})', re.S)


def string_sig(s, value_position=True):
    if RLE_AMBIG.fullmatch(s):
        return 'roundtrip/rle:literal-tilde-char-digits-before-tilde'
    if s in ('\\e', '\\x1b'):
        return 'roundtrip/tty:literal-backslash-e'
    if value_position and s in ('f{', '\\e['):
        # fromjson() hands every string value starting with "f{" or a literal "\e[" to Style.from_raw
        return 'roundtrip/fromjson:style-prefix-string-sniffed-as-style'
    if len(s) == 1 and _CP_ANY.match(s):
        # the minimal failing text is ONE character beyond printable ASCII: the mechanism is that character
        # class (the message names the code point)
        classes = [c for c, rx in CP_CLASS_RES.items() if rx.match(s)]
        return 'roundtrip/single-character:' + ('+'.join(classes) if classes else 'other-non-ascii')
    return None


def classify(to, data, kind):
    """mechanism signature of a MINIMAL failing case"""
    sig = None
    if data is None and isinstance(to, str):
        sig = string_sig(to)
    elif to is None:
        v = data
        while isinstance(v, list) and len(v) == 1:
            v = v[0]
        if isinstance(v, str):
            sig = string_sig(v)
        elif isinstance(v, dict) and len(v) == 1:
            (k, x), = v.items()
            if k == '__class__':
                sig = 'roundtrip/fromjson:class-key-in-plain-dict'
            elif k == '@' or k.endswith('"@'):
                sig = 'roundtrip/class-escape:at-key-rewritten'
            elif x is None or x == '':
                sig = string_sig(k, value_position=False)
            elif isinstance(x, str) and len(k) <= 1:
                sig = string_sig(x)
    if sig is None:
        rel = 'exc' if kind.startswith('exc') else 'diff'
        sig = f'roundtrip/other:{rel}:to={shape(to)}:data={shape(data)}'[:200]
    return sig


def shrink_rle_string(s, budget=300):
    """minimal string violating rle_decode(rle_encode(s)) == s on the real functions"""
    from tatsu.packetz import compact

    def bad(x):
        try:
            return compact.rle_decode(compact.rle_encode(x)) != x
        except Exception:  # noqa: BLE001
            return True
    if not bad(s):
        return s
    changed = True
    while changed and budget > 0:
        changed = False
        for c in value_cands(s):
            budget -= 1
            if bad(c):
                s, changed = c, True
                break
            if budget <= 0:
                break
    return s


class RLEMonitor:
    """online postcondition monitor on the real rle_encode: rle_decode(rle_encode(s)) == s.

    Installed by replacing the module attribute tatsu.packetz.compact.rle_encode (compact_value looks
    it up at call time).  Never changes the execution: the value returned to the caller is the real
    function's.  Uses icontract when importable, a plain wrapper otherwise.
    """

    def __init__(self):
        self.calls = 0
        self.compressed = 0
        self.escaped_tilde = 0
        self.violations: list[str] = []
        self.probe_errors = 0
        self.installed = False
        self.engine = 'none'
        self._real = None
        self._mod = None

    def install(self):
        try:
            from tatsu.packetz import compact
            real_enc, real_dec = compact.rle_encode, compact.rle_decode
        except Exception:  # noqa: BLE001
            return False
        self._mod, self._real = compact, real_enc
        try:
            import icontract

            class RLEPostconditionViolated(Exception):
                pass

            @icontract.ensure(lambda text, result: real_dec(result) == text,
                              error=lambda text: RLEPostconditionViolated(text))
            def checked(text):
                return real_enc(text)
            self.engine = 'icontract'
            violation_error = RLEPostconditionViolated
        except Exception:  # noqa: BLE001
            def checked(text):
                r = real_enc(text)
                if real_dec(r) != text:
                    raise AssertionError
                return r
            self.engine = 'plain'
            violation_error = AssertionError
        mon = self

        def rle_encode(text):
            mon.calls += 1
            try:
                r = checked(text)
            except violation_error:
                if len(mon.violations) < 2000:
                    mon.violations.append(text)
                r = real_enc(text)
            except Exception:  # noqa: BLE001  (the probe itself failed: unobserved, never an alarm)
                mon.probe_errors += 1
                r = real_enc(text)
            if len(r) < len(text):
                mon.compressed += 1
            if '~' in text:
                mon.escaped_tilde += 1
            return r
        rle_encode.__wrapped__ = real_enc
        compact.rle_encode = rle_encode
        self.installed = True
        return True

    def uninstall(self):
        if self.installed:
            self._mod.rle_encode = self._real
            self.installed = False


# --------------------------------------------------------------------------- stress payloads

_BLOCK = None


def _block():
    global _BLOCK  # noqa: PLW0603
    if _BLOCK is None:
        import random
        rng = random.Random(19)
        alphabet = 'abcdefghijklmnopqrstuvwxyz    ~~01239é😀"\\{}:,[]'
        _BLOCK = ''.join(rng.choice(alphabet) for _ in range(1024)).replace('\\e', '\\a')
        _BLOCK = RLE_AMBIG.sub('~~', _BLOCK)
    return _BLOCK


def stress_payload(sender: str, seq: int):
    """deterministic function of (sender, seq) so that any reader can verify the content"""
    h = int.from_bytes(hashlib.blake2b(f'{sender}/{seq}'.encode(), digest_size=4).digest(), 'big')
    kind = h % 100
    if seq == 7:
        pad = _block() * 300             # > the reader's 256 KiB buffer
    elif kind < 3:
        pad = _block() * 20              # > the writer's buffer
    elif kind < 30:
        pad = _block()[h % 512: h % 512 + (h >> 8) % 400]
    elif kind < 45:
        pad = 'é' * (4 + h % 9) + '~' * (h % 5) + ' ' * (h % 13)
    elif kind < 60:
        pad = wide_pad(h >> 7)           # a (code point x context) text of the table
    else:
        pad = ''
    return {'s': sender, 'n': seq, 'pad': pad}


def stress_has_table_text(sender: str, seq: int) -> bool:
    h = int.from_bytes(hashlib.blake2b(f'{sender}/{seq}'.encode(), digest_size=4).digest(), 'big')
    return seq != 7 and 45 <= h % 100 < 60


def now() -> int:
    return time.monotonic_ns()


def item_of(p):
    """(sender, seq, content_ok) of a delivered packet, or ('?', repr, False)"""
    d = getattr(p, 'data', None)
    if type(d) is dict and type(d.get('s')) is str and type(d.get('n')) is int:
        ok = same(stress_payload(d['s'], d['n']), d) and getattr(p, 'to', None) == d['s']
        return [d['s'], d['n'], bool(ok)]
    return ['?', repr(d)[:80], False]


def sender_loop(path, name, n, yield_every=0):
    from tatsu.packetz.queue import PacketzQueue
    q = PacketzQueue(path)
    log = []
    for i in range(n):
        data = stress_payload(name, i)
        t0 = now()
        try:
            p = q.send(to=name, data=data)
            pid, exc = p.id, None
        except Exception as e:  # noqa: BLE001
            pid, exc = None, type(e).__name__
        t1 = now()
        log.append([name, i, t0, t1, pid, exc])
        if yield_every and i % yield_every == 0:
            time.sleep(0)
    return log


def reader_loop(path, stop_check, max_calls=1_000_000, pause=0.0005, q=None):
    """drain repeatedly until stop_check() is true, then drain once more (the final drain starts
    after every send has returned)"""
    from tatsu.packetz.queue import PacketzQueue
    if q is None:
        q = PacketzQueue(path)
    calls = []
    final_done = 0
    for _ in range(max_calls):
        final = stop_check()
        t0 = now()
        items, exc = [], None
        try:
            for p in q.receive():
                items.append(item_of(p))
        except Exception as e:  # noqa: BLE001
            exc = type(e).__name__
        t1 = now()
        if items or exc or final:
            calls.append({'t0': t0, 't1': t1, 'items': items, 'exc': exc, 'final': final})
        if final:
            final_done += 1
            if exc is None or final_done >= 3:
                break
        else:
            time.sleep(pause)
    return calls


# --------------------------------------------------------------------------- offline history checker


def check_history(sends, readers):
    """sends: [[sender, seq, t0, t1, id, exc]]   readers: {name: [call dicts]}
    -> (violations [(sig, what, detail)], stats dict)

    Per reader: no phantom, no altered content, no duplicate, real-time order preserved
    (ret(a) < call(b) => a before b), every send returned before a receive call started is delivered
    by the end of that call (calls that raised are exempt; the final drain is not).
    """
    out = []
    stats = {'sends_completed': 0, 'deliveries': 0, 'calls': 0, 'calls_nonempty': 0, 'exceptions': 0,
             'order_pairs_checked': 0, 'id_collisions_among_sends': 0, 'delivered_while_call_running': 0}
    info = {}
    by_id: dict = {}
    for s, n, t0, t1, pid, exc in sends:
        if exc is None:
            info[(s, n)] = (t0, t1, pid)
            by_id.setdefault(pid, []).append((s, n))
            stats['sends_completed'] += 1
        else:
            out.append(('queue/send-raised', f'send raised {exc} for ({s},{n})', {'send': [s, n, exc]}))
    colliding = {k for ks in by_id.values() if len(ks) > 1 for k in ks}
    stats['id_collisions_among_sends'] = len(colliding)
    done_sorted = sorted(((t1, k) for k, (t0, t1, pid) in info.items()))
    for rname, calls in readers.items():
        seen = set()
        max_call_t0 = -1
        max_call_key = None
        ptr = 0
        pending = set()
        for ci, c in enumerate(calls):
            stats['calls'] += 1
            if c['items']:
                stats['calls_nonempty'] += 1
            if c.get('exc'):
                stats['exceptions'] += 1
            for s, n, ok in c['items']:
                k = (s, n)
                stats['deliveries'] += 1
                if k not in info:
                    out.append(('queue/phantom-delivered', f'reader {rname} received a packet that was never '
                                f'sent: {k!r}', {'reader': rname, 'item': [s, n]}))
                    continue
                if not ok:
                    out.append(('queue/delivered-altered', f'reader {rname} received ({s},{n}) with altered '
                                'content', {'reader': rname, 'item': [s, n]}))
                if k in seen:
                    out.append(('queue/repeated', f'reader {rname} received ({s},{n}) twice',
                                {'reader': rname, 'item': [s, n]}))
                    continue
                seen.add(k)
                pending.discard(k)
                t0, t1, _ = info[k]
                if c.get('t0') is not None and t1 > c['t0']:
                    stats['delivered_while_call_running'] += 1   # the send completed after this call began
                stats['order_pairs_checked'] += 1
                if max_call_t0 > t1:
                    out.append(('queue/out-of-order', f'reader {rname} received {max_call_key} before ({s},{n}) '
                                'although the latter send had returned before the former began',
                                {'reader': rname, 'first': list(max_call_key), 'second': [s, n]}))
                if t0 > max_call_t0:
                    max_call_t0, max_call_key = t0, k
            last = ci == len(calls) - 1
            if c.get('t0') is None or (c.get('exc') and not c.get('final')):
                continue
            while ptr < len(done_sorted) and done_sorted[ptr][0] < c['t0']:
                k = done_sorted[ptr][1]
                if k not in seen:
                    pending.add(k)
                ptr += 1
            if c.get('exc') and pending and not last:
                continue   # a later (retried) final drain decides
            if pending and not c.get('final') and c.get('t1') is not None and any(
                    st0 < c['t1'] and st1 > c['t0'] for (st0, st1, _pid) in info.values()):
                # another send was under way while this call ran: a record is written with several write() calls once it
                # is longer than the file buffer, so the reader may have stopped in front of a line that was still being
                # written (TatSu's receive() stops at an incomplete line, as it must to keep the order) and the packets
                # behind it - complete or not - wait for a later call.  The statement promises delivery, once and in
                # order, not delivery by the end of the next call: such a call is counted, a later call (at the latest
                # the final drain, which runs when every sender is done) decides.
                stats['calls_deferred_send_in_flight'] = stats.get('calls_deferred_send_in_flight', 0) + 1
                continue
            for k in sorted(pending):
                sig = 'queue/id-collision-dedup' if k in colliding else 'queue/lost'
                out.append((sig, f'reader {rname}: send {k} had returned before the receive call began '
                            f'but was not delivered by the end of that call (final={c.get("final")})'
                            + (' - its id equals the id of another packet' if k in colliding else ''),
                            {'reader': rname, 'item': list(k), 'id': info[k][2]}))
            seen |= pending   # report each loss once
            pending = set()
    return out, stats


# --------------------------------------------------------------------------- child processes


def main(argv):
    sys.path  # PYTHONPATH is inherited from the shard
    from vt.common import assert_repo_tatsu
    assert_repo_tatsu()
    try:
        from tatsu.util import debugging
        debugging.set_debugging('WARNING')
    except Exception:  # noqa: BLE001
        pass
    sys.setswitchinterval(1e-5)
    role = argv[1]
    if role == 'send':
        path, name, n, outfile = argv[2], argv[3], int(argv[4]), argv[5]
        log = sender_loop(path, name, n)
        res = {'sends': log}
    elif role == 'recv':
        path, stopfile, outfile = argv[2], argv[3], argv[4]
        deadline = time.monotonic() + float(argv[5])
        pause = float(argv[6]) if len(argv) > 6 else 0.0005
        def stop_check():
            if time.monotonic() > deadline:
                # never mistake the watchdog for "all sends have returned": that would fabricate losses
                raise SystemExit('reader child: deadline passed before the stop file appeared')
            return os.path.exists(stopfile)
        calls = reader_loop(path, stop_check, pause=pause)
        res = {'calls': calls}
    else:
        raise SystemExit(f'unknown role {role}')
    tmp = outfile + '.tmp'
    with open(tmp, 'w') as f:
        json.dump(res, f)
    os.replace(tmp, outfile)
    return 0


if __name__ == '__main__':
    sys.exit(main(sys.argv))
