"""C18 real-pool runs, executed in a child process of the shard:

    python -m vt.monitors.c18_real <cases.json> <log.jsonl>

Every case drives the real `parproc(..., parallel=True)` with a real ProcessPoolExecutor (and the
real multiprocessing.Manager event), then the sequential mode on the same payload specs, and appends
the two yielded histories to the log.  The parent checks the histories offline and turns a child
that never finishes into an observation (the log names the case in progress).
"""
from __future__ import annotations

import json
import os
import random
import sys
import time

from . import c18_sched as S


def gen_case(rng: random.Random, idx: int, heavy: bool) -> dict:
    """one real-pool case; JSON-able"""
    workers = rng.choice([1, 2, 3, 4, 8, 16, None, rng.randint(1, 16)])
    w = workers or (os.cpu_count() or 8)
    shape = idx % 8
    if shape == 0:
        n = rng.choice([0, 1, 2])                      # the shortcuts
    elif shape == 1:
        n = rng.choice([w, w + 1, w + 2, w + 3])       # around the submission window (1 + workers)
    elif shape == 2:
        n = rng.randint(150, 200) if heavy or rng.random() < 0.5 else rng.randint(40, 90)
    elif shape == 3:
        n = rng.choice([2, 3, 4, 5])
    elif shape == 6:
        n = len(S.EXC_KIND_NAMES) + rng.randint(2, 12)  # the exception matrix: every kind raised once in one run
    else:
        n = rng.randint(3, 60)
    p_exc = rng.choice([0.0, 0.1, 0.3, 0.5, 1.0])
    raising = None
    if shape == 6:
        raising = set(rng.sample(range(n), len(S.EXC_KIND_NAMES)))
    kind_at = rng.randrange(len(S.EXC_KIND_NAMES))      # the kinds rotate over the raising payloads of the case
    budget_ms = rng.choice([0, 150, 400, 700])         # total sleeping time per worker, roughly
    mean = 0 if n == 0 else min(25.0, budget_ms * w / max(n, 1))
    cls_pool = rng.choice([['plain'], ['plain', 'proto', 'visual'], ['visual'], ['proto']])
    groups = 0
    if idx % 4 == 1:
        # payloads whose == / hash do not look at the id: different tasks compare equal (1..3 equivalence classes)
        cls_pool = rng.choice([[c] for c in S.EQ_CLASS_NAMES] + [['group', 'groupnohash'], ['data', 'visual'], ['listy', 'plain']])
        groups = rng.choice([1, 2, 3])
    specs = []
    for i in range(n):
        cls = rng.choice(cls_pool)
        exc = None
        if (rng.random() < p_exc) if raising is None else (i in raising):
            exc = S.EXC_KIND_NAMES[kind_at % len(S.EXC_KIND_NAMES)]
            kind_at += 1
            if cls == 'visual' and S.is_type_error(exc):
                cls = 'plain'
        pattern = rng.random()
        if pattern < 0.15:
            sleep = round(mean * 4, 2)                  # a straggler
        elif pattern < 0.5:
            sleep = 0
        else:
            sleep = round(rng.uniform(0, 2 * mean), 2)
        specs.append({'uid': 1000 * (idx + 1) + i, 'exc': exc, 'cls': cls, 'sleep': sleep,
                      'raises': 'none' if cls == 'visual' else rng.choice(S.RAISES_NAMES)})
        if groups:
            specs[-1]['group'] = f'g{rng.randrange(groups)}'
    if n and rng.random() < 0.3:                        # first submitted finishes last
        specs[0]['sleep'] = round(max(specs[0]['sleep'], mean * 6), 2)
    if idx % 4 == 3 and n >= 2:
        list_again(rng, specs, S.LIST_KEYS[(idx // 4) % 2])
    args, kwargs = rng.choice([([], {}), ([7], {}), (['x', 2], {'k': 'v'}), ([], {'flag': True})])
    return {'idx': idx, 'workers': workers, 'specs': specs, 'args': args, 'kwargs': kwargs,
            'entry': 'legacy' if rng.random() < 0.2 else 'parproc', 'pickable': rng.random() < 0.25,
            'gc_phase': rng.randrange(0, 700)}


def list_again(rng: random.Random, specs: list, first_key: str) -> None:
    """some payloads are listed more than once (overlapping globs): the very same object again ('same_as') or a
    separately built payload from the same spec ('twin_of'; equal where the class compares by value).  The repetition
    has the uid and the behaviour of the first occurrence; the checker wants as many results as list positions.
    The first repetition is of the kind `first_key` (rotates with the case index), a twin there is an equal one."""
    n = len(specs)
    taken = set()                                       # positions that are a first occurrence of something repeated
    for t in range(max(1, n // 4)):
        i = rng.randrange(1, n)
        if i in taken or any(k in specs[i] for k in S.LIST_KEYS):
            continue
        j = rng.randrange(0, i)
        for k in S.LIST_KEYS:
            j = specs[j].get(k, j)
        key = rng.choice(S.LIST_KEYS) if t else first_key
        if key == 'twin_of' and specs[j]['cls'] in ('plain', 'proto') and j not in taken and (t == 0 or rng.random() < 0.6):
            # a class that compares by value, so that the twins are equal
            specs[j]['cls'] = 'group' if S.is_type_error(specs[j]['exc']) or rng.random() < 0.5 else 'visual'
            if specs[j]['cls'] == 'visual':
                specs[j]['raises'] = 'none'
            else:
                specs[j]['group'] = 'g'
        taken.add(j)
        specs[i] = dict({k: v for k, v in specs[j].items() if k not in S.LIST_KEYS}, **{key: j})


# disturbances of a run, rotated over the disturbed cases of a shard (see gen_disturbed)
DISTURBANCES = ('stop', 'payload-lock', 'stop-close', 'outcome-lock', 'close', 'undeclared', 'payload-local',
                'outcome-local')


def gen_disturbed(rng: random.Random, idx: int, kind: str, heavy: bool) -> dict:
    """one real-pool case the statement does not determine completely (JSON-able): the consumer abandons the run
    (kind 'stop' / 'stop-close' / 'close', see c18_sched.consume) or some payload cannot be carried to a captured
    result (a c18_sched.POISON_KINDS kind).  Such a run is judged by c18_sched.check_disturbed; the runs that FOLLOW it
    in the same process are ordinary cases and are judged completely."""
    workers = rng.choice([1, 2, 2, 3, 4, rng.randint(1, 8)])
    window = 1 + workers                               # what a bounded submission window would hold
    if rng.random() < 0.25:
        n = rng.randint(2, window)
    else:
        n = window + rng.randint(1, 40 if heavy else 14)
    p_exc = rng.choice([0.0, 0.3, 0.6])
    cls_pool = rng.choice([['plain'], ['plain', 'proto', 'visual'], ['proto']])
    specs = []
    for i in range(n):
        cls = rng.choice(cls_pool)
        exc = None
        if rng.random() < p_exc:
            exc = rng.choice([k for k in S.EXC_KIND_NAMES if not (cls == 'visual' and S.is_type_error(k))])
        specs.append({'uid': 1000 * (idx + 1) + i, 'exc': exc, 'cls': cls, 'sleep': rng.choice([0, 0, 1, 3, 8]),
                      'raises': 'none' if cls == 'visual' else rng.choice(S.RAISES_NAMES)})
    args, kwargs = rng.choice([([], {}), ([7], {}), (['x', 2], {'k': 'v'})])
    case = {'idx': idx, 'workers': workers, 'specs': specs, 'args': args, 'kwargs': kwargs,
            'entry': 'legacy' if rng.random() < 0.2 else 'parproc', 'pickable': rng.random() < 0.25,
            'gc_phase': rng.randrange(0, 700), 'disturbed': kind}
    if kind in ('stop', 'stop-close', 'close'):
        case['abandon'] = {'after': rng.randint(1, max(1, n - 1)), 'how': kind, 'seq': True}
    else:
        positions = set()
        for _ in range(rng.choice([1, 1, 1, 2])):
            beyond = n > window and rng.random() < 0.7   # surfaces after other results were delivered
            positions.add(rng.randrange(window, n) if beyond else rng.randrange(n))
        for pos in positions:
            sp = specs[pos]
            sp['poison'] = kind
            if kind == 'undeclared':
                sp['cls'] = 'plain' if sp['cls'] == 'visual' else sp['cls']
                # (StopIteration escaping into the loop's own generators is a corner of its own: not generated)
                sp['exc'] = rng.choice([k for k in S.EXC_KIND_NAMES if k != 'stopiter'])
                sp['raises'] = 'exact'
    return case


def run_case(case: dict) -> dict:
    specs = case['specs']
    keep = None
    if case.get('gc_phase') is not None:
        # replay aid: the forked workers inherit the allocation counter of this process, and with it the
        # moment of their first cyclic-gc runs; sweeping it makes gc-timing dependent failures reproducible
        import gc
        gc.collect()
        keep = [[] for _ in range(case['gc_phase'])]
    kwargs = dict(case['kwargs'])
    t0 = time.monotonic()
    abandon = case.get('abandon')
    facts: dict = {}
    gen = S.call_entry(case['entry'], specs, tuple(case['args']), dict(kwargs, vt_scale=1.0),
                       True, case['workers'], case['pickable'])
    par, par_end = S.consume(gen, len(specs), abandon=abandon, facts=facts)
    t1 = time.monotonic()
    gen = S.call_entry(case['entry'], specs, tuple(case['args']), dict(kwargs, vt_scale=0),
                       False, case['workers'], case['pickable'])
    seq, seq_end = S.consume(gen, len(specs))
    out = {'done': case['idx'], 'par': par, 'par_end': par_end, 'seq': seq, 'seq_end': seq_end,
           'wall_par': round(t1 - t0, 3), 'wall_seq': round(time.monotonic() - t1, 3), 'main_pid': os.getpid()}
    if abandon is not None:
        out['abandon'] = facts
        if abandon.get('seq') and len(specs) >= 2:
            # the same consumer behaviour in the sequential mode
            sfacts: dict = {}
            gen = S.call_entry(case['entry'], specs, tuple(case['args']), dict(kwargs, vt_scale=0),
                               False, case['workers'], case['pickable'])
            sab, sab_end = S.consume(gen, len(specs), abandon=abandon, facts=sfacts)
            out.update(seq_abandoned=sab, seq_abandoned_end=sab_end, seq_abandon=sfacts)
    del keep
    return out


def main(argv):
    casefile, logfile = argv[1:3]
    with open(casefile) as f:
        cases = json.load(f)
    with open(logfile, 'a') as log:
        def emit(obj):
            log.write(json.dumps(obj) + '\n')
            log.flush()
        emit({'pid': os.getpid(), 'pgid': os.getpgid(0)})
        for case in cases:
            emit({'start': case['idx']})
            try:
                emit(run_case(case))
            except BaseException as e:          # harness trouble, reported as such
                emit({'crash': case['idx'], 'error': f'{type(e).__name__}: {e}'[:500]})
                if isinstance(e, KeyboardInterrupt):
                    raise
    return 0


if __name__ == '__main__':
    sys.exit(main(sys.argv))
