"""C20 helpers: case generators, the observer that drives the real ztyle entry points,
an independent SGR stripper, the child-process entry (python -m vt.monitors.c20_style in out) and the
history machinery: `history_collect` makes the calling process (one that has not rendered anything yet) the
root of a tree of histories of render operations / colour-policy changes; every tree node and every sampled
history runs in its own os.fork() copy, so each history starts from that not-yet-rendering process state
(a job with a 'histories'/'trees' key given to the child-process entry does the same in a new process: replay).

Nothing in here decides the property: `observe*` only records what the real code returned.
The oracle lives in vt/checks/c20.py.
"""
from __future__ import annotations

import contextlib
import json
import os
import sys
import unicodedata

ESC = '\x1b'
MARK = '\x00'      # marker text used to observe the wrapper a style puts around a text

MODS = ('bold', 'dim', 'italic', 'underline', 'blink', 'inverse', 'hidden', 'strikethrough')
NAMES16 = ('black', 'red', 'green', 'yellow', 'blue', 'purple', 'cyan', 'white',
           'bright_black', 'bright_red', 'bright_green', 'bright_yellow', 'bright_blue',
           'bright_purple', 'bright_cyan', 'bright_white')          # ANSI/ECMA-48 numbering

POOLS = {
    'ascii': list('abcdefghijklmnopqrstuvwxyzABCXYZ0123456789     _-.,;!?()/+*=<>@#$%^&|~`[]'),
    'brace': list('{}:'),
    'quote': list('\'"\\'),
    'latin': list('éñüßøÆçõ'),
    'combining': ['é', 'ä', 'ñ', '́', 'ộ', 'x⃝'],
    'cjk': list('日本語中文한글かなカナ'),
    'fullwidth': list('ＡＢ１２！'),
    'emoji': ['\U0001f600', '\U0001f44d\U0001f3fd', '❤️', '\U0001f1ef\U0001f1f5', '\U0001f389'],
    'zwj': ['\U0001f468‍\U0001f469‍\U0001f467', 'a‍b', '​'],
    'rtl': list('שלוםمرحبا'),
    'bidi': ['‏', '‎', '‮', '⁦'],
    'space': ['\xa0', '　', ' ', ' '],
    'ctrl': ['\n', '\t', '\r', '\x07', '\x00', '\x7f', '\x9b', '\x85', '\x0c'],
    'fmtlike': ['f{x:>3}', '{0}', '{{', '}}', '%s', '{:>10}', '{!r}', 'f{', ':>', '%(a)s'],
    'esclike': ['\\e[1m', '\\e[0m', '\\x1b[31m', '[0m', '[1;31m', '31m', ';', 'm', '\\e',
                '\\033[1m', '^[[0m', 'e[1m', '\\e[38;5;200m', '\\e['],
}
CLEAN_POOLS = ('ascii', 'latin', 'combining', 'cjk', 'fullwidth', 'emoji', 'rtl')
FILLS = list(' *-0_.#=~x1m;[') + ['{', '}', ':', '<', '>', '^', '日', 'é', '́', '\U0001f600',
                                   '\\', "'", '"', '\xa0', '　', '%']


# --------------------------------------------------------------------------- generators

def gen_text(rng):
    prof = rng.random()
    if prof < 0.40:
        pools, n = CLEAN_POOLS, rng.randint(1, 14)
    elif prof < 0.50:
        pools, n = CLEAN_POOLS, rng.randint(1, 2)
    elif prof < 0.56:
        pools, n = ('ascii', 'cjk', 'latin'), rng.randint(20, 60)
    elif prof < 0.66:
        pools, n = CLEAN_POOLS + ('space',), rng.randint(1, 10)
    else:
        pools, n = tuple(POOLS), rng.randint(1, 12)
    w = [3 if p == 'ascii' else 1 for p in pools]
    parts = []
    for _ in range(n):
        p = rng.choices(pools, w)[0]
        parts.append(rng.choice(POOLS[p]))
    t = ''.join(parts)
    if prof >= 0.66 and rng.random() < 0.15:
        t = rng.choice(POOLS['esclike']) + t
    return t.replace(ESC, '') or 'x'


def gen_spec(rng, tlen):
    r = rng.random()
    if r < 0.12:
        return None
    if r < 0.16:
        return ''
    fill = rng.choice(FILLS) if rng.random() < 0.5 else ''
    align = rng.choice('<>^') if (fill or rng.random() < 0.6) else ''
    zero = '0' if (not fill and rng.random() < 0.08) else ''
    width = ''
    if rng.random() < 0.85:
        width = str(max(0, rng.choice([0, 1, 2, 3, tlen - 1, tlen, tlen + 1, tlen + 2, tlen + 5,
                                       10, 20, 40, 80, tlen + 30])))
        if zero and width == '0':
            width = '1'
    prec = ''
    if rng.random() < 0.4 or not width:
        prec = '.' + str(max(0, rng.choice([0, 1, 2, tlen - 1, tlen, tlen + 1, 5, 10, tlen // 2])))
    typ = 's' if rng.random() < 0.1 else ''
    return f'{fill}{align}{zero}{width}{prec}{typ}'


def gen_colour(rng):
    r = rng.random()
    if r < 0.22:
        return rng.choice([None, -1])
    if r < 0.48:
        return rng.randrange(0, 16)
    if r < 0.74:
        return rng.randrange(16, 256)
    return [rng.choice([0, 255, rng.randrange(256)]) for _ in range(3)]


def gen_attrs(rng):
    if rng.random() < 0.06:
        return {'fg': None, 'bg': -1, 'mods': []}
    p = rng.choice([0.0, 0.15, 0.15, 0.5, 1.0])
    return {'fg': gen_colour(rng), 'bg': gen_colour(rng), 'mods': [m for m in MODS if rng.random() < p]}


ENVS = [
    {'NO_COLOR': None, 'FORCE_COLOR': None, 'tty': False},
    {'NO_COLOR': '1', 'FORCE_COLOR': None, 'tty': False},
    {'NO_COLOR': None, 'FORCE_COLOR': '1', 'tty': False},
    {'NO_COLOR': '1', 'FORCE_COLOR': '1', 'tty': False},
    {'NO_COLOR': None, 'FORCE_COLOR': None, 'tty': True},
    {'NO_COLOR': '1', 'FORCE_COLOR': None, 'tty': True},
    {'NO_COLOR': None, 'FORCE_COLOR': '1', 'tty': True},
    {'NO_COLOR': '1', 'FORCE_COLOR': '1', 'tty': True},
]


def gen_case(rng, mode=None):
    text = gen_text(rng)
    case = {'text': text, 'spec': gen_spec(rng, len(text)), **gen_attrs(rng)}
    case['route'] = rng.choice(['kwargs', 'kwargs', 'chain', 'factory', 'named'])
    if mode is None:
        mode = rng.choices(['always', 'never', 'enable-true', 'enable-false', 'env'], [38, 22, 8, 6, 26])[0]
    case['mode'] = mode
    if mode == 'env':
        case['env'] = dict(rng.choice(ENVS))
    if case['spec']:
        s2 = gen_spec2(text, case['spec'])
        if s2:
            case['spec2'] = s2
    return case


def gen_spec2(text, spec):
    """a second, different, non-empty spec python accepts for a case whose style STORES `spec` (given explicitly at
    the point of use, see observe); seeded by the case itself so that the streams of all other generators stay
    what they were.  A spec whose result differs from that of the stored one is preferred"""
    import random
    try:
        stored = format(text, spec)
    except ValueError:
        return None
    rng = random.Random('spec2|' + text + '|' + spec)
    for k in range(60):
        s2 = gen_spec(rng, len(text))
        if not s2 or s2 == spec:
            continue
        try:
            other = format(text, s2)
        except ValueError:
            continue
        if other != stored or k >= 40:
            return s2
    return None


def valid_spec(rng, text, nonempty=False):
    for _ in range(60):
        s = gen_spec(rng, len(text))
        if s is None or (nonempty and not s):
            continue
        try:
            format(text, s)
        except ValueError:
            continue
        return s
    return '>3'


def expected_enabled(case):
    """the documented policy (Color docstring): explicit > NO_COLOR > FORCE_COLOR > isatty"""
    m = case['mode']
    if m in ('always', 'enable-true'):
        return True
    if m in ('never', 'enable-false'):
        return False
    e = case['env']
    if e.get('NO_COLOR') is not None:
        return False
    if e.get('FORCE_COLOR') is not None:
        return True
    return bool(e.get('tty'))


def has_codes(case):
    def some(c):
        return c is not None and c != -1
    return bool(case['mods']) or some(case['fg']) or some(case['bg'])


# --------------------------------------------------------------------------- text classes

def text_class(t):
    """how the repr round trip statement applies to this text"""
    if any(c in '{}:\\\'"' for c in t) or any(unicodedata.category(c) == 'Cc' for c in t):
        return 'excluded'                       # the statement promises attributes only
    if any(unicodedata.category(c) in ('Cf', 'Zl', 'Zp', 'Cs', 'Co', 'Cn') for c in t):
        return 'open'                           # format/separator "controls": reading left open
    if not t.isprintable():
        return 'nonprintable'                   # e.g. NBSP, U+3000: not control characters
    return 'clean'


# --------------------------------------------------------------------------- independent stripper

def strip_sgr(s):
    """remove ESC '[' (digit|';')* 'm' sequences; returns (text, n_sequences) or (None, n) when an
    ESC does not start such a sequence"""
    out = []
    i, n, k = 0, len(s), 0
    while i < n:
        e = s.find(ESC, i)
        if e < 0:
            out.append(s[i:])
            break
        out.append(s[i:e])
        j = e + 1
        if j < n and s[j] == '[':
            j += 1
            while j < n and ('0' <= s[j] <= '9' or s[j] == ';'):
                j += 1
            if j < n and s[j] == 'm':
                i = j + 1
                k += 1
                continue
        return None, k
    return ''.join(out), k


# --------------------------------------------------------------------------- driving the real code

class _FakeTTY:
    def __init__(self, real, tty):
        self._real, self._tty = real, tty

    def isatty(self):
        return self._tty

    def __getattr__(self, name):
        return getattr(self._real, name)


@contextlib.contextmanager
def environment(env):
    """in-process emulation of the colour environment (env vars + stdout/stderr tty-ness)"""
    if env is None:
        yield
        return
    saved = {k: os.environ.get(k) for k in ('NO_COLOR', 'FORCE_COLOR')}
    so, se = sys.stdout, sys.stderr
    try:
        for k in ('NO_COLOR', 'FORCE_COLOR'):
            if env.get(k) is None:
                os.environ.pop(k, None)
            else:
                os.environ[k] = env[k]
        sys.stdout = _FakeTTY(so, bool(env.get('tty')))
        sys.stderr = _FakeTTY(se, bool(env.get('tty')))
        yield
    finally:
        sys.stdout, sys.stderr = so, se
        for k, v in saved.items():
            if v is None:
                os.environ.pop(k, None)
            else:
                os.environ[k] = v


def _colour_obj(case):
    from tatsu.ztyle import Color
    m = case['mode']
    if m == 'always':
        return Color.always()
    if m == 'never':
        return Color.never()
    if m == 'enable-true':
        c = Color.tty()
        c.enable(True)
        return c
    if m == 'enable-false':
        c = Color.default()
        c.enable(False)
        return c
    return None     # env: the library default policy


def _col(v):
    from tatsu.ztyle import RGB
    if isinstance(v, list):
        return RGB(*v)
    return v


def build(case, value, fmt, variant=0):
    """a Style with the case's attributes through the case's construction route"""
    from tatsu.ztyle import Color, Style
    col = _colour_obj(case)
    ckw = {} if col is None else {'color': col}
    route = case['route']
    fg, bg = _col(case['fg']), _col(case['bg'])
    if route == 'named' and not (isinstance(case['fg'], int) and 0 <= case['fg'] < 16
                                 or isinstance(case['bg'], int) and 0 <= case['bg'] < 16):
        route = 'chain'
    args = () if value is None else (value,)
    if route == 'kwargs':
        kw = {m: True for m in case['mods']}
        if fmt is not None:
            kw['fmt'] = fmt
        return Style(*args, fg=fg, bg=bg, **kw, **ckw)
    if route == 'factory':
        c = col if col is not None else (Color.default() if variant else Color.tty())
        s = c.style(*args, fg=fg, bg=bg, **{m: True for m in case['mods']})
        return s if fmt is None else s.fmt(fmt)
    s = Style(*args, **ckw)
    steps = []
    for m in case['mods']:
        steps.append(lambda s, m=m: getattr(s, m)())
    for which, v, raw in (('fg', fg, case['fg']), ('bg', bg, case['bg'])):
        if raw is None or raw == -1:
            if variant:
                steps.append(lambda s, which=which, raw=raw: getattr(s, which)(raw))
        elif isinstance(raw, list):
            steps.append(lambda s, which=which, raw=raw: getattr(s, which + '_rgb')(*raw))
        elif route == 'named' and raw < 16:
            name = NAMES16[raw] + ('_bg' if which == 'bg' else '')
            steps.append(lambda s, name=name: getattr(s, name)())
        else:
            steps.append(lambda s, which=which, v=v: getattr(s, which)(v))
    if fmt is not None:
        steps.insert(len(steps) // 2, lambda s: s.fmt(fmt))
    if variant:
        steps.reverse()
    for st in steps:
        s = st(s)
    return s


def _attrs_of(s):
    def col(v):
        return list(v) if isinstance(v, tuple) else v
    try:
        return {'fg': col(s._fg), 'bg': col(s._bg), 'mods': [m for m in MODS if getattr(s, '_' + m)],
                'fmt': s._fmt, 'value': s.value}
    except AttributeError:
        # the private slots are an evidence probe only: fall back to the public boundary
        # (the attributes of a style are what it writes around a fixed probe text)
        return {'probe': repr(s('P')), 'value': s.value}


def observe(case, emulate_env=True):
    """run every entry point on the real code; returns {'outs': [[entry, out, err]], ...}"""
    from tatsu.ztyle import Style
    t, spec = case['text'], case['spec']
    outs, lens, values, over = [], [], [], []

    def rec(entry, fn, to=outs):
        try:
            out = fn()
        except Exception as e:  # noqa: BLE001  observation, judged by the oracle
            to.append([entry, None, f'{type(e).__name__}: {str(e)[:120]}'])
            return
        if not isinstance(out, str):
            to.append([entry, None, f'returned {type(out).__name__}'])
        else:
            to.append([entry, str.__str__(out), None])

    env = case.get('env') if (emulate_env and case['mode'] == 'env') else None
    with environment(env):
        base = build(case, None, None)
        basef = build(case, None, spec, variant=1)      # spec None => same as base, other order
        s1 = build(case, t, spec)
        s2 = basef(t)
        s3 = base(t)
        try:
            w = base.apply_style(MARK)
            wrap = w.split(MARK) if isinstance(w, str) and w.count(MARK) == 1 else None
        except Exception:  # noqa: BLE001
            wrap = None
        rec('str', lambda: str(s1))
        rec('apply', lambda: basef.apply(t))
        rec('call', lambda: str(s2))
        rec('percent', lambda: '%s' % (s2,))
        rec('str.__str__', lambda: s1.__str__())
        rec('fstring', lambda: f'{s1}')
        rec('strformat', lambda: '{}'.format(s2))
        if spec is not None:
            rec('apply-arg', lambda: base.apply(t, fmt=spec))
            rec('call-arg', lambda: str(base(t, fmt=spec)))
            rec('format', lambda: format(s3, spec))
            rec('fstring-spec', lambda: f'{s3:{spec}}')
            rec('format-method', lambda: '{:{}}'.format(s3, spec))
        for name, s in (('ctor', s1), ('call', s2)):
            try:
                lens.append([name, len(s), None])
            except Exception as e:  # noqa: BLE001
                lens.append([name, None, f'{type(e).__name__}: {str(e)[:120]}'])
            values.append([name, s.value, str.__str__(s)])
        rt = {}
        for name, s in (('ctor', s1), ('call', s2)):
            try:
                r = repr(s)
                rt[name] = {'repr': r, 'orig': _attrs_of(s), 'back': _attrs_of(Style.from_raw(r)), 'err': None}
            except Exception as e:  # noqa: BLE001
                rt[name] = {'repr': None, 'err': f'{type(e).__name__}: {str(e)[:120]}'}
        spec2 = case.get('spec2')
        if spec and spec2:
            # the style STORES spec (constructor / .fmt() / template(text, fmt=)); spec2 is given explicitly at
            # the point of use through every entry point that takes one
            s4 = base(t, fmt=spec)
            rec('over-format', lambda: format(s1, spec2), over)
            rec('over-fstring', lambda: f'{s2:{spec2}}', over)
            rec('over-strformat', lambda: '{:{}}'.format(s4, spec2), over)
            rec('over-format-method', lambda: s4.__format__(spec2), over)
            rec('over-apply', lambda: basef.apply(t, fmt=spec2), over)
            rec('over-apply-own', lambda: s1.apply(t, fmt=spec2), over)
            rec('over-call', lambda: str(basef(t, fmt=spec2)), over)
            rec('over-call-own', lambda: f'{s4(t, fmt=spec2)}', over)
    return {'outs': outs, 'lens': lens, 'values': values, 'repr': rt, 'wrap': wrap, 'over': over}


# --------------------------------------------------------------------------- lineages
#
# A lineage is a walk of public builder calls, each deriving the next style from the previous one, with
# observations taken on every style BEFORE the next one is derived and on all of them again at the end.

LINEAGE_OBS = ('len', 'bool', 'str', 'format', 'fstring', 'percent', 'repr', 'apply', 'value', 'formatx', 'applyx')
LINEAGE_END = ('len', 'bool', 'str', 'fstring', 'formatx', 'value')


def gen_lineage(rng):
    text = gen_text(rng)
    mode = rng.choices(['always', 'never', 'enable-true', 'enable-false', 'env'], [46, 18, 8, 6, 22])[0]
    walk = {'text': text, 'spec': valid_spec(rng, text) if rng.random() < 0.5 else None, 'mode': mode,
            'route': 'lineage'}
    if mode == 'env':
        walk['env'] = dict(rng.choice(ENVS))
    walk.update(gen_attrs(rng) if rng.random() < 0.6 else {'fg': None, 'bg': None, 'mods': []})

    def gen_obs(cur, names):
        return [[n, valid_spec(rng, cur, nonempty=True)] if n.endswith('x') else [n] for n in names]

    steps, obs, cur = [], [], text
    n = rng.randint(2, 6)
    for j in range(n + 1):
        obs.append(gen_obs(cur, rng.sample(LINEAGE_OBS, rng.choice([0, 1, 1, 2, 2, 3, 4]))))
        if j == n:
            break
        r = rng.random()
        if r < 0.35:
            st = ['fmt', valid_spec(rng, cur)]
        elif r < 0.50:
            cur = gen_text(rng)
            st = ['callfmt', cur, valid_spec(rng, cur)]
        elif r < 0.62:
            cur = gen_text(rng)
            st = ['call', cur]
        elif r < 0.80:
            st = ['mod', rng.choice(MODS)]
        elif r < 0.90:
            st = ['fg', gen_colour(rng)]
        else:
            st = ['bg', gen_colour(rng)]
        steps.append(st)
    walk['steps'], walk['obs'] = steps, obs
    walk['end'] = gen_obs(cur, LINEAGE_END)
    return walk


def fold_lineage(walk):
    """the attributes every style of the walk was asked for, folded from the builder calls"""
    st = {k: walk[k] for k in ('text', 'spec', 'fg', 'bg', 'mode', 'route')}
    st['mods'] = list(walk['mods'])
    if 'env' in walk:
        st['env'] = walk['env']
    out = [st]
    for op in walk['steps']:
        st = dict(st)
        if op[0] == 'fmt':
            st['spec'] = op[1]
        elif op[0] == 'callfmt':
            st['text'], st['spec'] = op[1], op[2]
        elif op[0] == 'call':
            st['text'] = op[1]
        elif op[0] == 'mod':
            st['mods'] = [m for m in MODS if m in st['mods'] or m == op[1]]
        else:
            st[op[0]] = op[1]
        out.append(st)
    return out


def _observe_one(s, ob, text):
    name = ob[0]
    try:
        if name == 'len':
            r = len(s)
        elif name == 'bool':
            r = bool(s)
        elif name == 'str':
            r = str(s)
        elif name == 'format':
            r = format(s)
        elif name == 'fstring':
            r = f'{s}'
        elif name == 'percent':
            r = '%s' % (s,)
        elif name == 'repr':
            r = repr(s)
        elif name == 'apply':
            r = s.apply(text)
        elif name == 'value':
            r = s.value
        elif name == 'formatx':
            r = format(s, ob[1])
        elif name == 'applyx':
            r = s.apply(text, fmt=ob[1])
        else:
            raise KeyError(name)
    except Exception as e:  # noqa: BLE001  observation, judged by the oracle
        return [ob, None, f'{type(e).__name__}: {str(e)[:120]}']
    if isinstance(r, str):
        r = str.__str__(r)
    elif not isinstance(r, (int, bool)):
        return [ob, None, f'returned {type(r).__name__}']
    return [ob, r, None]


def observe_lineage(walk, emulate_env=True):
    """{'before': per style, 'end': per style, 'direct': per style (the same observations, in the same order,
    on a style with the folded attributes built directly with the constructor)}"""
    from tatsu.ztyle import Style
    env = walk.get('env') if (emulate_env and walk['mode'] == 'env') else None
    folded = fold_lineage(walk)
    with environment(env):
        col = _colour_obj(walk)
        ckw = {} if col is None else {'color': col}
        kw = {m: True for m in walk['mods']}
        if walk['spec'] is not None:
            kw['fmt'] = walk['spec']
        s = Style(walk['text'], fg=_col(walk['fg']), bg=_col(walk['bg']), **kw, **ckw)
        styles, before = [s], []
        for j, obs in enumerate(walk['obs']):
            before.append([_observe_one(s, ob, folded[j]['text']) for ob in obs])
            if j == len(walk['steps']):
                break
            op = walk['steps'][j]
            if op[0] == 'fmt':
                s = s.fmt(op[1])
            elif op[0] == 'callfmt':
                s = s(op[1], fmt=op[2])
            elif op[0] == 'call':
                s = s(op[1])
            elif op[0] == 'mod':
                s = getattr(s, op[1])()
            elif isinstance(op[1], list):
                s = getattr(s, op[0] + '_rgb')(*op[1])
            else:
                s = getattr(s, op[0])(op[1])
            styles.append(s)
        end = [[_observe_one(z, ob, folded[j]['text']) for ob in walk['end']] for j, z in enumerate(styles)]
        direct = []
        for j, a in enumerate(folded):
            kw = {m: True for m in a['mods']}
            if a['spec'] is not None:
                kw['fmt'] = a['spec']
            d = Style(a['text'], fg=_col(a['fg']), bg=_col(a['bg']), **kw, **ckw)
            direct.append([_observe_one(d, ob, a['text']) for ob in [*walk['obs'][j], *walk['end']]])
    return {'before': before, 'end': end, 'direct': direct}


# --------------------------------------------------------------------------- markup

TAGS = ('bold', 'dim', 'italic', 'underline', 'blink', 'inverse', 'hidden', 'strikethrough',
        'red', 'green', 'blue', 'yellow', 'cyan', 'white', 'black', 'purple', 'bright_red',
        'red_bg', 'blue_bg', 'bright_white_bg', 'pink', 'pink_bg', 'banana', 'amethyst')


def gen_markup(rng):
    """(source, plain): segments of bracket-escaped text between known tags"""
    src, plain, stack = [], [], []
    for _ in range(rng.randint(1, 6)):
        r = rng.random()
        if r < 0.45:
            tags = [rng.choice(TAGS) for _ in range(rng.randint(1, 2))]
            src.append('[' + ' '.join(tags) + ']')
            stack.extend(tags)
        elif r < 0.7 and stack:
            k = rng.random()
            if k < 0.5:
                src.append('[/]')
                stack.pop()
            elif k < 0.8:
                src.append('[/' + stack.pop() + ']')
            else:
                src.append('[/all]')
                stack.clear()
        seg = gen_text(rng)
        if rng.random() < 0.7:
            seg = seg.replace('[', '').replace(']', '') or 'x'
        plain.append(seg)
        src.append(seg.replace('[', '[['))
    return ''.join(src), ''.join(plain)


def observe_markup(src, env=None):
    from tatsu.ztyle import Color, Style
    from tatsu.ztyle.markup import markup
    res = {}

    def rec(name, fn):
        try:
            z = fn()
            res[name] = [str(z), z.value, None]
        except Exception as e:  # noqa: BLE001
            res[name] = [None, None, f'{type(e).__name__}: {str(e)[:120]}']
    rec('always', lambda: markup(src, color=Color.always()))
    rec('never', lambda: markup(src, color=Color.never()))
    rec('always-method', lambda: Color.always().markup(src))
    rec('never-style', lambda: Style(color=Color.never()).markup(src))
    if env is not None:
        with environment(env):
            rec('env', lambda: markup(src))
            rec('env-color', lambda: markup(src, color=Color()))
    return res


# --------------------------------------------------------------------------- error rendering

GRAMMARS = [
    r'''
    @@grammar :: Stmts
    start = {stmt}+ $ ;
    stmt = name:ident '=' value:expr ';' ;
    expr = term {('+'|'-') term} ;
    term = ident | number | '(' expr ')' ;
    ident = !kw /[^\W\d]\w*/ ;
    kw = 'if' | 'then' ;
    number = /\d+/ ;
    ''',
    r'''
    @@grammar :: Lists
    @@whitespace :: /[ \t]+/
    start = {line}+ $ ;
    line = '-' item {',' item} /\n/ ;
    item = word | quoted | '[' ~ item {',' item} ']' ;
    word = /[^\W\d_]+/ ;
    quoted = '«' /[^»\n]*/ '»' ;
    ''',
]


class FailingSemantics:
    def __init__(self, msg):
        self.msg = msg

    def number(self, ast):
        if ast == '666':
            from tatsu.exceptions import FailedSemantics
            raise FailedSemantics(self.msg)
        return ast

    def word(self, ast):
        if ast == 'falla':
            from tatsu.exceptions import FailedSemantics
            raise FailedSemantics(self.msg)
        return ast


_models = {}


def model(i):
    import tatsu
    if i not in _models:
        _models[i] = tatsu.compile(GRAMMARS[i])
    return _models[i]


WORDS = ['a', 'x1', 'café', '日本', 'señal', 'Ωmega', 'naïve', 'переменная', 'é', 'long_identifier_name']
LWORDS = ['uno', 'dos', 'café', '日本語', 'שלום', 'naïve', 'ＡＢ', 'zzz']


def gen_source(rng, gi):
    """an ESC-free source text that (most likely) fails to parse, of 1..14 lines"""
    n = rng.choice([1, 1, 2, 3, 5, 8, 9, 10, 11, 12, 14])
    lines = []
    if gi == 0:
        for _ in range(n):
            e = ' + '.join(rng.choice(WORDS + ['1', '42', '(7 - x1)']) for _ in range(rng.randint(1, 3)))
            lines.append(rng.choice(['', '\t', '  ']) + f'{rng.choice(WORDS)} = {e};')
        bad = rng.choice(['a = 666;', 'a = if;', 'a = 1; b', 'b = (2;', '€', 'a = 1 +', 'a = \t€ ;',
                          '日本 = (1 + \t€ ;', 'x = 1 ;;', '= 3;', 'a = then + 1;', 'ü = (((1);',
                          'a = 1 + 666 + 2;', 'y = 1 2;'])
    else:
        for _ in range(n):
            items = ', '.join(rng.choice(LWORDS + ['«texto libre: {x}»', '[uno, dos]', '[«a», [b]]'])
                              for _ in range(rng.randint(1, 3)))
            lines.append(f'- {items}')
        bad = rng.choice(['- uno,', '- [uno, dos', '- «sin cierre', '- falla', '- uno dos', 'uno',
                          '- [[日本語], 1]', '-\t[uno,\t2]', '- uno, falla, dos', '- €'])
    k = rng.randrange(len(lines) + 1) if rng.random() < 0.3 else len(lines)
    lines.insert(k, bad)
    src = '\n'.join(lines)
    if rng.random() < 0.7:
        src += '\n'
    if rng.random() < 0.1:
        src = src.replace('\n', '\r\n')
    return src.replace(ESC, '')


def observe_failure(gi, src, filename, semmsg, envs=()):
    """parse with the real model; returns renderings of the failure (or None if it parsed)"""
    from tatsu.exceptions import FailedParse
    from tatsu.ztyle import Color
    m = model(gi)
    kw = {'semantics': FailingSemantics(semmsg)}
    if filename is not None:
        kw['filename'] = filename
    try:
        m.parse(src, **kw)
    except FailedParse as e:
        exc = e
    except Exception as e:  # noqa: BLE001
        return {'other': f'{type(e).__name__}: {str(e)[:200]}'}
    else:
        return None
    res = {'cls': type(exc).__name__, 'line': exc.info.line, 'renders': {}}

    def rec(name, fn):
        try:
            out = fn()
            res['renders'][name] = [out if isinstance(out, str) else None,
                                    None if isinstance(out, str) else f'returned {type(out).__name__}']
        except Exception as e:  # noqa: BLE001
            res['renders'][name] = [None, f'{type(e).__name__}: {str(e)[:120]}']
    rec('never', lambda: exc.render(Color.never()))
    rec('always', lambda: exc.render(Color.always()))
    c = Color.stderr()
    c.enable(True)
    rec('stderr-enabled', lambda: exc.render(c))
    rec('default', lambda: exc.render())
    rec('str', lambda: str(exc))
    for i, env in enumerate(envs):
        with environment(env):
            rec(f'env{i}:str', lambda: str(exc))
            rec(f'env{i}:render', lambda: exc.render(Color.stderr()))
            rec(f'env{i}:render-stdout', lambda: exc.render(Color()))
    return res


def observe_parse_error(kind, msg, envs):
    """str() of the ParseError family under each environment"""
    from tatsu import exceptions as X
    cls = {'ParseError': X.ParseError, 'GrammarError': X.GrammarError, 'CodegenError': X.CodegenError,
           'HeartDied': X.HeartDied}[kind]
    exc = cls(msg)
    res = {}
    for i, env in enumerate(envs):
        with environment(env):
            try:
                res[f'env{i}'] = [str(exc), None]
            except Exception as e:  # noqa: BLE001
                res[f'env{i}'] = [None, f'{type(e).__name__}: {str(e)[:120]}']
    return res


# --------------------------------------------------------------------------- histories

# policy names of a history: the Color objects live for the whole history
H_POLICIES = ('never', 'always', 'dflt', 'errp', 'tog', 'togerr', 'lib')
# rendering entry points of a history step, and the policies each applies to (None = all)
H_ENTRIES = {
    'render': None, 'render-fresh': None, 'memento': None,
    'str': ('lib',), 'str-fresh': ('lib',), 'perr': ('lib',),
    'style-old': None, 'style-new': None, 'style-derived': None,
    'markup': None, 'markup-old': None,
    'trace': ('lib', 'never'),
}
# failures raised (and parses traced) INSIDE a history step use a grammar of their own: what matters there is
# that the exception / the tracer is new at that step, and a step must stay cheap
TINY_GRAMMAR = r'''
    @@grammar :: Tiny
    start = {item}+ $ ;
    item = word | '(' ~ item {',' item} ')' ;
    word = /[^\W\d]+/ ;
'''
TINY_SOURCES = ['a (', 'a 1', '(a', 'é (日本, ', 'x\n(y,, z)', '(a b)', '日本 語 ]', 'uno\n\tdos (tres,']
_tiny = []


def tiny_model():
    import tatsu
    if not _tiny:
        _tiny.append(tatsu.compile(TINY_GRAMMAR))
    return _tiny[0]


def entries_for(policy):
    return [e for e, ps in H_ENTRIES.items() if ps is None or policy in ps]


class _Capture:
    def __init__(self, tty):
        self.buf, self._tty = [], tty

    def write(self, s):
        self.buf.append(s)
        return len(s)

    def flush(self):
        pass

    def isatty(self):
        return self._tty


def parse_failure(mat):
    """the FailedParse of a material's source (nothing is rendered), or None"""
    from tatsu.exceptions import FailedParse
    kw = {'semantics': FailingSemantics(mat['semmsg'])}
    if mat.get('filename') is not None:
        kw['filename'] = mat['filename']
    try:
        model(mat['gi']).parse(mat['src'], **kw)
    except FailedParse as e:
        return e
    except Exception:  # noqa: BLE001
        return None
    return None


def tiny_failure(src):
    from tatsu.exceptions import FailedParse
    try:
        tiny_model().parse(src)
    except FailedParse as e:
        return e
    return None


def traced(src, colorize, tty_err):
    """what a traced parse of the tiny source writes to sys.stderr"""
    from tatsu.exceptions import FailedParse
    cap, saved = _Capture(tty_err), sys.stderr
    sys.stderr = cap
    try:
        tiny_model().parse(src, trace=True, colorize=colorize)
    except FailedParse:
        pass
    finally:
        sys.stderr = saved
    return ''.join(cap.buf)


def _styled(case, col, value, factory=False):
    from tatsu.ztyle import Style
    kw = {m: True for m in case['mods']}
    fg, bg = _col(case['fg']), _col(case['bg'])
    if factory and col is not None:
        s = col.style(value, fg=fg, bg=bg, **kw)
        return s if case['spec'] is None else s.fmt(case['spec'])
    if case['spec'] is not None:
        kw['fmt'] = case['spec']
    if col is not None:
        kw['color'] = col
    return Style(value, fg=fg, bg=bg, **kw)


class History:
    """one history inside the (forked) process: the process state IS the subject"""

    def __init__(self, mat, exc, init):
        from tatsu.ztyle import Color
        from tatsu.ztyle.markup import markup
        self.mat, self.exc = mat, exc
        self.real = {'out': sys.stdout, 'err': sys.stderr}
        self.tty = {'out': False, 'err': False}
        for k in ('NO_COLOR', 'FORCE_COLOR', 'TERM'):
            self.setenv(k, init.get(k))
        self.settty('out', bool(init.get('tty')))
        self.settty('err', bool(init.get('tty')))
        self.colors = {'never': Color.never(), 'always': Color.always(), 'dflt': Color(),
                       'errp': Color.stderr(), 'tog': Color.default(), 'togerr': Color.stderr(), 'lib': None}
        # objects created now, used at later steps under whatever the policy says then
        self.old_styles = {p: _styled(mat['style'], c, mat['style']['text']) for p, c in self.colors.items()}
        self.old_markup = {}
        for p, c in self.colors.items():
            try:
                self.old_markup[p] = markup(mat['markup']) if c is None else markup(mat['markup'], color=c)
            except Exception as e:  # noqa: BLE001
                self.old_markup[p] = e

    @staticmethod
    def setenv(k, v):
        if v is None:
            os.environ.pop(k, None)
        else:
            os.environ[k] = v

    def settty(self, which, tty):
        self.tty[which] = tty
        fake = _FakeTTY(self.real[which], tty)
        if which == 'out':
            sys.stdout = fake
        else:
            sys.stderr = fake

    def state_op(self, op):
        kind = op[0]
        if kind == 'env':
            self.setenv(op[1], op[2])
        elif kind == 'tty':
            self.settty('out', op[1])
            self.settty('err', op[1])
        elif kind == 'tty-out':
            self.settty('out', op[1])
        elif kind == 'tty-err':
            self.settty('err', op[1])
        elif kind == 'enable':
            self.colors[op[1]].enable(op[2])
        else:
            raise ValueError(f'unknown history operation {op!r}')

    def render_op(self, policy, entries):
        outs = []

        def rec(name, fn):
            try:
                out = fn()
            except Exception as e:  # noqa: BLE001  observation, judged by the oracle
                outs.append([name, None, f'{type(e).__name__}: {str(e)[:120]}'])
                return
            if not isinstance(out, str):
                outs.append([name, None, f'returned {type(out).__name__}'])
            else:
                outs.append([name, str.__str__(out), None])

        self._fresh = None
        for entry in entries:
            self.entry(entry, policy, self.colors[policy], rec)
        return outs

    def fresh(self):
        """a failure raised at this step (one parse per render operation)"""
        if self._fresh is None:
            self._fresh = tiny_failure(self.mat['tiny'])
        return self._fresh

    def entry(self, entry, policy, c, rec):
        from tatsu import exceptions as X
        from tatsu.ztyle.markup import markup
        mat, exc = self.mat, self.exc
        if entry in ('render', 'render-fresh'):
            e = exc if entry == 'render' else self.fresh()
            rec(entry, (lambda: e.render()) if c is None else (lambda: e.render(c)))
        elif entry in ('str', 'str-fresh'):
            e = exc if entry == 'str' else self.fresh()
            rec(entry, lambda: str(e))
        elif entry == 'memento':
            try:
                from tatsu.contexts.memento import memento
                args = (exc.message, exc.cursor.textstr, exc.info, exc.stack)
            except Exception:  # noqa: BLE001  evidence probe only: unobserved
                return
            rec(entry, (lambda: memento(*args)) if c is None else (lambda: memento(*args, color=c)))
        elif entry == 'perr':
            cls = getattr(X, mat['perr']['kind'])
            rec(entry, lambda: str(cls(mat['perr']['msg'])))
        elif entry in ('style-old', 'style-new', 'style-derived'):
            case = mat['style']
            t = case['text']
            if entry == 'style-old':
                s = self.old_styles[policy]
            elif entry == 'style-new':
                s = _styled(case, c, t, factory=True)
            else:
                s = self.old_styles[policy].underline()(t)
            rec(entry + ':str', lambda: str(s))
            rec(entry + ':fstring', lambda: f'{s}')
            rec(entry + ':apply', lambda: s.apply(t))
        elif entry == 'markup':
            rec(entry, lambda: str(markup(mat['markup']) if c is None else markup(mat['markup'], color=c)))
        elif entry == 'markup-old':
            z = self.old_markup[policy]
            def use():
                if isinstance(z, Exception):
                    raise z
                return str(z)
            rec(entry, use)
        elif entry == 'trace':
            rec(entry, lambda: traced(mat['tiny'], policy == 'lib', self.tty['err']))
        else:
            raise ValueError(f'unknown history entry {entry!r}')

    def run(self, ops):
        steps = []
        for op in ops:
            if op[0] == 'render':
                steps.append(self.render_op(op[1], op[2]))
            else:
                self.state_op(op)
                steps.append(None)
        return steps


H_HEAVY = ('render-fresh', 'str-fresh', 'trace')       # entries that parse inside the step


def tree_entries(policy, path, t, heavy=True):
    """the entry points a tree node runs for its render operation, and their order"""
    es = [e for e in entries_for(policy) if heavy or e not in H_HEAVY]
    k = (sum(path) + len(path) + t) % len(es)
    return es[k:] + es[:k]


def explore(hist, tree, t, path, fd):
    """the tree of histories: every operation of the alphabet is applied in its own forked copy of THIS
    process (which has executed `path`), and the copy goes on; render nodes append one line to fd.
    Copies run strictly one after the other, so the lines never interleave."""
    alphabet, maxlen = tree['alphabet'], tree['maxlen']
    first = tree.get('first')
    for ai, op in enumerate(alphabet):
        if not path and first is not None and ai not in first:
            continue
        last = len(path) + 1 >= maxlen
        if last and op[0] != 'render':
            continue                     # nothing would be observed after it

        def node(ai=ai, op=op, last=last):
            here = [*path, ai]
            if op[0] == 'render':
                outs = hist.render_op(op[1], tree_entries(op[1], here, t, tree.get('heavy', True)))
                os.write(fd, (json.dumps({'t': t, 'path': here, 'outs': outs}) + '\n').encode())
            else:
                hist.state_op(op)
            if not last:
                explore(hist, tree, t, here, fd)

        status = _fork_wait(node)
        if status != 0:
            os.write(fd, (json.dumps({'t': t, 'path': [*path, ai], 'crash': status}) + '\n').encode())


def _fork_wait(fn):
    pid = os.fork()
    if pid == 0:
        code = 0
        try:
            fn()
        except BaseException:  # noqa: BLE001
            import traceback
            traceback.print_exc(file=sys.__stderr__)
            code = 3
        finally:
            os._exit(code)
    _, status = os.waitpid(pid, 0)
    return status


def _forked(fn):
    """run fn() in a forked copy of this process and return its JSON result"""
    r, w = os.pipe()
    pid = os.fork()
    if pid == 0:
        code = 0
        try:
            os.close(r)
            try:
                data = json.dumps({'ok': fn()})
            except BaseException as e:  # noqa: BLE001
                import traceback
                data = json.dumps({'crash': f'{type(e).__name__}: {e}', 'tb': traceback.format_exc()[-1500:]})
            with os.fdopen(w, 'w') as f:
                f.write(data)
        except BaseException:  # noqa: BLE001
            code = 1
        finally:
            os._exit(code)
    os.close(w)
    with os.fdopen(r) as f:
        data = f.read()
    _, status = os.waitpid(pid, 0)
    if not data:
        return {'crash': f'history process ended with status {status} and no result'}
    return json.loads(data)


def preload():
    """modules and lazily loaded colour tables a history would otherwise load again in every forked copy
    (loading is not rendering: no Style is written out, no error is rendered)"""
    import gc
    import tatsu.contexts.memento
    import tatsu.contexts.tracing
    import tatsu.ztyle.markup
    import tatsu.ztyle.xstyle  # noqa: F401
    from tatsu.ztyle import css_color, named_color
    for fn, name in ((named_color, 'red'), (css_color, 'pink'), (named_color, 'banana')):
        try:
            fn(name)
        except Exception:  # noqa: BLE001
            pass
    gc.collect()
    gc.freeze()


def history_collect(job, nodefile):
    """THIS process is the root of every history of the job: it must not have rendered anything yet (it has
    imported, compiled the grammars and raised the parse failures).  Every history / every tree node runs in
    a forked copy; the reference renderings are taken here after all of them have run."""
    import gc
    from tatsu import exceptions as X
    from tatsu.ztyle import Color
    mats = job['materials']
    excs = [parse_failure(m) for m in mats]
    for m in mats:
        tiny_failure(m['tiny'])          # a parse, not a rendering: the parser's own lazy state is not the subject
    usable = [i for i, e in enumerate(excs) if e is not None]
    out = {'usable': usable, 'hist': [], 'refs': {}, 'tree_mi': [], 'nodes': []}
    if not usable:
        return out
    preload()
    try:
        fd = os.open(nodefile, os.O_WRONLY | os.O_CREAT | os.O_TRUNC | os.O_APPEND, 0o600)
        for t, tree in enumerate(job.get('trees', ())):
            mi = usable[tree['mi'] % len(usable)]
            out['tree_mi'].append(mi)
            status = _fork_wait(lambda t=t, tree=tree, mi=mi:
                                explore(History(mats[mi], excs[mi], tree['init']), tree, t, [], fd))
            if status != 0:
                os.write(fd, (json.dumps({'t': t, 'path': [], 'crash': status}) + '\n').encode())
        os.close(fd)
        with open(nodefile) as f:
            out['nodes'] = [json.loads(ln) for ln in f]
        os.unlink(nodefile)
        for h in job.get('histories', ()):
            mi = usable[h['mi'] % len(usable)]
            res = _forked(lambda h=h, mi=mi: History(mats[mi], excs[mi], h['init']).run(h['ops']))
            res['mi'] = mi
            out['hist'].append(res)
    finally:
        gc.unfreeze()

    def ref_of(fn):
        try:
            return [fn(), None]
        except Exception as ex:  # noqa: BLE001
            return [None, f'{type(ex).__name__}: {str(ex)[:120]}']

    # reference renderings, taken after every history has run (this process rendered nothing before)
    for mi in usable:
        m, e = mats[mi], excs[mi]
        ref = {'cls': type(e).__name__, 'line': e.info.line}
        ref['render'] = ref_of(lambda: e.render(Color.never()))
        with environment(ENVS[1]):
            ref['perr'] = ref_of(lambda: str(getattr(X, m['perr']['kind'])(m['perr']['msg'])))
        ref['trace'] = ref_of(lambda: traced(m['tiny'], False, False))
        ref['fresh'] = ref_of(lambda: tiny_failure(m['tiny']).render(Color.never()))
        out['refs'][str(mi)] = ref
    return out


def history_main(job, outfile):
    """a process of its own as the root of the histories (used to replay one history)"""
    for gi in range(len(GRAMMARS)):
        model(gi)
    out = history_collect(job, outfile + '.nodes')
    tmp = outfile + '.tmp'
    with open(tmp, 'w') as f:
        json.dump(out, f)
    os.replace(tmp, outfile)


# --------------------------------------------------------------------------- child process

def child_main(infile, outfile):
    """runs in a process whose real environment/tty-ness is the configuration under test"""
    with open(infile) as f:
        job = json.load(f)
    if 'histories' in job or 'trees' in job:
        history_main(job, outfile)
        return
    out = {'isatty': [sys.stdout.isatty(), sys.stderr.isatty()],
           'env': {k: os.environ.get(k) for k in ('NO_COLOR', 'FORCE_COLOR')},
           'styles': [], 'failures': [], 'perrs': [], 'markup': []}
    for case in job['styles']:
        out['styles'].append(observe(case, emulate_env=False))
    for f_ in job['failures']:
        out['failures'].append(observe_failure(f_['gi'], f_['src'], f_['filename'], f_['semmsg']))
    for p in job['perrs']:
        from tatsu import exceptions as X
        try:
            out['perrs'].append([str(getattr(X, p['kind'])(p['msg'])), None])
        except Exception as e:  # noqa: BLE001
            out['perrs'].append([None, f'{type(e).__name__}: {e}'])
    for src in job['markup']:
        from tatsu.ztyle import Color
        from tatsu.ztyle.markup import markup
        try:
            out['markup'].append([str(markup(src)), str(markup(src, color=Color.never())), None])
        except Exception as e:  # noqa: BLE001
            out['markup'].append([None, None, f'{type(e).__name__}: {e}'])
    tmp = outfile + '.tmp'
    with open(tmp, 'w') as f:
        json.dump(out, f)
    os.replace(tmp, outfile)


if __name__ == '__main__':
    child_main(sys.argv[1], sys.argv[2])
