"""C20 helpers: case generators, the observer that drives the real ztyle entry points,
an independent SGR stripper and the child-process entry (python -m vt.monitors.c20_style in out).

Nothing in here decides the property: `observe*` only records what the real code returned.
The oracle lives in vt/checks/c20.py.
"""
from __future__ import annotations

import contextlib
import json
import os
import sys
import unicodedata

ESC = '\x1b'
MARK = '\x00'      # marker text used to observe the wrapper a style puts around a text

MODS = ('bold', 'dim', 'italic', 'underline', 'blink', 'inverse', 'hidden', 'strikethrough')
NAMES16 = ('black', 'red', 'green', 'yellow', 'blue', 'purple', 'cyan', 'white',
           'bright_black', 'bright_red', 'bright_green', 'bright_yellow', 'bright_blue',
           'bright_purple', 'bright_cyan', 'bright_white')          # ANSI/ECMA-48 numbering

POOLS = {
    'ascii': list('abcdefghijklmnopqrstuvwxyzABCXYZ0123456789     _-.,;!?()/+*=<>@#$%^&|~`[]'),
    'brace': list('{}:'),
    'quote': list('\'"\\'),
    'latin': list('éñüßøÆçõ'),
    'combining': ['é', 'ä', 'ñ', '́', 'ộ', 'x⃝'],
    'cjk': list('日本語中文한글かなカナ'),
    'fullwidth': list('ＡＢ１２！'),
    'emoji': ['\U0001f600', '\U0001f44d\U0001f3fd', '❤️', '\U0001f1ef\U0001f1f5', '\U0001f389'],
    'zwj': ['\U0001f468‍\U0001f469‍\U0001f467', 'a‍b', '​'],
    'rtl': list('שלוםمرحبا'),
    'bidi': ['‏', '‎', '‮', '⁦'],
    'space': ['\xa0', '　', ' ', ' '],
    'ctrl': ['\n', '\t', '\r', '\x07', '\x00', '\x7f', '\x9b', '\x85', '\x0c'],
    'fmtlike': ['f{x:>3}', '{0}', '{{', '}}', '%s', '{:>10}', '{!r}', 'f{', ':>', '%(a)s'],
    'esclike': ['\\e[1m', '\\e[0m', '\\x1b[31m', '[0m', '[1;31m', '31m', ';', 'm', '\\e',
                '\\033[1m', '^[[0m', 'e[1m', '\\e[38;5;200m', '\\e['],
}
CLEAN_POOLS = ('ascii', 'latin', 'combining', 'cjk', 'fullwidth', 'emoji', 'rtl')
FILLS = list(' *-0_.#=~x1m;[') + ['{', '}', ':', '<', '>', '^', '日', 'é', '́', '\U0001f600',
                                   '\\', "'", '"', '\xa0', '　', '%']


# --------------------------------------------------------------------------- generators

def gen_text(rng):
    prof = rng.random()
    if prof < 0.40:
        pools, n = CLEAN_POOLS, rng.randint(1, 14)
    elif prof < 0.50:
        pools, n = CLEAN_POOLS, rng.randint(1, 2)
    elif prof < 0.56:
        pools, n = ('ascii', 'cjk', 'latin'), rng.randint(20, 60)
    elif prof < 0.66:
        pools, n = CLEAN_POOLS + ('space',), rng.randint(1, 10)
    else:
        pools, n = tuple(POOLS), rng.randint(1, 12)
    w = [3 if p == 'ascii' else 1 for p in pools]
    parts = []
    for _ in range(n):
        p = rng.choices(pools, w)[0]
        parts.append(rng.choice(POOLS[p]))
    t = ''.join(parts)
    if prof >= 0.66 and rng.random() < 0.15:
        t = rng.choice(POOLS['esclike']) + t
    return t.replace(ESC, '') or 'x'


def gen_spec(rng, tlen):
    r = rng.random()
    if r < 0.12:
        return None
    if r < 0.16:
        return ''
    fill = rng.choice(FILLS) if rng.random() < 0.5 else ''
    align = rng.choice('<>^') if (fill or rng.random() < 0.6) else ''
    zero = '0' if (not fill and rng.random() < 0.08) else ''
    width = ''
    if rng.random() < 0.85:
        width = str(max(0, rng.choice([0, 1, 2, 3, tlen - 1, tlen, tlen + 1, tlen + 2, tlen + 5,
                                       10, 20, 40, 80, tlen + 30])))
        if zero and width == '0':
            width = '1'
    prec = ''
    if rng.random() < 0.4 or not width:
        prec = '.' + str(max(0, rng.choice([0, 1, 2, tlen - 1, tlen, tlen + 1, 5, 10, tlen // 2])))
    typ = 's' if rng.random() < 0.1 else ''
    return f'{fill}{align}{zero}{width}{prec}{typ}'


def gen_colour(rng):
    r = rng.random()
    if r < 0.22:
        return rng.choice([None, -1])
    if r < 0.48:
        return rng.randrange(0, 16)
    if r < 0.74:
        return rng.randrange(16, 256)
    return [rng.choice([0, 255, rng.randrange(256)]) for _ in range(3)]


def gen_attrs(rng):
    if rng.random() < 0.06:
        return {'fg': None, 'bg': -1, 'mods': []}
    p = rng.choice([0.0, 0.15, 0.15, 0.5, 1.0])
    return {'fg': gen_colour(rng), 'bg': gen_colour(rng), 'mods': [m for m in MODS if rng.random() < p]}


ENVS = [
    {'NO_COLOR': None, 'FORCE_COLOR': None, 'tty': False},
    {'NO_COLOR': '1', 'FORCE_COLOR': None, 'tty': False},
    {'NO_COLOR': None, 'FORCE_COLOR': '1', 'tty': False},
    {'NO_COLOR': '1', 'FORCE_COLOR': '1', 'tty': False},
    {'NO_COLOR': None, 'FORCE_COLOR': None, 'tty': True},
    {'NO_COLOR': '1', 'FORCE_COLOR': None, 'tty': True},
    {'NO_COLOR': None, 'FORCE_COLOR': '1', 'tty': True},
    {'NO_COLOR': '1', 'FORCE_COLOR': '1', 'tty': True},
]


def gen_case(rng, mode=None):
    text = gen_text(rng)
    case = {'text': text, 'spec': gen_spec(rng, len(text)), **gen_attrs(rng)}
    case['route'] = rng.choice(['kwargs', 'kwargs', 'chain', 'factory', 'named'])
    if mode is None:
        mode = rng.choices(['always', 'never', 'enable-true', 'enable-false', 'env'], [38, 22, 8, 6, 26])[0]
    case['mode'] = mode
    if mode == 'env':
        case['env'] = dict(rng.choice(ENVS))
    return case


def expected_enabled(case):
    """the documented policy (Color docstring): explicit > NO_COLOR > FORCE_COLOR > isatty"""
    m = case['mode']
    if m in ('always', 'enable-true'):
        return True
    if m in ('never', 'enable-false'):
        return False
    e = case['env']
    if e.get('NO_COLOR') is not None:
        return False
    if e.get('FORCE_COLOR') is not None:
        return True
    return bool(e.get('tty'))


def has_codes(case):
    def some(c):
        return c is not None and c != -1
    return bool(case['mods']) or some(case['fg']) or some(case['bg'])


# --------------------------------------------------------------------------- text classes

def text_class(t):
    """how the repr round trip statement applies to this text"""
    if any(c in '{}:\\\'"' for c in t) or any(unicodedata.category(c) == 'Cc' for c in t):
        return 'excluded'                       # the statement promises attributes only
    if any(unicodedata.category(c) in ('Cf', 'Zl', 'Zp', 'Cs', 'Co', 'Cn') for c in t):
        return 'open'                           # format/separator "controls": reading left open
    if not t.isprintable():
        return 'nonprintable'                   # e.g. NBSP, U+3000: not control characters
    return 'clean'


# --------------------------------------------------------------------------- independent stripper

def strip_sgr(s):
    """remove ESC '[' (digit|';')* 'm' sequences; returns (text, n_sequences) or (None, n) when an
    ESC does not start such a sequence"""
    out = []
    i, n, k = 0, len(s), 0
    while i < n:
        ch = s[i]
        if ch == ESC:
            j = i + 1
            if j < n and s[j] == '[':
                j += 1
                while j < n and ('0' <= s[j] <= '9' or s[j] == ';'):
                    j += 1
                if j < n and s[j] == 'm':
                    i = j + 1
                    k += 1
                    continue
            return None, k
        out.append(ch)
        i += 1
    return ''.join(out), k


# --------------------------------------------------------------------------- driving the real code

class _FakeTTY:
    def __init__(self, real, tty):
        self._real, self._tty = real, tty

    def isatty(self):
        return self._tty

    def __getattr__(self, name):
        return getattr(self._real, name)


@contextlib.contextmanager
def environment(env):
    """in-process emulation of the colour environment (env vars + stdout/stderr tty-ness)"""
    if env is None:
        yield
        return
    saved = {k: os.environ.get(k) for k in ('NO_COLOR', 'FORCE_COLOR')}
    so, se = sys.stdout, sys.stderr
    try:
        for k in ('NO_COLOR', 'FORCE_COLOR'):
            if env.get(k) is None:
                os.environ.pop(k, None)
            else:
                os.environ[k] = env[k]
        sys.stdout = _FakeTTY(so, bool(env.get('tty')))
        sys.stderr = _FakeTTY(se, bool(env.get('tty')))
        yield
    finally:
        sys.stdout, sys.stderr = so, se
        for k, v in saved.items():
            if v is None:
                os.environ.pop(k, None)
            else:
                os.environ[k] = v


def _colour_obj(case):
    from tatsu.ztyle import Color
    m = case['mode']
    if m == 'always':
        return Color.always()
    if m == 'never':
        return Color.never()
    if m == 'enable-true':
        c = Color.tty()
        c.enable(True)
        return c
    if m == 'enable-false':
        c = Color.default()
        c.enable(False)
        return c
    return None     # env: the library default policy


def _col(v):
    from tatsu.ztyle import RGB
    if isinstance(v, list):
        return RGB(*v)
    return v


def build(case, value, fmt, variant=0):
    """a Style with the case's attributes through the case's construction route"""
    from tatsu.ztyle import Color, Style
    col = _colour_obj(case)
    ckw = {} if col is None else {'color': col}
    route = case['route']
    fg, bg = _col(case['fg']), _col(case['bg'])
    if route == 'named' and not (isinstance(case['fg'], int) and 0 <= case['fg'] < 16
                                 or isinstance(case['bg'], int) and 0 <= case['bg'] < 16):
        route = 'chain'
    args = () if value is None else (value,)
    if route == 'kwargs':
        kw = {m: True for m in case['mods']}
        if fmt is not None:
            kw['fmt'] = fmt
        return Style(*args, fg=fg, bg=bg, **kw, **ckw)
    if route == 'factory':
        c = col if col is not None else (Color.default() if variant else Color.tty())
        s = c.style(*args, fg=fg, bg=bg, **{m: True for m in case['mods']})
        return s if fmt is None else s.fmt(fmt)
    s = Style(*args, **ckw)
    steps = []
    for m in case['mods']:
        steps.append(lambda s, m=m: getattr(s, m)())
    for which, v, raw in (('fg', fg, case['fg']), ('bg', bg, case['bg'])):
        if raw is None or raw == -1:
            if variant:
                steps.append(lambda s, which=which, raw=raw: getattr(s, which)(raw))
        elif isinstance(raw, list):
            steps.append(lambda s, which=which, raw=raw: getattr(s, which + '_rgb')(*raw))
        elif route == 'named' and raw < 16:
            name = NAMES16[raw] + ('_bg' if which == 'bg' else '')
            steps.append(lambda s, name=name: getattr(s, name)())
        else:
            steps.append(lambda s, which=which, v=v: getattr(s, which)(v))
    if fmt is not None:
        steps.insert(len(steps) // 2, lambda s: s.fmt(fmt))
    if variant:
        steps.reverse()
    for st in steps:
        s = st(s)
    return s


def _attrs_of(s):
    def col(v):
        return list(v) if isinstance(v, tuple) else v
    try:
        return {'fg': col(s._fg), 'bg': col(s._bg), 'mods': [m for m in MODS if getattr(s, '_' + m)],
                'fmt': s._fmt, 'value': s.value}
    except AttributeError:
        # the private slots are an evidence probe only: fall back to the public boundary
        # (the attributes of a style are what it writes around a fixed probe text)
        return {'probe': repr(s('P')), 'value': s.value}


def observe(case, emulate_env=True):
    """run every entry point on the real code; returns {'outs': [[entry, out, err]], ...}"""
    from tatsu.ztyle import Style
    t, spec = case['text'], case['spec']
    outs, lens, values = [], [], []

    def rec(entry, fn):
        try:
            out = fn()
        except Exception as e:  # noqa: BLE001  observation, judged by the oracle
            outs.append([entry, None, f'{type(e).__name__}: {str(e)[:120]}'])
            return
        if not isinstance(out, str):
            outs.append([entry, None, f'returned {type(out).__name__}'])
        else:
            outs.append([entry, str.__str__(out), None])

    env = case.get('env') if (emulate_env and case['mode'] == 'env') else None
    with environment(env):
        base = build(case, None, None)
        basef = build(case, None, spec, variant=1)      # spec None => same as base, other order
        s1 = build(case, t, spec)
        s2 = basef(t)
        s3 = base(t)
        try:
            w = base.apply_style(MARK)
            wrap = w.split(MARK) if isinstance(w, str) and w.count(MARK) == 1 else None
        except Exception:  # noqa: BLE001
            wrap = None
        rec('str', lambda: str(s1))
        rec('apply', lambda: basef.apply(t))
        rec('call', lambda: str(s2))
        rec('percent', lambda: '%s' % (s2,))
        rec('str.__str__', lambda: s1.__str__())
        rec('fstring', lambda: f'{s1}')
        rec('strformat', lambda: '{}'.format(s2))
        if spec is not None:
            rec('apply-arg', lambda: base.apply(t, fmt=spec))
            rec('call-arg', lambda: str(base(t, fmt=spec)))
            rec('format', lambda: format(s3, spec))
            rec('fstring-spec', lambda: f'{s3:{spec}}')
            rec('format-method', lambda: '{:{}}'.format(s3, spec))
        for name, s in (('ctor', s1), ('call', s2)):
            try:
                lens.append([name, len(s), None])
            except Exception as e:  # noqa: BLE001
                lens.append([name, None, f'{type(e).__name__}: {str(e)[:120]}'])
            values.append([name, s.value, str.__str__(s)])
        rt = {}
        for name, s in (('ctor', s1), ('call', s2)):
            try:
                r = repr(s)
                rt[name] = {'repr': r, 'orig': _attrs_of(s), 'back': _attrs_of(Style.from_raw(r)), 'err': None}
            except Exception as e:  # noqa: BLE001
                rt[name] = {'repr': None, 'err': f'{type(e).__name__}: {str(e)[:120]}'}
    return {'outs': outs, 'lens': lens, 'values': values, 'repr': rt, 'wrap': wrap}


# --------------------------------------------------------------------------- markup

TAGS = ('bold', 'dim', 'italic', 'underline', 'blink', 'inverse', 'hidden', 'strikethrough',
        'red', 'green', 'blue', 'yellow', 'cyan', 'white', 'black', 'purple', 'bright_red',
        'red_bg', 'blue_bg', 'bright_white_bg', 'pink', 'pink_bg', 'banana', 'amethyst')


def gen_markup(rng):
    """(source, plain): segments of bracket-escaped text between known tags"""
    src, plain, stack = [], [], []
    for _ in range(rng.randint(1, 6)):
        r = rng.random()
        if r < 0.45:
            tags = [rng.choice(TAGS) for _ in range(rng.randint(1, 2))]
            src.append('[' + ' '.join(tags) + ']')
            stack.extend(tags)
        elif r < 0.7 and stack:
            k = rng.random()
            if k < 0.5:
                src.append('[/]')
                stack.pop()
            elif k < 0.8:
                src.append('[/' + stack.pop() + ']')
            else:
                src.append('[/all]')
                stack.clear()
        seg = gen_text(rng)
        if rng.random() < 0.7:
            seg = seg.replace('[', '').replace(']', '') or 'x'
        plain.append(seg)
        src.append(seg.replace('[', '[['))
    return ''.join(src), ''.join(plain)


def observe_markup(src, env=None):
    from tatsu.ztyle import Color, Style
    from tatsu.ztyle.markup import markup
    res = {}

    def rec(name, fn):
        try:
            z = fn()
            res[name] = [str(z), z.value, None]
        except Exception as e:  # noqa: BLE001
            res[name] = [None, None, f'{type(e).__name__}: {str(e)[:120]}']
    rec('always', lambda: markup(src, color=Color.always()))
    rec('never', lambda: markup(src, color=Color.never()))
    rec('always-method', lambda: Color.always().markup(src))
    rec('never-style', lambda: Style(color=Color.never()).markup(src))
    if env is not None:
        with environment(env):
            rec('env', lambda: markup(src))
            rec('env-color', lambda: markup(src, color=Color()))
    return res


# --------------------------------------------------------------------------- error rendering

GRAMMARS = [
    r'''
    @@grammar :: Stmts
    start = {stmt}+ $ ;
    stmt = name:ident '=' value:expr ';' ;
    expr = term {('+'|'-') term} ;
    term = ident | number | '(' expr ')' ;
    ident = !kw /[^\W\d]\w*/ ;
    kw = 'if' | 'then' ;
    number = /\d+/ ;
    ''',
    r'''
    @@grammar :: Lists
    @@whitespace :: /[ \t]+/
    start = {line}+ $ ;
    line = '-' item {',' item} /\n/ ;
    item = word | quoted | '[' ~ item {',' item} ']' ;
    word = /[^\W\d_]+/ ;
    quoted = '«' /[^»\n]*/ '»' ;
    ''',
]


class FailingSemantics:
    def __init__(self, msg):
        self.msg = msg

    def number(self, ast):
        if ast == '666':
            from tatsu.exceptions import FailedSemantics
            raise FailedSemantics(self.msg)
        return ast

    def word(self, ast):
        if ast == 'falla':
            from tatsu.exceptions import FailedSemantics
            raise FailedSemantics(self.msg)
        return ast


_models = {}


def model(i):
    import tatsu
    if i not in _models:
        _models[i] = tatsu.compile(GRAMMARS[i])
    return _models[i]


WORDS = ['a', 'x1', 'café', '日本', 'señal', 'Ωmega', 'naïve', 'переменная', 'é', 'long_identifier_name']
LWORDS = ['uno', 'dos', 'café', '日本語', 'שלום', 'naïve', 'ＡＢ', 'zzz']


def gen_source(rng, gi):
    """an ESC-free source text that (most likely) fails to parse, of 1..14 lines"""
    n = rng.choice([1, 1, 2, 3, 5, 8, 9, 10, 11, 12, 14])
    lines = []
    if gi == 0:
        for _ in range(n):
            e = ' + '.join(rng.choice(WORDS + ['1', '42', '(7 - x1)']) for _ in range(rng.randint(1, 3)))
            lines.append(rng.choice(['', '\t', '  ']) + f'{rng.choice(WORDS)} = {e};')
        bad = rng.choice(['a = 666;', 'a = if;', 'a = 1; b', 'b = (2;', '€', 'a = 1 +', 'a = \t€ ;',
                          '日本 = (1 + \t€ ;', 'x = 1 ;;', '= 3;', 'a = then + 1;', 'ü = (((1);',
                          'a = 1 + 666 + 2;', 'y = 1 2;'])
    else:
        for _ in range(n):
            items = ', '.join(rng.choice(LWORDS + ['«texto libre: {x}»', '[uno, dos]', '[«a», [b]]'])
                              for _ in range(rng.randint(1, 3)))
            lines.append(f'- {items}')
        bad = rng.choice(['- uno,', '- [uno, dos', '- «sin cierre', '- falla', '- uno dos', 'uno',
                          '- [[日本語], 1]', '-\t[uno,\t2]', '- uno, falla, dos', '- €'])
    k = rng.randrange(len(lines) + 1) if rng.random() < 0.3 else len(lines)
    lines.insert(k, bad)
    src = '\n'.join(lines)
    if rng.random() < 0.7:
        src += '\n'
    if rng.random() < 0.1:
        src = src.replace('\n', '\r\n')
    return src.replace(ESC, '')


def observe_failure(gi, src, filename, semmsg, envs=()):
    """parse with the real model; returns renderings of the failure (or None if it parsed)"""
    from tatsu.exceptions import FailedParse
    from tatsu.ztyle import Color
    m = model(gi)
    kw = {'semantics': FailingSemantics(semmsg)}
    if filename is not None:
        kw['filename'] = filename
    try:
        m.parse(src, **kw)
    except FailedParse as e:
        exc = e
    except Exception as e:  # noqa: BLE001
        return {'other': f'{type(e).__name__}: {str(e)[:200]}'}
    else:
        return None
    res = {'cls': type(exc).__name__, 'line': exc.info.line, 'renders': {}}

    def rec(name, fn):
        try:
            out = fn()
            res['renders'][name] = [out if isinstance(out, str) else None,
                                    None if isinstance(out, str) else f'returned {type(out).__name__}']
        except Exception as e:  # noqa: BLE001
            res['renders'][name] = [None, f'{type(e).__name__}: {str(e)[:120]}']
    rec('never', lambda: exc.render(Color.never()))
    rec('always', lambda: exc.render(Color.always()))
    c = Color.stderr()
    c.enable(True)
    rec('stderr-enabled', lambda: exc.render(c))
    rec('default', lambda: exc.render())
    rec('str', lambda: str(exc))
    for i, env in enumerate(envs):
        with environment(env):
            rec(f'env{i}:str', lambda: str(exc))
            rec(f'env{i}:render', lambda: exc.render(Color.stderr()))
            rec(f'env{i}:render-stdout', lambda: exc.render(Color()))
    return res


def observe_parse_error(kind, msg, envs):
    """str() of the ParseError family under each environment"""
    from tatsu import exceptions as X
    cls = {'ParseError': X.ParseError, 'GrammarError': X.GrammarError, 'CodegenError': X.CodegenError,
           'HeartDied': X.HeartDied}[kind]
    exc = cls(msg)
    res = {}
    for i, env in enumerate(envs):
        with environment(env):
            try:
                res[f'env{i}'] = [str(exc), None]
            except Exception as e:  # noqa: BLE001
                res[f'env{i}'] = [None, f'{type(e).__name__}: {str(e)[:120]}']
    return res


# --------------------------------------------------------------------------- child process

def child_main(infile, outfile):
    """runs in a process whose real environment/tty-ness is the configuration under test"""
    with open(infile) as f:
        job = json.load(f)
    out = {'isatty': [sys.stdout.isatty(), sys.stderr.isatty()],
           'env': {k: os.environ.get(k) for k in ('NO_COLOR', 'FORCE_COLOR')},
           'styles': [], 'failures': [], 'perrs': [], 'markup': []}
    for case in job['styles']:
        out['styles'].append(observe(case, emulate_env=False))
    for f_ in job['failures']:
        out['failures'].append(observe_failure(f_['gi'], f_['src'], f_['filename'], f_['semmsg']))
    for p in job['perrs']:
        from tatsu import exceptions as X
        try:
            out['perrs'].append([str(getattr(X, p['kind'])(p['msg'])), None])
        except Exception as e:  # noqa: BLE001
            out['perrs'].append([None, f'{type(e).__name__}: {e}'])
    for src in job['markup']:
        from tatsu.ztyle import Color
        from tatsu.ztyle.markup import markup
        try:
            out['markup'].append([str(markup(src)), str(markup(src, color=Color.never())), None])
        except Exception as e:  # noqa: BLE001
            out['markup'].append([None, None, f'{type(e).__name__}: {e}'])
    tmp = outfile + '.tmp'
    with open(tmp, 'w') as f:
        json.dump(out, f)
    os.replace(tmp, outfile)


if __name__ == '__main__':
    child_main(sys.argv[1], sys.argv[2])
