"""C12 oracle (a): an independent line splitter on ``\\r\\n | \\n | \\r`` and the expectations it yields.

Shares nothing with tatsu/input (no str.splitlines, no cache, no sentinel): one left-to-right scan
that records where each line starts and where it ends without / with its line break.
"""
from __future__ import annotations


def split_lines(text: str) -> list[tuple[int, int, int]]:
    """[(start, end_without_break, end_with_break)] for every line that has at least one character"""
    out = []
    i = start = 0
    n = len(text)
    while i < n:
        c = text[i]
        if c == '\r' and i + 1 < n and text[i + 1] == '\n':
            out.append((start, i, i + 2))
            i = start = i + 2
        elif c == '\r' or c == '\n':
            out.append((start, i, i + 1))
            i = start = i + 1
        else:
            i += 1
    if start < n:
        out.append((start, n, n))
    return out


class Lines:
    """expectations for one text"""

    def __init__(self, text: str):
        self.text = text
        self.n = len(text)
        self.lines = split_lines(text)
        self.line_of = []          # offset -> line index, offsets 0..len-1
        for k, (_s, _e, eb) in enumerate(self.lines):
            self.line_of.extend([k] * (eb - len(self.line_of)))
        assert len(self.line_of) == self.n
        self.ends_with_break = bool(self.lines) and self.lines[-1][1] != self.lines[-1][2]
        # number of lines in the editor view (a trailing break opens one more, empty, line)
        self.editor_linecount = len(self.lines) + (1 if self.ends_with_break or not self.lines else 0)

    # ---- offsets inside the text: exact
    def at(self, pos: int):
        """(line, col, start, end_without_break, end_with_break) for 0 <= pos < len"""
        k = self.line_of[pos]
        s, e, eb = self.lines[k]
        return k, pos - s, s, e, eb

    # ---- offset == len: the two defensible readings
    def onepast(self):
        """position len taken as one past the last character"""
        if not self.lines or self.ends_with_break:
            return len(self.lines), 0, self.n, self.n, self.n
        k = len(self.lines) - 1
        s, e, eb = self.lines[k]
        return k, self.n - s, s, e, eb

    def clamped(self):
        """position len reported as the last character of the text"""
        if not self.n:
            return self.onepast()
        return self.at(self.n - 1)

    def candidates(self, pos: int):
        """list of acceptable (line, col, start, end_wo, end_with); one entry when pos < len"""
        if pos < self.n:
            return [self.at(pos)]
        a, b = self.onepast(), self.clamped()
        return [a] if a == b else [a, b]

    def kind(self, pos: int) -> str:
        """class of the offset, for evidence counters"""
        if self.n == 0:
            return 'empty-text'
        if pos >= self.n:
            return 'end-of-text'
        c = self.text[pos]
        if c == '\n':
            return 'on-lf-of-crlf' if pos and self.text[pos - 1] == '\r' else 'on-lf'
        if c == '\r':
            return 'on-cr-of-crlf' if pos + 1 < self.n and self.text[pos + 1] == '\n' else 'on-cr'
        _k, col, _s, _e, _eb = self.at(pos)
        return 'line-start' if col == 0 else 'inside'

    def conventions(self) -> set:
        out = set()
        for _s, e, eb in self.lines:
            if eb - e == 2:
                out.add('CRLF')
            elif eb - e == 1:
                out.add('LF' if self.text[e] == '\n' else 'CR')
        return out


def lineinfo_ok(L: Lines, pos: int, info) -> str | None:
    """judge a LineInfo-like (source, line, col, start, end, text) -> None | tag of what is wrong.

    The statement does not say whether a line's text carries its line break: both are accepted,
    provided `end` and `text` agree with each other."""
    try:
        _src, line, col, start, end, ltext = info
    except Exception:  # noqa: BLE001
        return 'shape'
    first = None
    for (k, c, s, e, eb) in L.candidates(pos):
        if line != k:
            bad = 'line'
        elif col != c:
            bad = 'col'
        elif start != s:
            bad = 'start'
        elif end not in (e, eb):
            bad = 'end'
        elif ltext != L.text[s:end]:
            bad = 'text'
        else:
            return None
        first = first or bad
    return first


def line_candidates(L: Lines, pos: int) -> set:
    return {c[0] for c in L.candidates(pos)}


def col_candidates(L: Lines, pos: int) -> set:
    return {c[1] for c in L.candidates(pos)}
