"""Shared grammar-model generator for C13 (pretty round trip, railroads) and C14 (serialisation).

A case is an L-grammar (vt/lang.py AST) over the FULL expression language: the core forms of
vt.gen plus `$->`, @int/@uint/@float/@bool/@name, alerts, constants (also multi-line), patterns
with slashes/quotes/newlines, tokens with quotes/backslashes/unicode/style-escape look-alikes, rule
decorators, params/kwparams, based rules, rule includes, all directives and @@keyword.

Real models are obtained from an L-grammar through several routes:
  text    tatsu.compile(gtext(g))                 (our own text printer, not TatSu's)
  object  tatsu.peg node constructors             (the route tatsu/g2e uses)
  json    Grammar.load(json round trip of the object/text model)
  g2e     tatsu.g2e.translate(<small generated ANTLR grammar>)   (no L-grammar: see antlr_case)

"Hazards" are printer/loader forms already known to be defective on this tree.  The generator
emits each at a limited rate and `hazards(g)`/`neutralise(g, h)` let the checks attribute a failure
to a named mechanism, so that everything else (and every unknown mechanism) is still explored.
"""
from __future__ import annotations

import random
import re

from .. import gen as G
from .. import lang as L
from ..ref import canon

# --------------------------------------------------------------------------- pools
PLAIN_TOKS = ['a', 'b', 'c']

# token texts: quotes, backslashes, unicode (narrow, wide, combining), style/format look-alikes
HOSTILE_TOKS = [
    "it's", 'say"hi"', 'back\\slash', '\\', 'tab\tx', 'é', 'ñandú', '日本', 'ｗ', '→', 'é',
    '@', '"@":', '__class__', '{}', '$', '`', '#', '(*', '*)', '%', '::', '~', '<', '->', '⏎',
    'a b', '\\n', '{', 'x}', 'f', 'fx', 'e[', 'None', 'True', '0', '-1', "''", '""', '\\\\x',
    'if', '/', '//', '/*', ' lead', 'trail ', ' ', '\u200b', '\x00', '\x1b[0m', '\r', 'e\u0301',
]
BOTH_QUOTES_TOKS = ['a\'b"c', '\'"', 'x"\'']
NEWLINE_TOKS = ['nl\nx']
STYLE_TOKS = ['f{x}', 'f{a:>3}', 'f{', '\\e[1m', '\\e[', '\\e[0mz', 'f{}{}']

# pattern -> sample matching strings
PLAIN_PATS = dict(G.PATS)
HOSTILE_PATS = {
    r"'[^']*'": ["'a'", "''"],
    r'"[^"]*"': ['"a"', '""'],
    r'[\'"]': ["'", '"'],
    r'\\': ['\\'],
    r'\\b': ['\\b'],
    r'a#b': ['a#b'],
    r'日+': ['日', '日日'],
    r'\d+(?:\.\d+)?': ['1', '2.5'],
    r'[a-c]{2}': ['ab', 'cc'],
    r'(?i)ab': ['ab', 'AB', 'aB'],
    r'\w+': ['ab', 'x1', 'é'],
    r'(?x) a  b': ['ab'],
}
SLASH_PATS = {
    r'a/b': ['a/b'],
    r'a\/b': ['a/b'],
    r'[/]': ['/'],
    r"a/'b": ["a/'b"],
    r'/': ['/'],
    r'[a-c]+\\/[a-c]+': ['a\\/b'],       # an escaped BACKSLASH followed by a real slash
    r'\\/': ['\\/'],
    r'a\/b\\/c': ['a/b\\/c'],           # both an escaped slash and escaped-backslash + slash
}
SLASH_DQUOTE_PATS = {            # hazard: both '/' and '"'
    r'a/"b': ['a/"b'],
    r'["/]': ['"', '/'],
}
MULTILINE_PATS = {               # hazard: indentation is added inside the regex when the block is indented
    'x\ny': ['x\ny'],
    '(?x)\na\nb': ['ab'],
}
SLASH_NEWLINE_PATS = {           # hazard: '/' forces the ?"..." form, which cannot hold a newline
    'a/\nb': ['a/\nb'],
}
TRIM_PATS = {                    # hazard: leading/trailing blank, indented continuation lines
    r' a': [' a'],
    r'a ': ['a '],
    'a\n  b': ['a\n  b'],
}
CONSTS = ['5', 'zq', '1.5', 'a b', 'True', '[1, 2]', '{1+1}', '日本', '-3', 'x y z']
MULTILINE_CONSTS = ['zq\nzr', '1\n2']
RENORM_CONSTS = ["'s'", '"q"', '0x10', '1.50', '007', 'null', '+5']     # hazard: read back as another text
EMPTY_CONSTS = ['', '', ' ', '  ']           # the empty constant `` and constants made of blanks (value '')
# single-backtick constants that literal_eval turns into NON-FINITE floats (repr() is the bare name inf):
# pretty() prints them `inf`, a word -> for C13 they fall under the recorded 'const-renormalised' mechanism
NONFINITE_CONSTS = ['1e999', '-1e999']
# constants whose VALUE is None or falsy: repr()/JSON/field defaults must not confuse them with "not given"
FALSY_CONSTS = {'None': None, 'False': False, '0': 0, '0.0': 0.0}
NONFINITE_PARAMS = [float('inf'), float('-inf')]
NUMERIC_FIRST_PARAMS = [1, 7, 0, 2.5, 42]
ALERTS = ['msg', 'something odd', 'x{1+1}', 'a b']
NUMERIC_ALERTS = ['5', '1.5', 'True']                                  # hazard: non-str literal after read-back
METAS = ['int', 'uint', 'float', 'bool', 'name']
META_SAMPLES = {
    'int': ['-3', '42', '+7'], 'uint': ['7', '10'], 'float': ['1.5', '-2.0', '3'],
    'bool': ['true', 'false', 'True', 'yes'], 'name': ['foo', 'b2', '_x'],
}
PARAMS = ['A', 'b', 'Node', 'a b', 'x::Y', 'Cls']
NONSTR_PARAMS = [1, 2.5, True, None]                     # hazard (railroads): ','.join(params)
NUMLIKE_PARAMS = ['1', '007', 'None', 'True', '15']      # hazard: strings printed without quotes
KWVALS = [1, 'v', 'W', 2.5, 'a b', True]
KEYWORDS = ['a', 'b', 'bb', 'c', 'if', 'then', 'ab']
HOSTILE_KEYWORDS = ["it's", 'a-b', 'é', 'x y']
# long keyword lists: the printer has to lay them out over several @@keyword lines; a break may only fall
# BETWEEN keywords, whatever they contain (hyphens, blanks, quotes, backslashes, unicode, 30+ characters)
LONG_KEYWORD_POOL = [
    'end-if', 'else-if', 'a-b-c', 'x-y', 'end if', 'else if', 'go to', 'not in', 'is not', "it's", "don't stop",
    'say"hi"', 'back\\slash', 'a\\-b', 'tab\tkw', 'é', 'ñandú', '日本語', 'Ünï-cödé', 'naïve word', '→', 'ｗｉｄｅ',
    'a_very_long_keyword_of_more_than_thirty_characters', 'another-extremely-long-hyphenated-keyword-here',
    'long keyword with several spaces inside it', 'semi;colon-and-hyphen-inside-a-long-keyword',
    'while', 'for', 'do', 'begin', 'end', 'if', 'then', 'else', 'elif', 'case', 'of', 'var', 'const', 'type',
    'proc', 'func', 'return', 'break', 'continue', 'a', 'b', 'bb', 'c', 'ab', '-', '--', 'a-', '-b', 'par(en)',
    'hash#tag', 'sl/ash', '(*', '::', '@@keyword', ')', '( x )', 'x  y', ' lead', 'trail ', '$', '{}', '`bq`',
]
KEYWORD_NAME_PAT = r'[^\s,;]+(?: [a-z]+)*'
WS_DIRECTIVES = [r'[ ]+', r'[\t ]+', r'\s+', r'[ ,]+']
WS_SLASH_DIRECTIVES = [r'[ /]+']
WS_SLASH_DQUOTE_DIRECTIVES = [r'[ "/]+']          # hazard: printed ?"[ "/]+" (unescaped)
COMMENT_DIRECTIVES = [r'\(\*.*?\*\)', r'%[^\n]*%']
EOLC_DIRECTIVES = [r'#[^\n]*', r';;[^\n]*', r'//[^\n]*']
NAMECHARS = ['-', '_$', "'", '-"']
GRAMMAR_NAMES = ['Calc', 'My_g', 'X1']

FRAG_NAMES = ['frag', 'Base', 'frag2']
ODD_RULE_NAMES = ['é', '_r', 'R2d2', 'name', 'keyword', 'override', 'int', 'Ünï', 'rule_1', 'if_']

# hazards: name -> short description of the mechanism (docs for known_findings / report)
HAZARDS = {
    'eol': "EOL ($->) is printed as '⏎', which the grammar cannot read",
    'based-params': 'a based rule with parameters prints them after `< base`',
    'tok-both-quotes': "a token/keyword/param with both quote kinds is printed with repr() ('a\\'b\"')",
    'nomemo': '@nomemo is recorded in Rule.decorators but never sets no_memo and is not printed (repaired in /repo by '
              'a2f6c0b; kept so that a regression is attributed)',
    'empty-closure-end': 'a rule ending in {} swallows the blank-line rule separator',
    'multiline-const': 'a multi-line constant is printed between single backticks',
    'pattern-slash-dquote': "a pattern with '/' and '\"' is printed as ?\"...\\\"...\"",
    'pattern-trim': 'Pattern._pretty trims (strips/dedents) the regex text',
    'param-numlike': "a string parameter made of digits/None/True is printed bare and read back as another type",
    'const-renormalised': "a constant whose text is itself a literal ('s', 0x10, 1.50) is printed back without its "
                          "quotes/in normal form, so the second pretty print differs",
    'alert-numeric': 'an alert whose (string) message looks like a number is read back as a non-str literal, which '
                     'ctx.constant() appends to the AST despite capture=False',
    'param-nonstr': "railroads: walk_rule does ','.join(rule.params), TypeError for int/float/bool/None parameters",
    'keyword-then-params': 'the @@keyword line is followed by a first rule with parameters: `name[` is read as one '
                           'more keyword',
    'pattern-multiline': 'a multi-line pattern inside an indented block gets the indentation added to the regex',
    'pattern-empty': "the empty pattern (?'') is printed as //, which is an end-of-line comment",
    'whitespace-none': "@@whitespace :: None (stored as '') is printed as //, a comment; the directive is read back as "
                       'None (default whitespace) and the next pretty() raises TypeError',
    'directive-regex-quote': "a regex directive with '/' and '\"' is printed as ?\"...\" without escaping",
    'pattern-slash-newline': "a pattern with '/' and a newline is printed as ?\"...\", which cannot span lines",
    'nostak': '@nostak (which sets Rule.no_stak: the rule is not pushed on the call stack) is not printed by pretty(), '
              'so the recompiled model loses the decorator',
}


# --------------------------------------------------------------------------- text printer
def tok_text(s: str) -> str:
    """a TatSu string literal for s (single-line forms cannot escape their own quote)"""
    def body(q):
        out = []
        for ch in s:
            if ch == '\\':
                out.append('\\\\')
            elif ch == '\n':
                out.append('\\n')
            elif ch == '\t':
                out.append('\\t')
            elif ch == '\r':
                out.append('\\r')
            elif ch == '\x1b':
                out.append('\\x1b')
            else:
                out.append(ch)
        return ''.join(out)
    if "'" not in s:
        return "'" + body("'") + "'"
    if '"' not in s:
        return '"' + body('"') + '"'
    # both kinds: only the triple-quoted form can carry them (escaped there)
    b = body("'").replace("'", "\\'")
    return "'''" + b + "'''"


def pat_text(rx: str) -> str:
    if rx == '':
        return "?''"
    if '/' not in rx:
        return f'/{rx}/'
    if '\n' not in rx:
        if "'" not in rx:
            return "?'" + rx + "'"
        if '"' not in rx:
            return '?"' + rx + '"'
    # fall back: escape the slashes (python re reads \/ as /)
    out, i = [], 0
    while i < len(rx):
        if rx[i] == '\\' and i + 1 < len(rx):
            out.append(rx[i:i + 2])
            i += 2
            continue
        out.append('\\/' if rx[i] == '/' else rx[i])
        i += 1
    return '/' + ''.join(out) + '/'


def const_text(t: str, alert=False) -> str:
    if t in NONFINITE_CONSTS and not alert:
        return '`' + t + '`'          # read as the float inf / -inf
    # the triple form keeps the text as a str; the single form would read 's'/0x10/5 as literals
    if '\n' in t or renormalised(t) or (alert and numeric_like(t)):
        return '```' + t + '```'
    return '`' + t + '`'


_NUM_RX = re.compile(r'[-+]?(?:\d+\.?\d*|\.\d+)(?:[eE][-+]?\d+)?\Z')
_HEX_RX = re.compile(r'0[xX][0-9a-fA-F]+\Z')


def numeric_like(t: str) -> bool:
    return bool(_NUM_RX.match(t) or _HEX_RX.match(t)) or t in ('True', 'False', 'None', 'true', 'false', 'null')


def renormalised(t: str) -> bool:
    """constant text that TatSu's `literal` rule reads as a value whose str() is another text"""
    if len(t) >= 2 and t[0] in '\'"' and t[-1] == t[0]:
        return True
    if len(t) >= 3 and t[0] == 'r' and t[1] in '\'"' and t[-1] == t[1]:
        return True
    if _HEX_RX.match(t):
        return True
    if t in ('true', 'false', 'null'):
        return True
    if _NUM_RX.match(t):
        try:
            v = float(t) if any(c in t for c in '.eE') else int(t)
        except ValueError:
            return True
        return str(v) != t
    return False


def txt(e) -> str:
    T = type(e)
    if T is L.Tok:
        return tok_text(e.s)
    if T is L.Pat:
        return pat_text(e.rx)
    if T is L.Call:
        return e.name
    if T is L.Seq:
        if not e.items:
            return '()'
        return ' '.join(txt_item(i) for i in e.items)
    if T is L.Choice:
        return ' | '.join(f'({txt(o)})' if isinstance(o, L.Choice) else txt(o) for o in e.opts)
    if T is L.Group:
        return f'({txt(e.e)})'
    if T is L.SkipGroup:
        return f'(?: {txt(e.e)})'
    if T is L.Opt:
        return f'[{txt(e.e)}]'
    if T is L.Clo:
        return '{' + txt(e.e) + '}'
    if T is L.PClo:
        return '{' + txt(e.e) + '}+'
    if T is L.Join:
        if getattr(e, 'assoc', ''):
            # the documented left/right joins  s<{e}+  s>{e}+  (always positive)
            return f'{txt_term(e.sep)}{"<" if e.assoc == "left" else ">"}{{{txt(e.e)}}}+'
        op = '.' if e.gather else '%'
        return f'{txt_term(e.sep)}{op}{{{txt(e.e)}}}' + ('+' if e.positive else '')
    if T is L.LA:
        return '&' + txt_term(e.e)
    if T is L.NLA:
        return '!' + txt_term(e.e)
    if T is L.Named:
        return f'{e.n}:{txt_term(e.e)}'
    if T is L.NamedList:
        return f'{e.n}+:{txt_term(e.e)}'
    if T is L.Over:
        return '@:' + txt_term(e.e)
    if T is L.OverList:
        return '@+:' + txt_term(e.e)
    if T is L.Const:
        return const_text(e.text)
    if T is L.Alert:
        return '^' * e.level + const_text(e.text, alert=True)
    if T is L.Void:
        return '()'
    if T is L.Fail:
        return '!()'
    if T is L.EOF:
        return '$'
    if T is L.EOL:
        return '$->'
    if T is L.Dot:
        return '/./'
    if T is L.SkipTo:
        return '->' + txt_term(e.e)
    if T is L.Empty:
        return '{}'
    if T is L.Cut:
        return '~'
    if T is L.Meta:
        return '@' + e.kind
    if T is L.Include:
        return '>' + e.name
    raise TypeError(e)


_NEEDS_PARENS = (L.Seq, L.Choice, L.Named, L.NamedList, L.Over, L.OverList, L.LA, L.NLA, L.SkipTo)


def txt_term(e):
    if isinstance(e, _NEEDS_PARENS):
        return f'({txt(e)})'
    return txt(e)


def txt_item(e):
    if isinstance(e, (L.Choice, L.Seq)):
        return f'({txt(e)})'
    return txt(e)


def param_text(p):
    if isinstance(p, float) and p in (float('inf'), float('-inf')):
        return '1e999' if p > 0 else '-1e999'
    if isinstance(p, str):
        if p.isidentifier() and p not in ('None', 'True', 'False', 'true', 'false', 'null'):
            return p
        if '::' in p and all(x.isidentifier() for x in p.split('::')):
            return p
        return tok_text(p)
    return repr(p)


def directive_text(k, v):
    if k in ('whitespace', 'comments', 'eol_comments'):
        if v is None or v == 'None':
            return f'@@{k} :: None'
        return f'@@{k} :: {pat_text(v)}'
    if k == 'namechars':
        return f'@@{k} :: {tok_text(v)}'
    return f'@@{k} :: {v}'


def gtext(g: L.Grammar) -> str:
    out = []
    for k, v in g.directives.items():
        out.append(directive_text(k, v))
    for i, kw in enumerate(g.keywords):
        k = kw if kw.isidentifier() else tok_text(kw)
        # a rule header `name[params]` right after the unparenthesised form would be read as a keyword
        out.append(f'@@keyword :: ({k})' if i == len(g.keywords) - 1 else f'@@keyword :: {k}')
    for r in g.rules:
        for d in r.decorators:
            out.append(f'@{d}')
        ps = [param_text(p) for p in r.params] + [f'{k}={param_text(v)}' for k, v in r.kwparams]
        p = f'[{", ".join(ps)}]' if ps else ''
        base = f' < {r.base}' if r.base else ''
        out.append(f'{r.name}{p}{base} = {txt(r.body)} ;')
    return '\n'.join(out) + '\n'


# --------------------------------------------------------------------------- object route
def build_model(g: L.Grammar, name=None):
    """tatsu.peg objects shaped as the text route shapes them (Groups where text needs parens)"""
    from tatsu import peg

    def b(e):
        T = type(e)
        if T is L.Tok:
            return peg.Token(token=e.s)
        if T is L.Pat:
            return peg.Pattern(pattern=e.rx)
        if T is L.Call:
            return peg.Call(name=e.name)
        if T is L.Seq:
            if len(e.items) == 1:
                return b(e.items[0])
            if not e.items:
                return peg.Void()
            return peg.Sequence(sequence=[peg.Group(exp=b(i)) if isinstance(i, (L.Choice, L.Seq)) else b(i)
                                          for i in e.items])
        if T is L.Choice:
            return peg.Choice(options=[peg.Option(exp=peg.Group(exp=b(o)) if isinstance(o, L.Choice) else b(o))
                                       for o in e.opts])
        if T is L.Group:
            return peg.Group(exp=b(e.e))
        if T is L.SkipGroup:
            return peg.SkipGroup(exp=b(e.e))
        if T is L.Opt:
            return peg.Optional(exp=b(e.e))
        if T is L.Clo:
            return peg.Closure(exp=b(e.e))
        if T is L.PClo:
            return peg.PositiveClosure(exp=b(e.e))
        if T is L.Join:
            if getattr(e, 'assoc', ''):
                return (peg.LeftJoin if e.assoc == 'left' else peg.RightJoin)(exp=b(e.e), sep=bt(e.sep))
            cls = {(False, False): peg.Join, (True, False): peg.PositiveJoin,
                   (False, True): peg.Gather, (True, True): peg.PositiveGather}[(e.positive, e.gather)]
            return cls(exp=b(e.e), sep=bt(e.sep))
        if T is L.LA:
            return peg.Lookahead(exp=bt(e.e))
        if T is L.NLA:
            return peg.NegativeLookahead(exp=bt(e.e))
        if T is L.Named:
            return peg.Named(name=e.n, exp=bt(e.e))
        if T is L.NamedList:
            return peg.NamedList(name=e.n, exp=bt(e.e))
        if T is L.Over:
            return peg.Override(exp=bt(e.e))
        if T is L.OverList:
            return peg.OverrideList(exp=bt(e.e))
        if T is L.Const:
            if e.text in NONFINITE_CONSTS:
                return peg.Constant(literal=float(e.text))     # what the text route stores
            if e.text in FALSY_CONSTS:
                return peg.Constant(literal=FALSY_CONSTS[e.text])     # what the text route stores
            return peg.Constant(literal=e.text)
        if T is L.Alert:
            return peg.Alert(literal=e.text, level=e.level)
        if T is L.Void:
            return peg.Void()
        if T is L.Fail:
            return peg.Fail()
        if T is L.EOF:
            return peg.EOF()
        if T is L.EOL:
            return peg.EOL()
        if T is L.Dot:
            return peg.Dot()
        if T is L.SkipTo:
            return peg.SkipTo(exp=bt(e.e))
        if T is L.Empty:
            return peg.EmptyClosure()
        if T is L.Cut:
            return peg.Cut()
        if T is L.Meta:
            cls = {'int': peg.IntMeta, 'uint': peg.UIntMeta, 'float': peg.FloatMeta,
                   'bool': peg.BoolMeta, 'name': peg.NameMeta}[e.kind]
            return cls()
        if T is L.Include:
            return peg.RuleInclude(name=e.name)
        raise TypeError(e)

    def bt(e):
        if isinstance(e, _NEEDS_PARENS):
            return peg.Group(exp=b(e))
        return b(e)

    rules = {}
    for r in g.rules:
        kw = dict(name=r.name, exp=b(r.body), decorators=list(r.decorators), params=tuple(r.params),
                  kwparams=dict(r.kwparams))
        if r.base:
            rule = peg.BasedRule(base=r.base, baserule=rules[r.base], **kw)
        else:
            rule = peg.Rule(**kw)
        rules[r.name] = rule
    directives = L.directive_values(g.directives)
    if 'whitespace' in directives and directives['whitespace'] in (None, False):
        directives['whitespace'] = ''       # what GrammarSemantics.grammar stores for None/False
    return peg.Grammar(name, list(rules.values()), directives=directives, keywords=tuple(g.keywords))


# --------------------------------------------------------------------------- generator
def _map(e, f):
    """bottom-up rewrite"""
    kids = L.children(e)
    if kids:
        e = L.rebuild(e, [_map(k, f) for k in kids])
    return f(e)


def _calls(e):
    return {x.name for x in L.walk(e) if isinstance(x, (L.Call, L.Include))}


class Profile:
    """rates of the extended forms; hazards are drawn at a limited rate"""

    def __init__(self, hazard_rate=0.22, hostile_rate=0.5, style_rate=0.0, nonfinite_rate=0.0):
        self.hazard_rate = hazard_rate
        self.hostile_rate = hostile_rate
        self.style_rate = style_rate
        # non-finite float constants/parameters outside the hazard budget (C14: nothing is pretty-printed there;
        # for C13 the constants are a 'const-renormalised' hazard and the parameters print as the word inf)
        self.nonfinite_rate = nonfinite_rate


def gen_case(rng: random.Random, profile: Profile | None = None):
    """-> (g, start, feats, pats): an L-grammar over the full language, its start rule name, the set of
    feature tags it contains and the pattern->samples map needed to derive inputs"""
    profile = profile or Profile()
    F = dict(G.FEATURES)
    F['cut'] = rng.random() < 0.3
    F['assoc'] = rng.random() < 0.6          # left/right joins  s<{e}+  s>{e}+
    pats = dict(PLAIN_PATS)
    hostile = rng.random() < profile.hostile_rate
    want_hazard = rng.random() < profile.hazard_rate
    if hostile:
        for k in rng.sample(list(HOSTILE_PATS), 2):
            pats[k] = HOSTILE_PATS[k]
        k = rng.choice(list(SLASH_PATS))
        pats[k] = SLASH_PATS[k]
    saved = dict(G.PATS)
    G.PATS.update(pats)
    try:
        g = G.gen_grammar(rng, F, max_rules=rng.choice([2, 3, 3, 4]), pats=list(pats))
    finally:
        G.PATS.clear()
        G.PATS.update(saved)
    feats = set()
    if rng.random() < 0.12:
        # unusual rule names (unicode, words the grammar uses for decorators/metas)
        names = [r_.name for r_ in g.rules]
        new = rng.sample(ODD_RULE_NAMES, len(names))
        mapping = dict(zip(names, new))

        def rn(e):
            return L.Call(mapping[e.name]) if isinstance(e, L.Call) else e
        g = L.Grammar([L.Rule(mapping[r_.name], _map(r_.body, rn)) for r_ in g.rules])
        feats.add('odd_rule_names')
    if rng.random() < 0.15:
        # long bodies: force the multi-line layouts of Sequence/Choice/Group/Optional/Closure/Join
        r_ = rng.choice(g.rules)
        later = [x.name for x in g.rules[g.rules.index(r_) + 1:]]
        extra = tuple(G.gen_exp(rng, 1, later, F, list(PLAIN_PATS)) for _ in range(rng.choice([6, 9, 14])))
        extra = tuple(L.Group(x) if isinstance(x, (L.Choice, L.Seq)) else x for x in extra)
        wrap = rng.choice(['seq', 'opt', 'clo', 'join', 'group', 'named', 'choice', 'ljoin', 'rjoin'])
        if wrap == 'choice':
            big = L.Group(L.Choice(tuple(L.Seq(extra[i:i + 3]) for i in range(0, len(extra), 3))))
        else:
            big = L.Seq(extra)
            big = {'seq': lambda b: b, 'opt': L.Opt, 'clo': L.PClo, 'group': L.Group,
                   'join': lambda b: L.Join(L.Tok(';'), b, True, False),
                   'ljoin': lambda b: L.Join(L.Tok(';'), b, True, False, 'left'),
                   'rjoin': lambda b: L.Join(L.Tok(';'), b, True, False, 'right'),
                   'named': lambda b: L.Named('big', L.Group(b))}[wrap](big)
        body = r_.body
        items = list(body.items) if isinstance(body, L.Seq) else [L.Group(body) if isinstance(body, L.Choice) else body]
        r_.body = L.Seq(tuple(items + (list(big.items) if isinstance(big, L.Seq) else [big])))
        feats.add('long_body')
        if wrap in ('ljoin', 'rjoin'):
            feats.add('assoc_join_multiline')
    if rng.random() < 0.05:
        # a left/right join at a guaranteed rate (vt.gen draws them only now and then)
        r_ = rng.choice(g.rules)
        later = [x.name for x in g.rules[g.rules.index(r_) + 1:]]
        inner = G.gen_exp(rng, rng.choice([0, 1, 2]), later, F, list(PLAIN_PATS))
        sep = rng.choice([L.Tok(','), L.Tok('+'), L.Pat('[ab]'), L.Group(L.Choice((L.Tok('+'), L.Tok('-'))))])
        j = L.Join(sep, inner, True, False, rng.choice(['left', 'right']))
        if rng.random() < 0.3:
            j = L.Opt(j)
        body = r_.body
        items = list(body.items) if isinstance(body, L.Seq) else [L.Group(body) if isinstance(body, L.Choice) else body]
        items.insert(rng.randrange(len(items) + 1), j)
        r_.body = L.Seq(tuple(items))
    start = g.rules[0].name

    # ---- leaves of the extended language
    def leafswap(e):
        r = rng.random()
        if isinstance(e, L.Tok):
            if hostile and r < 0.30:
                feats.add('hostile_tok')
                return L.Tok(rng.choice(HOSTILE_TOKS))
            if profile.style_rate and r < 0.30 + profile.style_rate:
                feats.add('style_tok')
                return L.Tok(rng.choice(STYLE_TOKS))
            if r > 0.93:
                feats.add('meta')
                return L.Meta(rng.choice(METAS))
            if r > 0.90:
                feats.add('const_ext')
                return L.Const(rng.choice(CONSTS))
            return e
        if isinstance(e, L.Const) and (r < 0.5 or renormalised(e.text)):
            feats.add('const_ext')
            return L.Const(rng.choice(CONSTS))
        return e

    for r_ in g.rules:
        r_.body = _map(r_.body, leafswap)
        # the text form cannot express a meta as a separator (`@int.{e}` reads `@int` as an element)
        r_.body = _map(r_.body, lambda e: L.rebuild(e, [L.Tok(','), e.e])
                       if isinstance(e, L.Join) and isinstance(e.sep, L.Meta) else e)

    def add_to_seq(rule, extra, where='end'):
        b = rule.body
        items = list(b.items) if isinstance(b, L.Seq) else [L.Group(b) if isinstance(b, L.Choice) else b]
        if where == 'end':
            items.append(extra)
        else:
            items.insert(rng.randrange(len(items) + 1), extra)
        rule.body = L.Seq(tuple(items))

    if rng.random() < 0.25:
        feats.add('alert')
        add_to_seq(rng.choice(g.rules), L.Alert(rng.choice(ALERTS), rng.choice([1, 1, 2, 3])), 'any')
    if rng.random() < 0.15:
        feats.add('meta')
        add_to_seq(rng.choice(g.rules), L.Meta(rng.choice(METAS)), 'any')
    if rng.random() < 0.07:
        # the empty constant `` and constants made of blanks
        c = L.Const(rng.choice(EMPTY_CONSTS))
        if rng.random() < 0.4:
            c = L.Named(rng.choice(['n', 'm', 'e']), c)
        add_to_seq(rng.choice(g.rules), c, 'any')
    if profile.nonfinite_rate and rng.random() < profile.nonfinite_rate:
        add_to_seq(rng.choice(g.rules), L.Const(rng.choice(NONFINITE_CONSTS)), 'any')
    if rng.random() < 0.08:
        # constants whose value is None / False / 0 / 0.0 (each route must keep them apart from "no literal")
        c = L.Const(rng.choice(sorted(FALSY_CONSTS)))
        if rng.random() < 0.5:
            c = L.Named(rng.choice(['n', 'm', 'e']), c)
        add_to_seq(rng.choice(g.rules), c, 'any')

    # ---- fragment rules first (include / base targets must be defined earlier and call nothing)
    frags = []
    if rng.random() < 0.35:
        n = rng.choice([1, 1, 2])
        for fn in FRAG_NAMES[:n]:
            body = G.gen_exp(rng, rng.choice([0, 1, 1]), [], F, list(PLAIN_PATS))
            if isinstance(body, L.Choice):
                body = L.Group(body)
            body = _map(body, lambda e: L.Const('zq') if isinstance(e, L.Const) and renormalised(e.text) else e)
            frags.append(L.Rule(fn, body))
        for fr in frags:
            user = rng.choice(g.rules)
            if rng.random() < 0.5:
                feats.add('include')
                add_to_seq(user, L.Include(fr.name), 'any')
            elif user.base is None:
                feats.add('based')
                user.base = fr.name
        g.rules = frags + g.rules

    # ---- rule decorations
    for r_ in g.rules:
        x = rng.random()
        if x < 0.12:
            ps = rng.sample(PARAMS, rng.choice([1, 1, 2]))
            ps.sort(key=lambda p: not (isinstance(p, str) and '::' in p))   # a path can only come first
            r_.params = tuple(ps)
            feats.add('params')
            if rng.random() < 0.5:
                r_.kwparams = tuple((k, rng.choice(KWVALS)) for k in rng.sample(['k', 'kw', 'z'], rng.choice([1, 2])))
                feats.add('kwparams')
        elif x < 0.16:
            r_.kwparams = (('k', rng.choice(KWVALS)),)
            feats.add('kwparams')
        y = rng.random()
        if y < 0.10:
            r_.decorators = ('name',)
            feats.add('dec_name')
        elif y < 0.13:
            r_.decorators = ('isname',)
            feats.add('dec_isname')
    if rng.random() < 0.06:
        # a NUMBER as first parameter (under model-building semantics the first parameter names the node type)
        cands = [x for x in g.rules if not x.base]
        if cands:
            r_ = rng.choice(cands)
            ps = [rng.choice(NUMERIC_FIRST_PARAMS)]
            if rng.random() < 0.5:
                ps.append(rng.choice(['x', 'A', 'Node']))
            r_.params = tuple(ps)
    if profile.nonfinite_rate and rng.random() < profile.nonfinite_rate:
        cands = [x for x in g.rules if not x.base]
        if cands:
            r_ = rng.choice(cands)
            x = rng.choice(NONFINITE_PARAMS)
            r_.params = rng.choice([(x,), ('A', x), (x, 'b')])
            if rng.random() < 0.4:
                # (keyword parameter values too: /repo 1e68cf0 repaired kwparams={'k': inf} in the emitted source)
                r_.params = ('A',)
                r_.kwparams = (('k', x),)
    if rng.random() < 0.08:
        # an @override redefinition of an existing rule (the later definition wins)
        victim = rng.choice(g.rules)
        if not victim.base and victim.name != start and not any(
                r_.base == victim.name or victim.name in _incl(r_.body) for r_ in g.rules):
            feats.add('dec_override')
            g.rules.append(L.Rule(victim.name, L.Tok(rng.choice(PLAIN_TOKS)), ('override',)))

    # ---- directives and keywords
    d = {}
    if rng.random() < 0.4:
        if rng.random() < 0.35:
            d['whitespace'] = rng.choice(WS_DIRECTIVES + (WS_SLASH_DIRECTIVES if hostile else []))
        if rng.random() < 0.25:
            d['nameguard'] = rng.choice(['True', 'False'])
        if rng.random() < 0.2:
            d['namechars'] = rng.choice(NAMECHARS)
        if rng.random() < 0.25:
            d['ignorecase'] = rng.choice(['True', 'True', 'False'])
        if rng.random() < 0.2:
            d['parseinfo'] = rng.choice(['True', 'False'])
        if rng.random() < 0.2:
            d['eol_comments'] = rng.choice(EOLC_DIRECTIVES)
        if rng.random() < 0.2:
            d['comments'] = rng.choice(COMMENT_DIRECTIVES)
        if rng.random() < 0.15:
            d['left_recursion'] = rng.choice(['True', 'False'])
        if rng.random() < 0.15:
            d['memoization'] = rng.choice(['True', 'False'])
        if rng.random() < 0.2:
            d['grammar'] = rng.choice(GRAMMAR_NAMES)
        g.directives = d
        for k in d:
            feats.add('dir:' + k)
    if rng.random() < 0.2:
        kws = rng.sample(KEYWORDS, rng.choice([1, 2, 3]))
        if hostile and rng.random() < 0.3:
            kws.append(rng.choice(HOSTILE_KEYWORDS))
        if rng.random() < 0.35:
            # a LONG list (8-40) with every kind of character at the possible wrap points, and a @name rule
            # that can read any of them so that keyword rejection is exercised for each keyword
            kws = rng.sample(LONG_KEYWORD_POOL, rng.choice([8, 10, 12, 16, 20, 25, 30, 40]))
            feats.add('long_keywords')
            if rng.random() < 0.5:
                d = dict(g.directives)
                d['namechars'] = rng.choice(['-', '-', "-'", '-_$'])
                g.directives = d
                feats.add('dir:namechars')
            kwrule = L.Rule('kwname', L.Pat(KEYWORD_NAME_PAT), ('name',))
            pats[KEYWORD_NAME_PAT] = list(kws) + [k + 'x' for k in kws[:6]] + ['plain', 'not-a-kw', 'two words']
            srule = next(r_ for r_ in g.rules if r_.name == start)
            old = srule.body
            srule.body = L.Choice((L.Seq((L.Call('kwname'), L.EOF())), L.Group(old) if isinstance(old, L.Choice) else old))
            g.rules.append(kwrule)
        g.keywords = tuple(kws)
        feats.add('keywords')
        for r_ in g.rules:
            if rng.random() < 0.4 and not r_.decorators:
                r_.decorators = ('name',)

    # ---- keep the known-defective combinations out of the default space (injected below at a limited rate)
    rm = {r_.name: r_ for r_ in g.rules}
    for r_ in g.rules:
        if r_.base and (r_.params or r_.kwparams or rm[r_.base].params or rm[r_.base].kwparams):
            r_.params, r_.kwparams = (), ()
            rm[r_.base].params, rm[r_.base].kwparams = (), ()
    for i_, r_ in enumerate(g.rules[:-1]):
        if isinstance(_last_element(r_.body), L.Empty):
            add_to_seq(r_, L.Void(), 'end')
    first = g.rules[0]
    if g.keywords and (first.params or first.kwparams) and not ({'name', 'isname'} & set(first.decorators)):
        first.params, first.kwparams = (), ()

    # @bool never fails and can move the cursor BACKWARDS (match_bool returns -1, cursor.goto(-1)):
    # inside any loop that is a genuine endless loop in the real parser (C08's finding, not ours),
    # so @bool is only kept in loop-free grammars
    if any(isinstance(x, (L.Clo, L.PClo, L.Join, L.SkipTo)) for r_ in g.rules for x in L.walk(r_.body)):
        for r_ in g.rules:
            r_.body = _map(r_.body, lambda e: L.Meta('name') if isinstance(e, L.Meta) and e.kind == 'bool' else e)

    # ---- hazards (limited rate, usually one at a time)
    if want_hazard:
        hz = rng.choice(list(HAZARD_INJECT))
        HAZARD_INJECT[hz](rng, g, start, pats, add_to_seq)
        now = hazards(g)
        if 'keyword-then-params' in now and len(now) > 1:
            # overlapping hazards (the same parameters) cannot be told apart: keep the injected one
            if hz == 'keyword-then-params':
                for r_ in g.rules:
                    r_.base = None
            else:
                g.keywords = ()
    for r_ in g.rules:
        for x in L.walk(r_.body):
            if isinstance(x, L.Join) and getattr(x, 'assoc', ''):
                feats.add('assoc_join')
                feats.add('assoc_join:' + x.assoc)
            elif isinstance(x, L.Const) and x.text.strip(' ') == '':
                feats.add('empty_constant')
            elif isinstance(x, L.Const) and x.text in FALSY_CONSTS:
                feats.add('falsy_constant')
            elif isinstance(x, L.Const) and x.text in NONFINITE_CONSTS:
                feats.add('nonfinite_float')
                feats.add('nonfinite_float:constant')
        if r_.params and isinstance(r_.params[0], (int, float)) and not isinstance(r_.params[0], bool):
            feats.add('numeric_first_param')
        if any(isinstance(p, float) and p in NONFINITE_PARAMS for p in list(r_.params) + [v for _, v in r_.kwparams]):
            feats.add('nonfinite_float')
            feats.add('nonfinite_float:param')
    feats |= {'hz:' + h for h in hazards(g)}
    return g, start, feats, pats


def _incl(e):
    return {x.name for x in L.walk(e) if isinstance(x, L.Include)}


def _swap_some(rng, g, cls, make):
    """replace one random leaf of class cls (or append to a rule) by make()"""
    sites = [(r, x) for r in g.rules for x in L.walk(r.body) if isinstance(x, cls)]
    if not sites:
        return False
    r, target = rng.choice(sites)
    done = []

    def f(e):
        if e is target and not done:
            done.append(1)
            return make()
        return e
    r.body = _map(r.body, f)
    return True


def _inj_eol(rng, g, start, pats, add):
    add(rng.choice(g.rules), L.EOL(), rng.choice(['end', 'any']))


def _inj_based_params(rng, g, start, pats, add):
    based = [r for r in g.rules if r.base]
    if not based:
        fr = L.Rule('Base', L.Tok(rng.choice(PLAIN_TOKS)))
        if any(r.name == 'Base' for r in g.rules):
            return
        g.rules.insert(0, fr)
        user = rng.choice(g.rules[1:])
        if user.decorators == ('override',):
            return
        user.base = 'Base'
        based = [user]
    r = rng.choice(based)
    r.params = (rng.choice(['A', 'Node']),)


def _inj_tok_both(rng, g, start, pats, add):
    if not _swap_some(rng, g, L.Tok, lambda: L.Tok(rng.choice(BOTH_QUOTES_TOKS))):
        add(rng.choice(g.rules), L.Tok(rng.choice(BOTH_QUOTES_TOKS)), 'any')


def _inj_nomemo(rng, g, start, pats, add):
    r = rng.choice(g.rules)
    if r.decorators != ('override',):
        r.decorators = ('nomemo',)


def _inj_nostak(rng, g, start, pats, add):
    r = rng.choice(g.rules)
    if r.decorators != ('override',):
        r.decorators = ('nostak',)


def _inj_empty_end(rng, g, start, pats, add):
    if len(g.rules) < 2:
        g.rules.append(L.Rule('tail', L.Tok('c')))
    r = rng.choice(g.rules[:-1])
    add(r, L.Empty(), 'end')


def _inj_ml_const(rng, g, start, pats, add):
    add(rng.choice(g.rules), L.Const(rng.choice(MULTILINE_CONSTS)), 'any')


def _inj_pat_sd(rng, g, start, pats, add):
    k = rng.choice(list(SLASH_DQUOTE_PATS))
    pats[k] = SLASH_DQUOTE_PATS[k]
    if not _swap_some(rng, g, L.Pat, lambda: L.Pat(k)):
        add(rng.choice(g.rules), L.Pat(k), 'any')


def _inj_pat_trim(rng, g, start, pats, add):
    k = rng.choice(list(TRIM_PATS))
    pats[k] = TRIM_PATS[k]
    if not _swap_some(rng, g, L.Pat, lambda: L.Pat(k)):
        add(rng.choice(g.rules), L.Pat(k), 'any')


def _inj_param_numlike(rng, g, start, pats, add):
    r = rng.choice([x for x in g.rules if not x.base] or g.rules)
    r.params = (rng.choice(NUMLIKE_PARAMS),)
    _unbase_params(g)


def _unbase_params(g):
    """keep parameter hazards apart from the based-rule one"""
    rm = {r.name: r for r in g.rules}
    for r in g.rules:
        if r.base and (r.params or r.kwparams or rm[r.base].params or rm[r.base].kwparams):
            r.base = None
    if g.keywords and (g.rules[0].params or g.rules[0].kwparams):
        g.keywords = ()


def _inj_const_renorm(rng, g, start, pats, add):
    add(rng.choice(g.rules), L.Const(rng.choice(RENORM_CONSTS)), 'any')


def _inj_const_nonfinite(rng, g, start, pats, add):
    c = L.Const(rng.choice(NONFINITE_CONSTS))
    add(rng.choice(g.rules), L.Named('x', c) if rng.random() < 0.3 else c, 'any')


def _inj_alert_numeric(rng, g, start, pats, add):
    add(rng.choice(g.rules), L.Alert(rng.choice(NUMERIC_ALERTS), rng.choice([1, 2])), 'any')


def _inj_param_nonstr(rng, g, start, pats, add):
    r = rng.choice([x for x in g.rules if not x.base] or g.rules)
    ps = [rng.choice(NONSTR_PARAMS)]
    if rng.random() < 0.5:
        ps.insert(rng.randrange(2), rng.choice(['A', 'b']))
    r.params = tuple(ps)
    _unbase_params(g)


def _inj_keyword_params(rng, g, start, pats, add):
    if not g.keywords:
        g.keywords = tuple(rng.sample(KEYWORDS, 2))
    r = g.rules[0]
    r.decorators = tuple(d for d in r.decorators if d not in ('name', 'isname'))
    if not (r.params or r.kwparams):
        if rng.random() < 0.5:
            r.params = (rng.choice(['A', 'Node']),)
        else:
            r.kwparams = (('k', 'v'),)


def _inj_pat(pool):
    def inj(rng, g, start, pats, add):
        k = rng.choice(list(pool))
        pats[k] = pool[k]
        if not _swap_some(rng, g, L.Pat, lambda: L.Pat(k)):
            add(rng.choice(g.rules), L.Pat(k), 'any')
    return inj


def _inj_ws_none(rng, g, start, pats, add):
    g.directives = dict(g.directives)
    g.directives['whitespace'] = 'None'


def _inj_dir_quote(rng, g, start, pats, add):
    g.directives = dict(g.directives)
    g.directives[rng.choice(['whitespace', 'whitespace', 'eol_comments'])] = rng.choice(WS_SLASH_DQUOTE_DIRECTIVES)


def _inj_pat_multiline(rng, g, start, pats, add):
    k = rng.choice(list(MULTILINE_PATS))
    pats[k] = MULTILINE_PATS[k]
    if not _swap_some(rng, g, L.Pat, lambda: L.Pat(k)):
        add(rng.choice(g.rules), L.Pat(k), 'any')


HAZARD_INJECT = {
    'eol': _inj_eol,
    'based-params': _inj_based_params,
    'tok-both-quotes': _inj_tok_both,
    'nomemo': _inj_nomemo,
    'nostak': _inj_nostak,
    'empty-closure-end': _inj_empty_end,
    'multiline-const': _inj_ml_const,
    'pattern-slash-dquote': _inj_pat_sd,
    'pattern-trim': _inj_pat_trim,
    'param-numlike': _inj_param_numlike,
    'const-renormalised': _inj_const_renorm,
    'const-renormalised:nonfinite': _inj_const_nonfinite,      # same mechanism (hazard 'const-renormalised')
    'alert-numeric': _inj_alert_numeric,
    'param-nonstr': _inj_param_nonstr,
    'keyword-then-params': _inj_keyword_params,
    'pattern-multiline': _inj_pat_multiline,
    'pattern-empty': _inj_pat({'': ['']}),
    'whitespace-none': _inj_ws_none,
    'directive-regex-quote': _inj_dir_quote,
    'pattern-slash-newline': _inj_pat(SLASH_NEWLINE_PATS),
}


# --------------------------------------------------------------------------- hazards: detect / neutralise
def _last_element(e):
    """the element that is printed last in the rule body"""
    while True:
        if isinstance(e, L.Seq) and e.items:
            e = e.items[-1]
        elif isinstance(e, L.Choice) and e.opts:
            e = e.opts[-1]
        elif isinstance(e, (L.Named, L.NamedList, L.Over, L.OverList, L.LA, L.NLA, L.SkipTo)):
            e = e.e
        elif isinstance(e, L.Join) and False:
            e = e.e
        else:
            return e


def _strs(g):
    for r in g.rules:
        for x in L.walk(r.body):
            if isinstance(x, L.Tok):
                yield x.s
        for p in r.params:
            if isinstance(p, str):
                yield p
        for _, v in r.kwparams:
            if isinstance(v, str):
                yield v
    yield from g.keywords
    nc = g.directives.get('namechars')
    if isinstance(nc, str):
        yield nc


def _trim_changes(rx):
    lines = rx.split('\n')
    return rx != rx.strip() or any(ln[:1] in ' \t' for ln in lines[1:]) or any(ln != ln.rstrip() for ln in lines)


def _numlike(p):
    if not isinstance(p, str) or not p.isalnum():
        return False
    return p in ('None', 'True', 'False', 'true', 'false', 'null') or p[0].isdigit()


def pattern_hazards(rx: str) -> set:
    if rx == '':
        return {'pattern-empty'}
    if '/' in rx and '"' in rx:
        return {'pattern-slash-dquote'}
    if '/' in rx and '\n' in rx:
        return {'pattern-slash-newline'}
    if _trim_changes(rx):
        return {'pattern-trim'}
    if '\n' in rx:
        return {'pattern-multiline'}
    return set()


def hazards(g: L.Grammar) -> set:
    hz = set()
    rm = {r.name: r for r in g.rules}
    for i, r in enumerate(g.rules):
        for x in L.walk(r.body):
            if isinstance(x, L.EOL):
                hz.add('eol')
            elif isinstance(x, (L.Const, L.Alert)) and '\n' in x.text:
                hz.add('multiline-const')
            elif isinstance(x, L.Alert) and numeric_like(x.text):
                hz.add('alert-numeric')
            elif isinstance(x, L.Const) and renormalised(x.text):
                hz.add('const-renormalised')
            elif isinstance(x, L.Pat):
                hz |= pattern_hazards(x.rx)
        if r.base and (r.params or r.kwparams or rm[r.base].params or rm[r.base].kwparams):
            hz.add('based-params')
        if any(not isinstance(p, str) for p in r.params):
            hz.add('param-nonstr')
        if 'nomemo' in r.decorators:
            hz.add('nomemo')
        if 'nostak' in r.decorators:
            hz.add('nostak')
        if i < len(g.rules) - 1 and isinstance(_last_element(r.body), L.Empty):
            hz.add('empty-closure-end')
        if any(_numlike(p) for p in r.params) or any(_numlike(v) for _, v in r.kwparams):
            hz.add('param-numlike')
    for s in _strs(g):
        if "'" in s and '"' in s:
            hz.add('tok-both-quotes')
    for k in ('whitespace', 'comments', 'eol_comments'):
        v = g.directives.get(k)
        if k == 'whitespace' and k in g.directives and v in (None, 'None', 'False', ''):
            hz.add('whitespace-none')
        elif isinstance(v, str) and '/' in v and '"' in v:
            hz.add('directive-regex-quote')
    f = g.rules[0] if g.rules else None
    if f is not None and g.keywords and (f.params or f.kwparams) and not ({'name', 'isname'} & set(f.decorators)):
        hz.add('keyword-then-params')
    return hz


def neutralise(g: L.Grammar, hz: set) -> L.Grammar:
    """the same grammar with the listed hazard forms replaced by harmless neighbours"""
    def fix_str(s):
        if 'tok-both-quotes' in hz and "'" in s and '"' in s:
            return s.replace('"', 'q')
        return s

    def f(e):
        if isinstance(e, L.EOL) and 'eol' in hz:
            return L.EOF()
        if isinstance(e, L.Const) and '\n' in e.text and 'multiline-const' in hz:
            return L.Const(e.text.replace('\n', ' '))
        if isinstance(e, L.Alert) and '\n' in e.text and 'multiline-const' in hz:
            return L.Alert(e.text.replace('\n', ' '), e.level)
        if isinstance(e, L.Alert) and 'alert-numeric' in hz and numeric_like(e.text):
            return L.Alert('n' + e.text, e.level)
        if isinstance(e, L.Const) and 'const-renormalised' in hz and renormalised(e.text):
            return L.Const('zq')
        if isinstance(e, L.Pat):
            rx = e.rx
            ph = pattern_hazards(rx) & hz
            if 'pattern-empty' in ph:
                rx = 'a?'
            elif 'pattern-slash-dquote' in ph:
                rx = rx.replace('"', 'q')
            elif 'pattern-slash-newline' in ph:
                rx = rx.replace('\n', '[\\n]')
            elif 'pattern-trim' in ph:
                rx = '[\\n]'.join(ln.strip() for ln in rx.split('\n')) or 'a'
            elif 'pattern-multiline' in ph:
                rx = rx.replace('\n', '[\\n]')
            return L.Pat(rx) if rx != e.rx else e
        if isinstance(e, L.Tok):
            s = fix_str(e.s)
            return L.Tok(s) if s != e.s else e
        return e

    rules = []
    n = len(g.rules)
    bases = {r.base for r in g.rules if r.base}
    for i, r in enumerate(g.rules):
        body = _map(r.body, f)
        if 'empty-closure-end' in hz and i < n - 1 and isinstance(_last_element(body), L.Empty):
            body = L.Seq((L.Group(body) if isinstance(body, L.Choice) else body, L.Void())) \
                if not isinstance(body, L.Seq) else L.Seq(body.items + (L.Void(),))
        params, kwparams, decorators = r.params, r.kwparams, r.decorators
        if 'based-params' in hz and (r.base or r.name in bases):
            params, kwparams = (), ()
        if 'param-nonstr' in hz:
            params = tuple(p if isinstance(p, str) else 'P' + ''.join(c for c in repr(p) if c.isalnum()) for p in params)
        if 'keyword-then-params' in hz and i == 0 and g.keywords:
            params, kwparams = (), ()
        if 'nomemo' in hz:
            decorators = tuple(d for d in decorators if d != 'nomemo')
        if 'nostak' in hz:
            decorators = tuple(d for d in decorators if d != 'nostak')
        if 'param-numlike' in hz:
            params = tuple('P' + p if _numlike(p) else p for p in params)
            kwparams = tuple((k, 'P' + v if _numlike(v) else v) for k, v in kwparams)
        params = tuple(fix_str(p) if isinstance(p, str) else p for p in params)
        kwparams = tuple((k, fix_str(v) if isinstance(v, str) else v) for k, v in kwparams)
        rules.append(L.Rule(r.name, body, decorators, params, kwparams, r.base))
    d = dict(g.directives)
    if isinstance(d.get('namechars'), str):
        d['namechars'] = fix_str(d['namechars'])
    if 'whitespace-none' in hz and 'whitespace' in d and d['whitespace'] in (None, 'None', 'False', ''):
        del d['whitespace']
    if 'directive-regex-quote' in hz:
        for k in ('whitespace', 'comments', 'eol_comments'):
            if isinstance(d.get(k), str) and '/' in d[k] and '"' in d[k]:
                d[k] = d[k].replace('"', 'q')
    return L.Grammar(rules, d, tuple(fix_str(k) for k in g.keywords))


# --------------------------------------------------------------------------- inputs
def derivation_view(g: L.Grammar, pats: dict):
    """an L-grammar vt.gen.derive understands: metas as patterns with samples, includes as calls,
    based rules as base-then-body"""
    view_pats = dict(pats)

    def f(e):
        if isinstance(e, L.Meta):
            k = '@' + e.kind
            view_pats[k] = META_SAMPLES[e.kind]
            return L.Pat(k)
        if isinstance(e, L.Include):
            return L.Call(e.name)
        return e

    rules = []
    seen = {}
    for r in g.rules:
        body = _map(r.body, f)
        if r.base:
            body = L.Seq((L.Call(r.base), L.Group(body) if isinstance(body, L.Choice) else body))
        nr = L.Rule(r.name, body)
        if r.name in seen:          # @override: the later definition wins, at the first position
            rules[seen[r.name]] = nr
        else:
            seen[r.name] = len(rules)
            rules.append(nr)
    return L.Grammar(rules), view_pats


def alphabet_of(g: L.Grammar) -> str:
    chars = set('abc ,')
    for r in g.rules:
        for x in L.walk(r.body):
            if isinstance(x, L.Tok):
                chars.update(x.s[:3])
    return ''.join(sorted(chars))


def gen_inputs(rng, g: L.Grammar, start: str, n: int, pats: dict):
    view, vp = derivation_view(g, pats)
    saved = dict(G.PATS)
    G.PATS.update(vp)
    try:
        out = G.gen_inputs(rng, view, start, n, alphabet=alphabet_of(g))
    finally:
        G.PATS.clear()
        G.PATS.update(saved)
    if g.directives.get('ignorecase') == 'True' and rng.random() < 0.5:
        out = [t.upper() if rng.random() < 0.5 else t for t in out]
    if len(g.keywords) >= 8:
        # long keyword lists: every keyword (and a near miss) is tried as an input of the @name rule
        for k in g.keywords:
            out.append(k)
        out.extend(k + 'x' for k in g.keywords[:4])
    return out


# --------------------------------------------------------------------------- observation
def outcome(model, text, start=None, **kw):
    """one real parse -> ('ok', canon(ast)) | ('fail',) | ('EXC', class)"""
    from tatsu.exceptions import FailedParse
    try:
        return ('ok', canon(model.parse(text, start=start, **kw)))
    except FailedParse:
        return ('fail',)
    except RecursionError:
        return ('EXC', 'RecursionError')
    except Exception as e:  # noqa: BLE001 - the class is the observation
        return ('EXC', type(e).__name__)


def rule_facts(model):
    """what the statement says must be kept: per rule name/params/kwparams/base/parsing decorators"""
    out = []
    for r in model.rules:
        out.append({'name': r.name, 'params': [repr(p) for p in (r.params or ())],
                    'kwparams': {k: repr(v) for k, v in (r.kwparams or {}).items()},
                    'base': r.base or None, 'is_name': bool(r.is_name),
                    'nomemo': bool(r.no_memo) or 'nomemo' in (r.decorators or []),
                    'nostak': bool(r.no_stak)})
    return out


def directive_facts(model):
    return {k: (v if isinstance(v, (bool, int, float, type(None))) else str(v)) for k, v in model.directives.items()}


# --------------------------------------------------------------------------- ANTLR (g2e route)
def antlr_case(rng: random.Random):
    """-> (antlr text, start rule, sample inputs)"""
    negs = rng.random() < 0.4        # ~x (known layout defect) only in part of the grammars

    def atom(depth):
        r = rng.random()
        if depth > 0 and r < 0.25:
            return '(' + alts(depth - 1) + ')'
        if r < 0.32:
            return "~'" + rng.choice('ab') + "'" if negs else "'a'"
        return rng.choice(["'a'", "'b'", "'c'", "'+'", "'('", "')'", 'ID', 'NUM', 'PLUS', 'term', 'factor',
                           '"dq"', '[a-c]', '[0-9]+', '.', "'it\\'s'", 'UNDEF'])

    def element(depth):
        a = atom(depth)
        r = rng.random()
        if a[-1] in '+*?':
            r = 0.5 + r / 2
        if r < 0.15:
            return a + '*'
        if r < 0.3:
            return a + '+'
        if r < 0.45:
            return a + '?'
        if r < 0.55 and not a.startswith('~'):
            return rng.choice(['x', 'y']) + rng.choice(['=', '+=']) + a
        return a

    def alt(depth):
        return ' '.join(element(depth) for _ in range(rng.choice([1, 2, 2, 3])))

    def alts(depth):
        return ' | '.join(alt(depth) for _ in range(rng.choice([1, 1, 2, 3])))

    lines = ['grammar G;']
    x = rng.random()
    if x < 0.12:
        lines.append("tokens { TA='ta'; TB }")
    elif x < 0.3:
        lines.append("tokens { TB; TC }")
    lines.append(f'expr : {alts(2)} ;')
    lines.append(f'term : {alts(1)} ;')
    lines.append("factor : 'c' | NUM ;")
    if rng.random() < 0.5:
        lines.append(f'camelCase : {alts(1)} ;')
    lines.append("PLUS : '+' ;")
    lines.append('ID : [a-z]+ ;')
    lines.append("NUM : ('0'..'9')+ ;")
    if rng.random() < 0.4:
        lines.append("WS : (' ' | '\\n')+ ;")
    text = '\n'.join(lines) + '\n'
    inputs = ['a', 'b', 'c', 'a b', 'a + b', 'c c', '( a )', '', 'dq', "it's", 'a a a', '+', 'c + c', 'ab', 'a c +']
    rng.shuffle(inputs)
    return text, 'expr', inputs[:8]
