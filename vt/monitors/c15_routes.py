"""C15: the four routes from a grammar text to a grammar model, and the probes around them.

A  the shipped generated bootstrap parser `tatsu/boot/bootstrap.py` as `tatsu.compile` drives it
   (`tatsu.boot.TatSuParserGenerator`, which installs `GrammarSemantics`);
B  the shipped grammar model `tatsu/boot/bootparser.py:GRAMMAR_MODEL` through its own
   `TatSuBootstrapParser` front end;
C  `tatsu.compile(<tatsu/_tatsu.ebnf>)` -- the model of the shipped grammar file, interpreted;
D  a parser generated *now* from the grammar file with the real code generator
   (`tatsu.to_python_sourcecode`) and exec'd.

Every route gets a fresh `GrammarSemantics` per text.  Nothing of TatSu is re-implemented here: a
route's observation is what the real code returned or raised.
"""
from __future__ import annotations

import json
import os
import re

from ..common import REPO

ROUTES = ('A', 'B', 'C', 'D')


class Outcome:
    __slots__ = ('kind', 'json', 'pretty', 'rep', 'exc', 'pos', 'stack', 'msg', 'pinfo', 'model')

    def __init__(self):
        self.kind = None      # 'ok' | 'reject' | 'crash'
        self.json = None      # canonical JSON text of model.asjson()
        self.pretty = None
        self.rep = None
        self.exc = None       # exception class name
        self.pos = None
        self.stack = None
        self.msg = None
        self.pinfo = None     # tuple of (rule name, line, pos, endpos) per rule, or None if the model has no parseinfo
        self.model = None

    def brief(self):
        if self.kind == 'ok':
            return 'ok'
        return f'{self.kind}:{self.exc}@{self.pos}' + (f' in {self.stack[-1]}' if self.stack else '')


class Routes:
    def __init__(self, acc=None):
        import tatsu
        from tatsu.boot import boot, bootparser, bootstrap
        from tatsu.exceptions import ParseException
        from tatsu.peg import GrammarSemantics

        self.tatsu = tatsu
        self.boot = boot
        self.bootparser = bootparser
        self.bootstrap = bootstrap
        self.ParseException = ParseException
        self.GrammarSemantics = GrammarSemantics
        self.grammar_file = os.path.join(REPO, 'tatsu', '_tatsu.ebnf')
        with open(self.grammar_file, encoding='utf-8') as f:
            self.grammar_text = f.read()
        # C: the grammar file compiled now (through the public API)
        self.C = tatsu.compile(self.grammar_text)
        # D: regenerated now with the real code generator
        self.D_source = tatsu.to_python_sourcecode(self.grammar_text)
        ns = {'__name__': 'c15_regenerated_bootstrap'}
        exec(compile(self.D_source, '<regenerated from _tatsu.ebnf>', 'exec'), ns)  # noqa: S102
        name = self.C.directives.get('grammar', self.C.name)
        self.D_parser_cls = ns[f'{name}Parser']
        self.D_rules_cls = ns[f'{name}Rules']
        self.rule_names = [r.name for r in self.C.rules]
        self.static_facts(acc)

    # ------------------------------------------------------------ static probes
    def static_facts(self, acc):
        """evidence only (never a verdict): how the shipped artefacts relate textually/structurally"""
        self.facts = {}
        try:
            api_gen = self.tatsu.api.api.TatSuParserGenerator if hasattr(self.tatsu, 'api') else None
            import tatsu.api.api as api
            api_gen = api.TatSuParserGenerator
            self.facts['compile_uses_bootstrap_py'] = bool(
                issubclass(api_gen, self.bootstrap.TatSuBootstrapParser) and api_gen is self.boot.TatSuParserGenerator)
        except Exception as e:  # noqa: BLE001
            self.facts['compile_uses_bootstrap_py'] = f'unobserved: {type(e).__name__}'
        try:
            ja = self.bootparser.GRAMMAR_MODEL.asjson()
            jc = self.C.asjson()
            ja = dict(ja)
            jc = dict(jc)
            ja.pop('name', None)
            jc.pop('name', None)
            self.facts['GRAMMAR_MODEL_asjson_equals_compiled_grammar_file'] = (
                json.dumps(ja, sort_keys=True, default=repr) == json.dumps(jc, sort_keys=True, default=repr))
        except Exception as e:  # noqa: BLE001
            self.facts['GRAMMAR_MODEL_asjson_equals_compiled_grammar_file'] = f'unobserved: {type(e).__name__}'
        try:
            with open(self.bootstrap.__file__, encoding='utf-8') as f:
                shipped = f.read()
            a = _rule_methods(shipped)
            d = _rule_methods(self.D_source)
            same = sum(1 for k in d if a.get(k) == d[k])
            self.facts['rule_methods_regenerated'] = len(d)
            self.facts['rule_methods_textually_identical_to_bootstrap_py'] = same
            self.facts['rule_methods_only_in_one'] = sorted(set(a) ^ set(d))[:10]
        except Exception as e:  # noqa: BLE001
            self.facts['rule_methods_textually_identical_to_bootstrap_py'] = f'unobserved: {type(e).__name__}'

    # ------------------------------------------------------------------ routes
    def _run(self, fn, keep_model=False):
        o = Outcome()
        try:
            m = fn()
        except self.ParseException as e:
            o.kind = 'reject'
            self._exc(o, e)
            return o
        except RecursionError as e:
            o.kind = 'crash'
            self._exc(o, e)
            return o
        except Exception as e:  # noqa: BLE001
            o.kind = 'crash'
            self._exc(o, e)
            return o
        o.kind = 'ok'
        try:
            o.json = json.dumps(m.asjson(), sort_keys=True, default=repr, ensure_ascii=True)
        except Exception as e:  # noqa: BLE001
            o.json = f'<asjson raised {type(e).__name__}: {str(e)[:100]}>'
        try:
            o.pretty = m.pretty()
        except Exception as e:  # noqa: BLE001
            o.pretty = f'<pretty raised {type(e).__name__}: {str(e)[:100]}>'
        try:
            o.rep = repr(m)
        except Exception as e:  # noqa: BLE001
            o.rep = f'<repr raised {type(e).__name__}: {str(e)[:100]}>'
        try:
            pis = []
            for r in m.rules:
                pi = getattr(r, 'parseinfo', None)
                pis.append(None if pi is None else (r.name, pi.line, pi.pos, pi.endpos, pi.endline))
            o.pinfo = None if all(p is None for p in pis) else tuple(pis)
        except Exception:  # noqa: BLE001
            o.pinfo = 'unobserved'
        if keep_model:
            o.model = m
        return o

    @staticmethod
    def _exc(o, e):
        o.exc = type(e).__name__
        o.pos = getattr(e, 'pos', None) if not isinstance(getattr(type(e), 'pos', None), property) else _safe(lambda: e.pos)
        st = getattr(e, 'stack', None)
        o.stack = list(st) if isinstance(st, list) else None
        o.msg = _safe(lambda: str(getattr(e, 'message', None) or (e.args[0] if e.args else '')))[:200]

    def run_A(self, text, **kw):
        return self._run(lambda: self.boot.TatSuParserGenerator().parse(text), **kw)

    def run_B(self, text, **kw):
        return self._run(lambda: self.bootparser.TatSuBootstrapParser(semantics=self.GrammarSemantics()).parse(text), **kw)

    def run_C(self, text, semantics=None, **kw):
        sem = semantics if semantics is not None else self.GrammarSemantics()
        return self._run(lambda: self.C.parse(text, semantics=sem), **kw)

    def run_D(self, text, **kw):
        return self._run(lambda: self.D_parser_cls(semantics=self.GrammarSemantics()).parse(text), **kw)

    def run_api(self, text):
        """the public entry point itself (what users call); route A is its parsing step"""
        return self._run(lambda: self.tatsu.compile(text))

    def run_all(self, text, probe=None):
        return {'A': self.run_A(text), 'B': self.run_B(text), 'C': self.run_C(text, semantics=probe),
                'D': self.run_D(text)}

    # route with another start rule (only used for productions no grammar text can reach)
    def run_rule(self, route, text, start, probe=None):
        if route == 'A':
            return self._run(lambda: self.boot.TatSuParserGenerator().parse(text, start=start))
        if route == 'B':
            return self._run(lambda: self.bootparser.TatSuBootstrapParser(
                semantics=self.GrammarSemantics()).parse(text, start=start))
        if route == 'C':
            sem = probe if probe is not None else self.GrammarSemantics()
            return self._run(lambda: self.C.parse(text, start=start, semantics=sem))
        return self._run(lambda: self.D_parser_cls(semantics=self.GrammarSemantics()).parse(text, start=start))

    def make_probe(self):
        return make_probe(self.GrammarSemantics, self.rule_names)

    def housekeeping(self):
        """between two parses: drop TatSu's two process-wide caches that otherwise keep every semantics object and
        every AST node ever passed to an action alive (memory grows by the megabyte per text).  Both or none: the
        bind cache is keyed by id(action), so it must not outlive the action objects the other cache keeps alive."""
        try:
            from tatsu.contexts import core
            from tatsu.util.typetools import BoundCallable
            fc = core.find_cached_semantic_action.cache_clear
            bc = BoundCallable._BIND_CACHE
            if not isinstance(bc, dict):
                return False
        except Exception:  # noqa: BLE001
            return False
        bc.clear()
        fc()
        bc.clear()
        return True

    def vocabulary(self):
        """-> (common, suspect): the token literals (and the words inside the patterns) of the four artefacts --
        bootstrap.py source (A), GRAMMAR_MODEL (B), compiled grammar file (C), regenerated source (D).
        `suspect` = known to some artefact but not to all: where drift would show.  Workload guidance only."""
        with open(self.bootstrap.__file__, encoding='utf-8') as f:
            va = _source_vocabulary(f.read())
        vb = _model_vocabulary(self.bootparser.GRAMMAR_MODEL)
        vc = _model_vocabulary(self.C)
        vd = _source_vocabulary(self.D_source)
        sets = []
        for toks, pats in (va, vb, vc, vd):
            words = set(toks)
            for p in pats:
                for w in re.findall(r'[A-Za-z_]{2,}', p):
                    words.add(w)
                    words.add('@' + w)
            sets.append(words)
        allv = set().union(*sets)
        common = set.intersection(*sets)
        pat_sets = [set(x[1]) for x in (va, vb, vc, vd)]
        suspect_patterns = sorted(set().union(*pat_sets) - set.intersection(*pat_sets))
        return sorted(common), sorted(allv - common), suspect_patterns

    def reachable_rules(self):
        """rule names reachable from `start` in the compiled grammar file (walk over Call nodes of the real model)"""
        from tatsu import peg
        rulemap = {r.name: r for r in self.C.rules}
        seen = set()
        todo = ['start']
        while todo:
            n = todo.pop()
            if n in seen or n not in rulemap:
                continue
            seen.add(n)
            stack = [rulemap[n].exp]
            while stack:
                x = stack.pop()
                if isinstance(x, peg.Call):
                    todo.append(x.name)
                elif isinstance(x, peg.RuleInclude):
                    stack.append(rulemap[x.name].exp if x.name in rulemap else None)
                elif isinstance(x, peg.Model):
                    for c in x.children():
                        stack.append(c)
                elif isinstance(x, (list, tuple)):
                    stack.extend(x)
        return seen


_CTX_LIT = re.compile(r"""ctx\.(token|pattern)\(\s*(r?(?:'(?:\\.|[^'\\\n])*'|"(?:\\.|[^"\\\n])*"))\s*\)""")


def _source_vocabulary(src):
    """token and pattern literals of a generated parser's source text"""
    import ast
    toks, pats = set(), set()
    for kind, lit in _CTX_LIT.findall(src):
        try:
            v = ast.literal_eval(lit)
        except (ValueError, SyntaxError):
            continue
        if isinstance(v, str):
            (toks if kind == 'token' else pats).add(v)
    return toks, pats


def _model_vocabulary(model):
    from tatsu import peg
    toks, pats = set(), set()
    stack = [r.exp for r in model.rules]
    seen = set()
    while stack:
        x = stack.pop()
        if id(x) in seen:
            continue
        seen.add(id(x))
        if isinstance(x, peg.Token):
            toks.add(str(x.token))
        elif isinstance(x, peg.Pattern):
            pats.add(str(x.pattern))
        if isinstance(x, peg.Model):
            stack.extend(x.children())
        elif isinstance(x, (list, tuple)):
            stack.extend(x)
    return toks, pats


def _safe(f):
    try:
        return f()
    except Exception:  # noqa: BLE001
        return None


_METHOD = re.compile(r'^    @tatsu\.rule.*?(?=^    @tatsu\.rule|\Z|^def |^class )', re.S | re.M)


def _rule_methods(src):
    out = {}
    for m in _METHOD.finditer(src):
        body = m.group(0)
        mm = re.search(r'def (\w+)\(self', body)
        if mm:
            out[mm.group(1)] = re.sub(r'\s+\n', '\n', body).strip()
    return out


def make_probe(GrammarSemantics, rule_names):
    """a GrammarSemantics whose action lookups are counted per rule name.

    The engine resolves an action by `getattr(semantics, <rule name>)` and falls back to `_default`.
    The probe answers exactly what a plain GrammarSemantics would answer (the same bound method, or
    for a rule without a method of its own a forwarder to `_default`), wrapped in a counter.
    """
    names = set(rule_names)

    class Probe(GrammarSemantics):
        def __init__(self, *a, **kw):
            super().__init__(*a, **kw)
            object.__setattr__(self, 'seen', {})

        def _count(self, name):
            d = self.seen
            d[name] = d.get(name, 0) + 1

        def __getattribute__(self, name):
            v = object.__getattribute__(self, name)
            if name in names and callable(v) and not name.startswith('_'):
                count = object.__getattribute__(self, '_count')

                def counted(*a, **kw):
                    count(name)
                    return v(*a, **kw)
                counted.__name__ = name
                counted.__wrapped__ = v
                return counted
            return v

        def __getattr__(self, name):
            if name in names:
                default = object.__getattribute__(self, '_default')
                count = object.__getattribute__(self, '_count')

                def forwarded(ast, *a, **kw):
                    count(name)
                    return default(ast, *a, **kw)
                forwarded.__name__ = name
                return forwarded
            raise AttributeError(name)

    return Probe()
