"""Expression workload for C17: what a grammar author (or, through the re-evaluation loop of
``constant``, the *input text*) can put in a `` `...` `` constant or ``^`...` `` alert.

A case is a JSON-able dict::

    {'expr': text, 'kind': tag, 'bind': {name: constant-text, ...}, 'T': bool}

``bind``: extra named constants placed in the rule before the expression (AST keys that shadow
builtins, format strings bound to a name).  ``T``: the expression uses nothing but AST names,
literals, operators, methods of values and the PURE builtin functions, so its value is known
from plain Python (value transparency).

Names always bound by the harness grammar:  a = 'xyz' (str), n = 3, t = [1, 2, 3], p = Probe().
TARGET is a relative file name; the shard runs with cwd = its scratch directory.
"""
from __future__ import annotations

import builtins

TARGET = 'vt_c17_target.txt'
BUILTIN_NAMES = sorted(vars(builtins))

# ------------------------------------------------------------------ finite sweep over vars(builtins)
CALL_ARGS = [
    '', 'a', 'n', 't', 'p', 'a, n', 'a, a', 'n, n', 't, n', 'p, a',
    "p, 'value'", "p, '__class__'", "a, '__class__'", "p, 'value', n", 'n, n, n', 'a, n, t',
    "'1+1'", "'1', 's', 'eval'", "'n=1'", f"'{TARGET}'", f"'{TARGET}', 'w'", '*t', '*a',
    'a, key=len', "t, **{'key': abs}", 'len', "'os'",
]
PLACEMENTS = [
    '§', '(§)', '[§][0]', '(§,)[0](a)', 'sorted(t, key=§)', 'max(a, key=§)', "f'{§}'",
    '§.real', '§ if n else n', '(q := §)', '{§}', 'x{§(a)}y', '§\n(a)', '[§(n) for _ in t]',
]


def sweep_cases():
    out = []
    for name in BUILTIN_NAMES:
        for args in CALL_ARGS:
            out.append({'expr': f'{name}({args})', 'kind': 'sweep-call', 'bind': {}, 'T': False, 'b': name})
        for pl in PLACEMENTS:
            out.append({'expr': pl.replace('§', name), 'kind': 'sweep-place', 'bind': {}, 'T': False, 'b': name})
    return out


# ------------------------------------------------------------------ random composition
SAFE_ATOMS = ['a', 'n', 't', 'p', 'p.value', '1', '2', "'s'", '(1, 2)', '[n, 2]', 'a.upper()', 'len(a)',
              'max(t)', 'a[0]', 't[1]', 'n + 1', 'p.method()', 'None', 'True', '...', '1.5', "b'x'", "a.split('y')",
              'sum(t)', 'sorted(a)', "'%s' % a", 'abs(-n)', 'p._private']
RISKY_ATOMS = [
    'open', 'eval', 'exec', 'compile', 'print', 'exit', 'quit', 'help', 'input', 'delattr', 'getattr', 'setattr',
    'globals', 'locals', 'vars', 'dir', 'type', 'object', 'super', 'breakpoint', 'id', 'isinstance', 'dict',
    'memoryview', '__import__', '__builtins__', '__loader__', '__name__', '__debug__', '__build_class__',
    "eval('1')", "eval('open')", "eval('a')", f"open('{TARGET}')", f"open('{TARGET}', 'w')",
    f"open('{TARGET}', 'w').write(a)", 'print(a)', 'print(a, file=p)', 'exit()', 'quit(3)', 'input()',
    "input('? ')", 'help()', 'help(a)', "compile('1', '', 'eval')", "exec('q = 1')", "exec('import os')",
    "delattr(p, 'value')", "delattr(p, '__class__')", "getattr(p, '__class__')", "getattr(a, '__class__')",
    "setattr(p, 'value', 1)", 'type(a)', "type('X', (), {})", 'globals()', 'locals()', 'vars(p)', 'vars()',
    'dir(p)', 'object()', 'breakpoint()', "__import__('os')", "__import__('os').getcwd()",
    "__import__('os').system('true')", "__builtins__['open']", '().__class__', 'a.__class__', 'p.__class__',
    'p.__dict__', 'p.__init__', 'len.__self__', 'a.format.__self__', 'a.upper.__self__', 'p.method.__func__',
    'p.method.__globals__', 'p.method.__self__', '(1).__class__.__mro__',
    "''.__class__.__mro__[1].__subclasses__()", '().__class__.__base__.__subclasses__()', 'a.__len__()',
    'a.__getattribute__', "a.__getattribute__('__class__')", 'a.__reduce__()', 'a.__doc__', 'a.__dir__()',
    'p.__module__', '(lambda: 1).__globals__', '(lambda: 1).__code__', '(lambda: 1).__closure__',
    '(1 for _ in a).gi_frame', '(1 for _ in a).gi_frame.f_globals', '(1 for _ in a).gi_frame.f_builtins',
    '(1 for _ in a).gi_frame.f_back', '(1 for _ in a).gi_code', '(1 for _ in a).gi_code.co_consts',
    "'{0.__class__}'.format(p)", "'{0.__class__}'.format(a)", "'{0.__class__.__mro__}'.format(p)",
    "'{0.method.__func__.__globals__}'.format(p)", "'{p.__dict__}'.format_map({'p': p})",
    "'{0.__class__.__init__.__globals__}'.format(p)", "'{0[0].__class__}'.format(t)",
    "'{0:{1.__class__}}'.format(a, p)", "'{0.value}'.format(p)", "'{0._private}'.format(p)",
    "'{p.__class__}'.format(p=p)", "'{0.real.__class__}'.format(n)", 'a.format(p)', 'a.format_map(p)',
    'ｅｖａｌ', "ｅｖａｌ('1')", 'a.＿＿class＿＿', 'a.__class__',
    'ｏpen', 'a._＿class__', 'a .__class__', 'a. __class__', 'a.\\\n__class__', 'a.__class__ # c',
    'await a', 'yield a', 'a; open', 'import os', 'lambda: open', 'x', 'undefined_name', 'a.b.c', '_', '__', '___',
    'a.__', 'a.___x', 'a._x', 'a.__x', 'a.x__', 'ValueError', 'BaseException()', 'SystemExit(1)', 'KeyboardInterrupt',
    'StopIteration()', '1/0', 'a + n', 't[9]', "a['k']", 'next(iter(()))', 'min(())',
]
COMPOSERS = [
    '(X)', '[X]', '(X,)', '(X, Y)', '[X, Y][0]', '{1: X}[1]', 'X if n else Y', 'Y if not n else X', 'n and X', 'X or Y',
    'not X', 'X == Y', 'X is Y', 'X in [Y]', '[X for _ in t]', '[n for _ in [X]]', '[1 for _ in t if X]',
    '{1: X for _ in t}', 'sum(1 for _ in [X])', 'any(X for _ in t)', 'all([X for n in t])', '(lambda: X)',
    '(lambda: X)()', '(lambda q=X: q)()', '(lambda *q: q)(X)', '(q := X)', '[q := X, q][1]', '[a := X, a][1]',
    'len([X])', 'sorted([X, Y])', 'max(X, Y)', 'max(*[X, Y])', 'sorted(t, key=X)', "max(t, **{'key': X})",
    'min(t, default=X)', 'format(X)', 'repr(X)', 'ascii(X)', 'hash(X)', 'callable(X)', 'iter(X)', 'next(iter([X]))',
    "f'{X}'", "f'{X!r}'", "f'{n:{X}}'", "f'{a!r:>{f\"{X}\"}}'", "f'{f\"{f'{X}'}\"}'", "f'{X=}'", 'X[0]', 'X[n:]',
    't[X]', 'X[X]', 'X.real', 'X.upper()', 'X.value', 'X.method()', 'X.__class__', 'X.__dict__', 'X.__call__()',
    'X()', 'X(a)', 'X(*t)', 'X(**{})', 'X(a)(a)', 'X.y(a)', 'a.join(X)', "'{}'.format(X)",
    "'{0.__class__}'.format(X)", "'{0!r:{1}}'.format(a, X)", 'X.format(p)', 'X + Y', 'X * 2', '-X', 'X @ Y',
    'X < Y', '*X', '[*X]', '{**X}', '(X for _ in t)', 'X if X else X', 'X\n', '\n  X\n', '  X', 'X # c', '(\nX\n)',
    '{X}', 'v={X}', '{X!r}', '{X:>{n}}', 'x {X} y {Y}', '{{X}}', '{X}{Y}', "{'{X}'}", '\\{X}', '{X', 'X}',
    '{a} X', "'X'", '"X"', "'''X'''", "'{a}' 'X'",
]


def _pick(rng, xs):
    return xs[rng.randrange(len(xs))]


def _atom(rng, risky_p=0.6):
    if rng.random() < risky_p:
        x = _pick(rng, RISKY_ATOMS)
        if rng.random() < 0.15:
            x = _pick(rng, BUILTIN_NAMES) + _pick(rng, ['', '()', '(a)', '(p, a)', '.real'])
        return x
    return _pick(rng, SAFE_ATOMS)


def compose(rng, depth):
    if depth <= 0:
        return _atom(rng)
    c = _pick(rng, COMPOSERS)
    x = compose(rng, depth - 1 if rng.random() < 0.7 else 0)
    y = compose(rng, 0) if 'Y' in c else ''
    # single-letter placeholders: replace via sentinels so that text inside atoms is untouched
    c = c.replace('X', '\x00').replace('Y', '\x01')
    return c.replace('\x00', x).replace('\x01', y)


ATTR_BASES = ['a', 'n', 't', 'p', '()', "''", 'len', '(1).real', 'a.upper', '(1 for _ in a)', 'p.method', '(lambda: 1)',
              'None', '...', 't[0]', 'a.join', 'p.value', 'sorted']
ATTRS_PLAIN = ['upper', 'real', 'imag', 'gi_frame', 'f_back', 'f_globals', 'f_builtins', 'f_locals', 'f_code',
               'gi_code', 'co_consts', 'co_names', 'format', 'join', 'denominator', 'method', 'value', '_private',
               '_x', 'mro', 'cr_frame', 'tb_frame', 'append', 'copy', 'keys', 'x__', '_', 'bit_length']
ATTRS_DUNDER = ['__class__', '__mro__', '__subclasses__', '__globals__', '__builtins__', '__dict__', '__init__',
                '__base__', '__bases__', '__self__', '__func__', '__code__', '__closure__', '__getattribute__',
                '__reduce__', '__reduce_ex__', '__module__', '__import__', '__call__', '__doc__', '__name__',
                '__qualname__', '__wrapped__', '__new__', '__setattr__', '__delattr__', '__getitem__', '__format__',
                '__x', '___', '__', '__defaults__', '__kwdefaults__', '__annotations__', '__weakref__']
LINKS = ['', '()', '[0]', "['x']", '(a)', '[1]']


def attr_chain(rng):
    e = _pick(rng, ATTR_BASES)
    for _ in range(rng.randrange(1, 5)):
        attr = _pick(rng, ATTRS_DUNDER) if rng.random() < 0.55 else _pick(rng, ATTRS_PLAIN)
        e = f'{e}.{attr}{_pick(rng, LINKS) if rng.random() < 0.4 else ""}'
    if rng.random() < 0.25:
        e = _pick(rng, ['{X}', 'len([X])', 'repr(X)', "f'{X}'", '[X for _ in t]', 'x {X}']).replace('X', e)
    return e


def split_text(rng, s):
    k = rng.randrange(2, 4)
    cuts = sorted({rng.randrange(1, max(2, len(s))) for _ in range(k - 1)})
    parts, last = [], 0
    for c in cuts:
        parts.append(s[last:c])
        last = c
    parts.append(s[last:])
    return [p for p in parts if p] or [s]


STRBUILD = ['adj', 'plus', 'format', 'join', 'percent', 'chr', 'quoted', 'interp', 'mul', 'slice', 'upper']


def strbuild(rng):
    """an expression whose *value* is the text of another expression: ``constant`` re-evaluates it"""
    target = _atom(rng, 0.85) if rng.random() < 0.7 else compose(rng, 1)
    parts = split_text(rng, target)
    how = _pick(rng, STRBUILD)
    q = [repr(p) for p in parts]
    if how == 'adj':
        return ' '.join(q)
    if how == 'plus':
        return ' + '.join(q)
    if how == 'format':
        return repr('{}' * len(parts)) + '.format(' + ', '.join(q) + ')'
    if how == 'join':
        return "''.join([" + ', '.join(q) + '])'
    if how == 'percent':
        return repr('%s' * len(parts)) + ' % (' + ', '.join(q) + ',)'
    if how == 'chr':
        return f'chr({ord(target[0])}) + {target[1:]!r}'
    if how == 'quoted':
        return repr(target)
    if how == 'interp':
        return '{' + ' + '.join(q) + '}'
    if how == 'mul':
        return f'{target!r} * 1'
    if how == 'slice':
        return f'{"##" + target!r}[2:]'
    return f'{target.swapcase()!r}.swapcase()' if target.swapcase().swapcase() == target else repr(target)


SHADOWABLE = ['open', 'len', 'eval', 'print', 'type', 'exit', 'sorted', 'format', 'getattr', 'exec', 'input', 'id',
              'str', 'compile', 'q', 'x', '_', 'g']
SHADOW_USES = ['§', '§.upper()', '§(a)', '§ + a', '{§}', 'sorted(a, key=§)', 'len(§)', '[§ for § in t]',
               '[§ for _ in t]', "'{0}'.format(§)", '(§ := n)', '[§ := n, §][1]', '§[0]', 'max(§, a)',
               'next(§.gi_frame for § in [(1 for _ in a)])', '[§.upper() for § in [a]]',
               '[x for x in [§]]', '§.__class__', f"§('{TARGET}', 'w')"]


def shadow_case(rng):
    names = sorted({_pick(rng, SHADOWABLE) for _ in range(rng.randrange(1, 4))})
    s = names[0]
    expr = _pick(rng, SHADOW_USES).replace('§', s)
    if rng.random() < 0.3:
        expr = compose(rng, 1).replace('open', s)
    return {'expr': expr, 'kind': 'shadow', 'bind': {k: "'shadow'" for k in names}, 'T': False}


FMT_FIELDS = ['0.__class__', '0.__class__.__mro__', '0.__dict__', '0.__init__.__globals__', '0.method.__func__',
              '0.method.__func__.__globals__', '0.method.__self__.__class__', '0.value', '0._private', '0',
              '0.__class__.__name__', '0.__module__', '0.__doc__', '0.value.__class__', '0.__reduce__',
              '0.method', '0[0]', '0[__class__]', '0.__getattribute__', '0:{0.__class__}', '0!r', '0.__x']
FMT_ARGS = ['p', 'a', 'n', 't', 'p, a', 'len', 'p.method', 'None']


def fmt_case(rng):
    field = _pick(rng, FMT_FIELDS)
    arg = _pick(rng, FMT_ARGS)
    how = rng.randrange(9)
    bind = {}
    first = arg.split(',')[0]
    if how == 6:            # the bound method is not called by the expression: it is handed to a builtin
        expr = f"sorted([{first}, [{first}]], key='{{{field}}}'.format)"
    elif how == 7:
        expr = f"list(map('{{{field}}}'.format, [{first}]))"
    elif how == 8:
        expr = f"max([{first}], key='{{{field.replace('0', 'k', 1)}}}'.format_map)" if rng.random() < 0.3 else \
            f"(lambda f: f({first}))('{{{field}}}'.format)"
    elif how == 0:
        expr = f"'{{{field}}}'.format({arg})"
    elif how == 1:
        expr = f"'{{{field.replace('0', 'k', 1)}}}'.format(k={arg.split(',')[0]})"
    elif how == 2:
        expr = f"'{{{field.replace('0', 'k', 1)}}}'.format_map({{'k': {arg.split(',')[0]}}})"
    elif how == 3:          # the format string is an AST value (could have come from the input text)
        bind = {'f': repr('{' + field + '}')}
        expr = f'f.format({arg})'
    elif how == 4:
        expr = f"'x={{{field}!r:>9}}'.format({arg})"
    else:
        expr = f"('{{' + {field!r} + '}}').format({arg})"
    return {'expr': expr, 'kind': 'fmt', 'bind': bind, 'T': False}


def random_case(rng):
    r = rng.random()
    if r < 0.22:
        return {'expr': attr_chain(rng), 'kind': 'attr', 'bind': {}, 'T': False}
    if r < 0.62:
        return {'expr': compose(rng, rng.randrange(1, 4)), 'kind': 'compose', 'bind': {}, 'T': False}
    if r < 0.77:
        return {'expr': strbuild(rng), 'kind': 'strbuild', 'bind': {}, 'T': False}
    if r < 0.89:
        return shadow_case(rng)
    return fmt_case(rng)


# ------------------------------------------------------------------ value-transparency family
def t_int(rng, d):
    if d <= 0:
        return _pick(rng, ['n', '2', '5', 'len(a)', 'p.value', 't[0]', 't[2]', '7', '0', '1'])
    k = rng.randrange(20)
    A, B = t_int(rng, d - 1), t_int(rng, d - 1)
    return [
        f'{A} + {B}', f'{A} - {B}', f'({A}) * 3', f'({A}) // 2', f'({A}) % 7', f'abs(-({A}))', f'max({A}, {B})',
        f'min({A}, {B})', f'sum({t_list(rng, d - 1)})', f'len({t_str(rng, d - 1)})', f'ord({t_str(rng, 0)}[0])',
        f'round(({A}) / 2)', f'pow({A}, 2)', f'divmod({A}, 4)[1]', f'({A} if {t_bool(rng, d - 1)} else {B})',
        f'len({t_list(rng, d - 1)})', f'-({A})', f'({A}) // ({B})', f'max({t_list(rng, d - 1)})',
        f'({A}).bit_length()',
    ][k]


def t_str(rng, d):
    if d <= 0:
        return _pick(rng, ['a', "'lit'", 'p.method()', "'Ab cd'", "a[0]", "'q r'", 'p._private'])
    k = rng.randrange(22)
    A, B, I = t_str(rng, d - 1), t_str(rng, d - 1), t_int(rng, d - 1)
    return [
        f'{A} + {B}', f'({A}).upper()', f'({A}).lower()', f'({A})[0:2]', f'({A})[1:]', f'({A}) * 2', f'repr({I})',
        f'ascii({A})', f'hex({I})', f'bin(abs({I}))', f'oct(abs({I}))', f'chr(97 + abs({I}) % 26)',
        f"format({I}, '04d')", f"'-'.join([{A}, {B}])", f"({A}).replace('x', 'q')", f"(' ' + {A}).strip()",
        f"'%s-%d' % ({A}, {I})", f'({A} if {t_bool(rng, d - 1)} else {B})', f'max({A}, {B})', f'({A}).title()',
        f'({A}).zfill(5)', f"({A}).center(9, '*')",
    ][k]


def t_list(rng, d):
    if d <= 0:
        return _pick(rng, ['t', '[n, 2]', '[5, 1, 4]', 't[1:]'])
    k = rng.randrange(8)
    A, B = t_list(rng, d - 1), t_list(rng, d - 1)
    return [
        f'sorted({A})', f'{A} + {B}', f'({A})[1:]', f'[n + 1 for n in {A}]', f'[{t_int(rng, d - 1)}, {t_int(rng, d - 1)}]',
        f'sorted({A}, key=abs)', f'[abs(n) for n in {A} if n]', f'({A}) * 2',
    ][k]


def t_bool(rng, d):
    if d <= 0:
        return _pick(rng, ['True', 'False', 'n > 2', "a == 'xyz'", 'a.isalpha()', 'callable(len)', '2 in t'])
    k = rng.randrange(9)
    I, J, S = t_int(rng, d - 1), t_int(rng, d - 1), t_str(rng, d - 1)
    return [
        f'{I} < {J}', f'{S} == {t_str(rng, d - 1)}', f'all({t_list(rng, d - 1)})', f'any({t_list(rng, d - 1)})',
        f'not ({t_bool(rng, d - 1)})', f'{I} in {t_list(rng, d - 1)}', f"({S}).startswith('x')", f'({S}).isalpha()',
        f'{I} <= {J} < 9',
    ][k]


def t_other(rng, d):
    I, S = t_int(rng, d), t_str(rng, d)
    return _pick(rng, [f'({I}) / 2', f'round(({I}) / 3, 2)', f'({I}, {S})', f'divmod({I}, 3)', f'sorted({S})',
                       f"({S}).split('y')", 'None', 'p', f'({I}) / 1', f'[{S}, {I}]', f'({S}, )'])


def t_case(rng):
    d = rng.randrange(0, 4)
    r = rng.random()
    bind = {}
    if r < 0.3:
        e = t_int(rng, d)
    elif r < 0.6:
        e = t_str(rng, d)
    elif r < 0.72:
        e = t_list(rng, d)
    elif r < 0.82:
        e = t_bool(rng, d)
    elif r < 0.9:
        e = t_other(rng, min(d, 2))
    elif r < 0.93:
        # AST text beyond ASCII / Latin-1 / the BMP (what the input may contain)
        u = _pick(rng, ['日本', 'x😀y', 'café', 'ｗide', 'Ωμέγα', 'áb'])
        bind = {'u': repr(u)}
        e = _pick(rng, ['len(u)', 'u + a', 'u[0]', '[u, n]', 'u.upper()', 'len(a) + n', 'sorted(u)', 'max(u, a)', 'a'])
    elif r < 0.96:
        # AST keys that shadow builtins are ordinary names with the AST's value
        s = _pick(rng, ['open', 'print', 'eval', 'type', 'exit', 'len'])
        bind = {s: "'shadow'"}
        e = _pick(rng, ['§.upper() + §', "§ + ' ' + a", '[§, n]', '(§ * 2).title()', '§[1:3]']).replace('§', s)
        if s == 'len':
            e = e.replace('len(', 'abs(')
    else:
        # the constant's own interpolation ("str.format()-style over the names in the current AST")
        x, y = t_int(rng, min(d, 1)), t_str(rng, min(d, 1))
        e = _pick(rng, ['v {X} w', '{X} / {Y}', 'k-{Y} and {X}', '{Y!r} is it', 'w {X:>4} w', '{Y}  {Y}', 'at {X}: {Y}'])
        e = e.replace('{X', '{' + x).replace('{Y', '{' + y)
        return {'expr': e, 'kind': 'interp', 'bind': {}, 'T': True}
    return {'expr': e, 'kind': 'T', 'bind': bind, 'T': True}


# ------------------------------------------------------------------ NFKC spellings of identifiers
# Python normalises identifiers to NFKC while parsing, so `a._＿class＿_` IS `a.__class__` although the
# source text has no two adjacent ASCII underscores, `ｅｖａｌ` is `eval`, `ﬁlter` is `filter`.  Every
# expression family is also emitted with identifiers re-spelled in NFKC-equivalent code points.
import io          # noqa: E402
import keyword     # noqa: E402
import re          # noqa: E402
import tokenize    # noqa: E402
import unicodedata # noqa: E402


def _build_nfkc_tables():
    single, multi = {}, {}
    ascii_ident = set('abcdefghijklmnopqrstuvwxyzABCDEFGHIJKLMNOPQRSTUVWXYZ0123456789_')
    for cp in list(range(0x80, 0x10000)) + list(range(0x1D400, 0x1D800)):
        ch = chr(cp)
        try:
            n = unicodedata.normalize('NFKC', ch)
        except ValueError:
            continue
        if n == ch or not n or not set(n) <= ascii_ident:
            continue
        if not ('a' + ch).isidentifier() or unicodedata.normalize('NFKC', 'a' + ch + 'a') != 'a' + n + 'a':
            continue
        (single if len(n) == 1 else multi).setdefault(n, []).append(ch)
    return single, multi


NFKC_SINGLE, NFKC_MULTI = _build_nfkc_tables()
NFKC_FAMILIES = {
    'fullwidth': lambda ch: 0xFF00 <= ord(ch) <= 0xFF5E,
    'math': lambda ch: 0x1D400 <= ord(ch) <= 0x1D7FF,
    'compat': lambda ch: ord(ch) < 0xFF00,          # ª º ſ ⁿ ℓ ℂ Ⅰ ﹍ ﹎ ﹏ ︳ ︴ modifier/sub/superscript letters
}
NFKC_STYLES = ['fullwidth', 'math', 'compat', 'mixed', 'sparse', 'underscores', 'ligature', 'first-ascii-rest-wide']
ID_RE = re.compile(r'[A-Za-z_][A-Za-z0-9_]*')
NFKC_MODES = ['all', 'all', 'one', 'one-dunder', 'all-but-one', 'all-but-one-dunder', 'all+strings']


def _equiv(rng, c, family):
    cands = NFKC_SINGLE.get(c)
    if not cands:
        return c
    if family in NFKC_FAMILIES:
        pref = [x for x in cands if NFKC_FAMILIES[family](x)]
        if pref:
            cands = pref
    return _pick(rng, cands)


def spell_identifier(rng, name, style):
    """an identifier that NFKC-normalises to ``name``; never two adjacent ASCII underscores"""
    for _ in range(6):
        out = []
        i = 0
        while i < len(name):
            c = name[i]
            if style == 'ligature' or (style == 'mixed' and rng.random() < 0.3):
                hit = None
                for k in (3, 2):
                    seg = name[i:i + k]
                    if len(seg) == k and seg in NFKC_MULTI and i > 0:
                        hit = seg
                        break
                if hit:
                    out.append(_pick(rng, NFKC_MULTI[hit]))
                    i += len(hit)
                    continue
            if style == 'underscores' or style == 'ligature':
                out.append(c)
            elif style == 'sparse':
                out.append(_equiv(rng, c, 'mixed') if rng.random() < 0.35 else c)
            elif style == 'first-ascii-rest-wide':
                out.append(c if i == 0 else _equiv(rng, c, 'fullwidth'))
            else:
                out.append(_equiv(rng, c, style))
            i += 1
        # no two adjacent ASCII low lines; the first character must stay a valid identifier start
        for j in range(1, len(out)):
            if out[j] == '_' and out[j - 1] == '_':
                out[j] = _equiv(rng, '_', 'mixed' if style not in NFKC_FAMILIES else style)
        if out and not out[0].isidentifier():
            out[0] = name[0]
            if len(out) > 1 and out[0] == '_' and out[1] == '_':
                out[1] = _equiv(rng, '_', 'mixed')
        v = ''.join(out)
        if v != name and v.isidentifier() and unicodedata.normalize('NFKC', v) == name:
            return v
        style = 'mixed'
    return name


def _identifier_spans(text, strings):
    """(start, end) of identifiers; ``strings``: also words inside string literals / invalid source"""
    if not strings:
        try:
            starts = [0]
            for line in text.splitlines(keepends=True):
                starts.append(starts[-1] + len(line))
            spans = []
            for tok in tokenize.generate_tokens(io.StringIO(text).readline):
                if tok.type == tokenize.NAME and tok.start[0] == tok.end[0]:
                    s = starts[tok.start[0] - 1] + tok.start[1]
                    e = starts[tok.end[0] - 1] + tok.end[1]
                    if text[s:e] == tok.string and ID_RE.fullmatch(tok.string):
                        spans.append((s, e))
            return spans            # string literals stay as they are
        except (tokenize.TokenError, SyntaxError, IndentationError, ValueError):
            pass
    return [m.span() for m in ID_RE.finditer(text)]


def _is_dunderish(name):
    return '__' in name


def nfkc_variant(rng, text, mode=None, style=None):
    """the same Python source with identifiers re-spelled -> (variant, mode, style) or None"""
    mode = mode or _pick(rng, NFKC_MODES)
    style = style or _pick(rng, NFKC_STYLES)
    spans = [(s, e) for s, e in _identifier_spans(text, mode == 'all+strings')
             if not keyword.iskeyword(text[s:e]) and (s == 0 or text[s - 1] not in '!\\')]
    if not spans:
        return None
    dunders = [sp for sp in spans if _is_dunderish(text[sp[0]:sp[1]])]
    if mode in ('all', 'all+strings'):
        chosen = spans
    elif mode == 'one':
        chosen = [_pick(rng, spans)]
    elif mode == 'one-dunder':
        chosen = [_pick(rng, dunders or spans)]
    else:
        keep = _pick(rng, (dunders if mode == 'all-but-one-dunder' and dunders else spans))
        chosen = [sp for sp in spans if sp != keep] or spans
    chosen = set(chosen)
    out, last = [], 0
    for s, e in spans:
        out.append(text[last:s])
        name = text[s:e]
        if (s, e) in chosen:
            st = style
            if _is_dunderish(name) and style in ('sparse', 'ligature') and rng.random() < 0.5:
                st = 'underscores'
            out.append(spell_identifier(rng, name, st))
        else:
            out.append(name)
        last = e
    out.append(text[last:])
    v = ''.join(out)
    if v == text:
        return None
    return v, mode, style


def _interp_variant(rng, text):
    """interpolation templates: only the expression part of each {field} is re-spelled"""
    out, i, changed = [], 0, False
    mode = style = None
    while i < len(text):
        j = text.find('{', i)
        if j < 0:
            break
        k = text.find('}', j)
        if k < 0:
            break
        field = text[j + 1:k]
        depth, cut = 0, len(field)
        for x, c in enumerate(field):
            if c in '([':
                depth += 1
            elif c in ')]':
                depth -= 1
            elif depth == 0 and (c == ':' or (c == '!' and field[x + 1:x + 2] != '=')):
                cut = x
                break
        r = nfkc_variant(rng, field[:cut], mode='all', style=style)
        out.append(text[i:j + 1])
        if r:
            out.append(r[0] + field[cut:])
            mode, style, changed = 'all', r[2], True
        else:
            out.append(field)
        out.append('}')
        i = k + 1
    out.append(text[i:])
    return (''.join(out), 'all', style) if changed else None


DUNDER_EXPRS = [x for x in RISKY_ATOMS if '__' in x and '\\' not in x and '＿' not in x] + [
    'a.__class__.__name__', 'len(a.__class__.__base__.__subclasses__())', 'n.__class__.__mro__[1]',
    't.__class__.__base__', 'p.__class__.__init__.__globals__', 'a.__add__(a)', 'n.__abs__()', 't.__len__()',
    'a.__doc__', 'a.__class__', 'p.__dict__', 'a.__getattribute__', 'len.__self__.__dict__', 'a.__class__.__class__',
    'a.upper.__self__.__class__', 'sorted.__self__', "a.__class__.__dict__['upper']", 'n.__class__(2)',
    '[a.__class__ for _ in t]', "f'{a.__class__}'", '{a.__class__}', 'v={a.__class__.__name__!r}',
    'a.__class__ if n else n', '(a.__class__, n)[0]', 'repr(a.__class__)', 'max(t, key=n.__class__)',
    "'{0}'.format(a.__class__)", 'a.__class__.__name__.upper()', 'a._private__', 'a.__x', 'p.__module__',
]
NFKC_SWEEP_FORMS = ['§', '§(a)', '§(p, a)', 'sorted(t, key=§)', "f'{§}'", '{§(a)}', '§.__self__', f"§('{TARGET}', 'w')"]


def nfkc_case(rng):
    """a case of any family with identifiers spelled in NFKC-equivalent code points; ``ascii`` keeps the
    plain spelling (same Python expression)"""
    r = rng.random()
    if r < 0.22:
        base = {'expr': _pick(rng, DUNDER_EXPRS), 'kind': 'attr', 'bind': {}, 'T': False}
    elif r < 0.36:
        base = {'expr': attr_chain(rng), 'kind': 'attr', 'bind': {}, 'T': False}
    elif r < 0.48:
        base = {'expr': compose(rng, rng.randrange(1, 3)), 'kind': 'compose', 'bind': {}, 'T': False}
    elif r < 0.56:
        base = fmt_case(rng)
    elif r < 0.64:
        base = shadow_case(rng)
    elif r < 0.72:
        base = {'expr': _pick(rng, NFKC_SWEEP_FORMS).replace('§', _pick(rng, BUILTIN_NAMES)), 'kind': 'sweep-place',
                'bind': {}, 'T': False}
    elif r < 0.78:
        base = {'expr': strbuild(rng), 'kind': 'strbuild', 'bind': {}, 'T': False}
    else:
        base = t_case(rng)
    text = base['expr']
    v = None
    for _ in range(5):
        if base['kind'] == 'interp':
            v = _interp_variant(rng, text)
        elif base.get('T'):
            v = nfkc_variant(rng, text, mode=_pick(rng, ['all', 'one', 'all-but-one']))
        else:
            v = nfkc_variant(rng, text)
        if v:
            break
    case = dict(base)
    case.pop('b', None)
    if v:
        case.update(expr=v[0], ascii=text, nfkc=f'{v[1]}/{v[2]}')
    return case


# ------------------------------------------------------------------ look-alike names (value transparency)
# A grammar author names the fields of a rule as the domain suggests: f_name, co_author, tb_1, formatter, open_,
# class_, evaluate.  Such a name may start like, end like or contain a name that a sandbox has reasons to deny (frame /
# generator / code introspection attributes, format, dunders, unsafe builtins) without being one.  Reading it - with
# attribute syntax from a nested AST, by subscript, as a top-level name of the current AST - is a safe expression: its
# value is what plain Python gives.  The vocabulary is derived from what the running interpreter exposes (the
# introspection attributes of generator/coroutine/frame/traceback/code objects, the builtin names) and the dunders the
# workload above already uses; nothing is taken from the evaluator under test.
import types      # noqa: E402

LOOK_RESERVED = {'a', 'n', 't', 'p', 'r', 'q', 'x', 'c', 'u', 'f', 'k', 'g', '_', 'sub', 'src_', 'double', 'l_name', 'year',
                 # attributes of the class of the AST itself (an attribute read finds them before the field)
                 'parseinfo', 'asjson', 'set_parseinfo', '_set', '_setlist', '_define', '_safekey', '_unsafe'}
LOOK_ORDINARY = ['name', 'title', 'value', 'first', 'last', 'code', 'frame', 'back', 'func', 'module', 'doc', 'line',
                 'evaluate', 'formatter', 'opener', 'importer', 'execute', 'compiler', 'typed', 'objective', 'superb',
                 'helper', 'inputs', 'exits', 'printable', 'directory', 'variables', 'localised', 'globally', 'idx',
                 'identity', 'classes', 'mro_list', 'subclass', 'selfie', 'basename', 'builtin', 'dunder', 'f', 'co', 'tb',
                 'gi', 'cr', 'ag', 'f_', 'co_', 'tb_', 'gi_', 'cr_', 'ag_', '_f', 'x__y', 'x__', '_x', '_1', 'x_', 'X']


def _introspection_attributes():
    ts = (types.GeneratorType, types.CoroutineType, types.AsyncGeneratorType, types.FrameType, types.TracebackType,
          types.CodeType)
    return sorted({n for T in ts for n in dir(T) if not n.startswith('__')})


LOOK_DENIED = {
    'introspection': _introspection_attributes(),
    'method': ['format', 'format_map', 'mro'],
    'dunder': sorted({d for d in ATTRS_DUNDER if len(d) > 4 and d.startswith('__') and d.endswith('__')}),
    'builtin': sorted(n for n in BUILTIN_NAMES if n[0].islower()),
    'exception': ['ValueError', 'BaseException', 'Warning', 'SystemExit', 'KeyboardInterrupt'],
}


def _look_alikes(d, group):
    """names that start like, end like, contain or are contained in the denied name ``d`` -> [(name, how)]"""
    c = d.strip('_')
    out = [(c + '_', 'suffix_'), ('_' + c, 'prefix_'), ('my_' + c, 'prefix-word'), (c + 's', 'suffix-s'),
           (c[0].upper() + c[1:], 'capital')]
    if group != 'builtin':
        out += [(c + '2', 'suffix-digit'), (c + '__y', 'infix__'), (c + '__', 'suffix__'), ('_' + c + '_', '_both_'),
                (c + '_name', 'suffix-word')]
        if len(c) > 3:
            out.append((c[:-1], 'chopped'))
    if group == 'dunder':
        out += [(c, 'bare'), ('x__' + c, 'infix__')]
    if '_' in c:
        head = c.split('_')[0]
        out += [(f'{head}_name', 'same-prefix'), (f'{head}_1', 'same-prefix'), (f'{head}_author', 'same-prefix')]
    if group == 'exception':
        out += [('is' + c, 'same-suffix'), ('my' + c[-5:], 'same-suffix')]
    return out


def _build_look_vocabulary():
    denied = {d for ds in LOOK_DENIED.values() for d in ds} | set(BUILTIN_NAMES) | set(ATTRS_DUNDER)
    mangled = set(vars(dict))           # an AST key that is an attribute of dict is stored under another key
    seen, out = set(), []
    cands = [(w, 'ordinary', '') for w in LOOK_ORDINARY]
    for group, ds in LOOK_DENIED.items():
        for d in ds:
            cands += [(nm, f'{group}:{how}', d) for nm, how in _look_alikes(d, group)]
    for nm, how, d in cands:
        if nm in seen or nm in denied or nm in mangled or nm in LOOK_RESERVED or nm.startswith('__'):
            continue
        if not (nm.isascii() and nm.isidentifier()) or keyword.iskeyword(nm) or keyword.issoftkeyword(nm):
            continue
        seen.add(nm)
        out.append({'name': nm, 'how': how, 'like': d})
    return out


LOOK_VOCAB = _build_look_vocabulary()
# the value a field has where it is bound: (in the nested AST r, in r.sub, at the top level of the current AST)
LOOK_VALUES = {'str': ("'Ada'", "'Sub'", "'Top'"), 'int': ('41', '42', '43'), 'list': ('[4, 1]', '[5, 2]', '[6, 3]')}
LOOK_ACCESS = [('attr', 'r.§'), ('sub', "r['§']"), ('top', '§'), ('nested-attr', 'r.sub.§'), ('sub-attr', "r['sub'].§"),
               ('attr-sub', "r.sub['§']")]
LOOK_WRAP = {
    'str': ['@.upper()', 'len(@)', '@ + a', 'sorted(@)', '[@, n]', '@[0]', 'max(@, a)', "'%s!' % @", '(@).title()',
            '@ if n else a', '[a + a for a in @]', 'ascii(@)', "'-'.join([@, a])", '@ * 2', "@ == 'Ada'",
            "(@).replace('a', 'q')", 'len(@) + len(r.l_name)', '@ + r.l_name'],
    'int': ['@ + n', 'abs(-@)', 'max(@, n)', 'hex(@)', '(@).bit_length()', '[@, n]', '@ * 2', 't[@ % 3]', 'divmod(@, 4)',
            '@ < n', "format(@, '04d')", 'pow(@, 2)', '@ + r.year', 'round(@ / 2)', 'chr(@ + 40)'],
    'list': ['len(@)', 'sorted(@)', '@[0]', '@ + t', 'sum(@)', '[n + 1 for n in @]', 'max(@)', '@[1:]', '@ * 2',
             'sorted(@, key=abs)', 'any(@)', '[abs(n) for n in @ if n]', 'min(@) + r.year'],
}
LOOK_TEMPLATES = ['{@}', 'v {@} w', '{@!r} is it', 'w {@!s:>7} w', '{r.l_name}, {@}', '{@} / {n}', 'at {@}: {a}', 'with {@}',
                  "{r['l_name']}, {@}", 'hello {@}', '{@}{@}']


def look_type(name):
    """the type of the values bound to a look-alike name (fixed per name)"""
    return ('str', 'str', 'int', 'list')[sum(map(ord, name)) % 4]


def look_case(name, access, wrap, others=()):
    """one case: the field ``name`` (and ``others``) bound in a nested AST r, in r.sub and at the top level; the
    expression reads it by ``access`` and uses the value in ``wrap`` ('' bare, a LOOK_WRAP form or a LOOK_TEMPLATES form)"""
    how = dict(LOOK_ACCESS)[access]
    ref = how.replace('§', name)
    rec, sub, bind = {'l_name': "'Lovelace'", 'year': '1815'}, {'title': "'Countess'"}, {}
    for nm in (name, *others):
        v = LOOK_VALUES[look_type(nm)]
        rec[nm], sub[nm], bind[nm] = v
    rec['sub'] = sub
    if not wrap:
        expr, kind = ref, 'T'
    elif wrap in LOOK_TEMPLATES:
        expr, kind = wrap.replace('@', ref), 'interp'
    else:
        expr, kind = wrap.replace('@', ref), 'T'
    return {'expr': expr, 'kind': kind, 'bind': bind, 'rec': rec, 'T': True,
            'look': {'name': name, 'access': access, 'wrap': 'bare' if not wrap else 'template' if kind == 'interp' else
                     'call' if '(' in wrap else 'operator'}}


def look_wraps(name):
    return LOOK_WRAP[look_type(name)]


def look_direct_forms(name):
    """the (access, wrap) pairs evaluated through the helper for every name: attribute syntax bare, in one use of the
    value and in one interpolation template; every other access form in one of the three (fixed per name and access)"""
    ws = look_wraps(name)
    out = []
    for i, (access, _how) in enumerate(LOOK_ACCESS):
        k = sum(map(ord, name)) + i
        forms = [(access, ''), (access, ws[k % len(ws)]), (access, LOOK_TEMPLATES[k % len(LOOK_TEMPLATES)])]
        out += forms if access == 'attr' else [forms[k % 3]]
    return out


def look_random_case(rng):
    """a look-alike name read in a random way, possibly next to a second one read another way"""
    v = _pick(rng, LOOK_VOCAB)['name']
    access = _pick(rng, LOOK_ACCESS)[0] if rng.random() < 0.5 else _pick(rng, ['attr', 'attr', 'nested-attr', 'sub-attr'])
    r = rng.random()
    wrap = '' if r < 0.1 else _pick(rng, LOOK_TEMPLATES) if r < 0.4 else _pick(rng, look_wraps(v))
    case = look_case(v, access, wrap)
    if rng.random() < 0.35:
        # a second look-alike field in the same expression, read its own way
        w = _pick(rng, LOOK_VOCAB)['name']
        if w != v:
            two = look_case(w, _pick(rng, LOOK_ACCESS)[0], '', others=(v,))
            ref2 = two['expr']
            case = look_case(v, access, wrap, others=(w,))
            if case['kind'] == 'interp':
                case['expr'] += ' & {' + ref2 + '}'
            else:
                case['expr'] = f'[{case["expr"]}, {ref2}]'
    return case


# ------------------------------------------------------------------ shadowed names read in nested scopes
# An AST key named like a forbidden builtin is an ordinary name with the AST's value wherever the expression reads it:
# also in the element / condition of a generator expression and in a lambda body handed to a pure builtin, whose free
# names the interpreter resolves through the globals and builtins of the evaluation, not through the names it was given.
SCOPE_SHADOWED = ['open', 'eval', 'exec', 'compile', 'print', 'exit', 'quit', 'input', 'help', 'getattr', 'setattr',
                  'delattr', 'hasattr', 'vars', 'dir', 'globals', 'locals', 'type', 'object', 'super', 'breakpoint',
                  'license', 'copyright', 'credits']
SCOPE_FORMS = ['next(§ for _ in t)', 'next(§(a) for _ in t)', 'sum(1 for _ in t if §)', 'sorted(t, key=lambda q: §)',
               'max(t, key=lambda q: §(a))', f"next(§('{TARGET}', 'w') for _ in t)", 'any(§ == a for a in t)',
               '{next(§ for _ in t)}', "next(§(a, '__class__') for a in [a])", 'min(a, key=lambda q: §)']


def scope_cases():
    return [{'expr': form.replace('§', s), 'kind': 'shadow-scope', 'bind': {s: "'shadow'"}, 'T': False}
            for s in SCOPE_SHADOWED for form in SCOPE_FORMS]
