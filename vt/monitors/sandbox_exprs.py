"""Expression workload for C17: what a grammar author (or, through the re-evaluation loop of
``constant``, the *input text*) can put in a `` `...` `` constant or ``^`...` `` alert.

A case is a JSON-able dict::

    {'expr': text, 'kind': tag, 'bind': {name: constant-text, ...}, 'T': bool}

``bind``: extra named constants placed in the rule before the expression (AST keys that shadow
builtins, format strings bound to a name).  ``T``: the expression uses nothing but AST names,
literals, operators, methods of values and the PURE builtin functions, so its value is known
from plain Python (value transparency).

Names always bound by the harness grammar:  a = 'xyz' (str), n = 3, t = [1, 2, 3], p = Probe().
TARGET is a relative file name; the shard runs with cwd = its scratch directory.
"""
from __future__ import annotations

import builtins

TARGET = 'vt_c17_target.txt'
BUILTIN_NAMES = sorted(vars(builtins))

# ------------------------------------------------------------------ finite sweep over vars(builtins)
CALL_ARGS = [
    '', 'a', 'n', 't', 'p', 'a, n', 'a, a', 'n, n', 't, n', 'p, a',
    "p, 'value'", "p, '__class__'", "a, '__class__'", "p, 'value', n", 'n, n, n', 'a, n, t',
    "'1+1'", "'1', 's', 'eval'", "'n=1'", f"'{TARGET}'", f"'{TARGET}', 'w'", '*t', '*a',
    'a, key=len', "t, **{'key': abs}", 'len', "'os'",
]
PLACEMENTS = [
    '§', '(§)', '[§][0]', '(§,)[0](a)', 'sorted(t, key=§)', 'max(a, key=§)', "f'{§}'",
    '§.real', '§ if n else n', '(q := §)', '{§}', 'x{§(a)}y', '§\n(a)', '[§(n) for _ in t]',
]


def sweep_cases():
    out = []
    for name in BUILTIN_NAMES:
        for args in CALL_ARGS:
            out.append({'expr': f'{name}({args})', 'kind': 'sweep-call', 'bind': {}, 'T': False, 'b': name})
        for pl in PLACEMENTS:
            out.append({'expr': pl.replace('§', name), 'kind': 'sweep-place', 'bind': {}, 'T': False, 'b': name})
    return out


# ------------------------------------------------------------------ random composition
SAFE_ATOMS = ['a', 'n', 't', 'p', 'p.value', '1', '2', "'s'", '(1, 2)', '[n, 2]', 'a.upper()', 'len(a)',
              'max(t)', 'a[0]', 't[1]', 'n + 1', 'p.method()', 'None', 'True', '...', '1.5', "b'x'", "a.split('y')",
              'sum(t)', 'sorted(a)', "'%s' % a", 'abs(-n)', 'p._private']
RISKY_ATOMS = [
    'open', 'eval', 'exec', 'compile', 'print', 'exit', 'quit', 'help', 'input', 'delattr', 'getattr', 'setattr',
    'globals', 'locals', 'vars', 'dir', 'type', 'object', 'super', 'breakpoint', 'id', 'isinstance', 'dict',
    'memoryview', '__import__', '__builtins__', '__loader__', '__name__', '__debug__', '__build_class__',
    "eval('1')", "eval('open')", "eval('a')", f"open('{TARGET}')", f"open('{TARGET}', 'w')",
    f"open('{TARGET}', 'w').write(a)", 'print(a)', 'print(a, file=p)', 'exit()', 'quit(3)', 'input()',
    "input('? ')", 'help()', 'help(a)', "compile('1', '', 'eval')", "exec('q = 1')", "exec('import os')",
    "delattr(p, 'value')", "delattr(p, '__class__')", "getattr(p, '__class__')", "getattr(a, '__class__')",
    "setattr(p, 'value', 1)", 'type(a)', "type('X', (), {})", 'globals()', 'locals()', 'vars(p)', 'vars()',
    'dir(p)', 'object()', 'breakpoint()', "__import__('os')", "__import__('os').getcwd()",
    "__import__('os').system('true')", "__builtins__['open']", '().__class__', 'a.__class__', 'p.__class__',
    'p.__dict__', 'p.__init__', 'len.__self__', 'a.format.__self__', 'a.upper.__self__', 'p.method.__func__',
    'p.method.__globals__', 'p.method.__self__', '(1).__class__.__mro__',
    "''.__class__.__mro__[1].__subclasses__()", '().__class__.__base__.__subclasses__()', 'a.__len__()',
    'a.__getattribute__', "a.__getattribute__('__class__')", 'a.__reduce__()', 'a.__doc__', 'a.__dir__()',
    'p.__module__', '(lambda: 1).__globals__', '(lambda: 1).__code__', '(lambda: 1).__closure__',
    '(1 for _ in a).gi_frame', '(1 for _ in a).gi_frame.f_globals', '(1 for _ in a).gi_frame.f_builtins',
    '(1 for _ in a).gi_frame.f_back', '(1 for _ in a).gi_code', '(1 for _ in a).gi_code.co_consts',
    "'{0.__class__}'.format(p)", "'{0.__class__}'.format(a)", "'{0.__class__.__mro__}'.format(p)",
    "'{0.method.__func__.__globals__}'.format(p)", "'{p.__dict__}'.format_map({'p': p})",
    "'{0.__class__.__init__.__globals__}'.format(p)", "'{0[0].__class__}'.format(t)",
    "'{0:{1.__class__}}'.format(a, p)", "'{0.value}'.format(p)", "'{0._private}'.format(p)",
    "'{p.__class__}'.format(p=p)", "'{0.real.__class__}'.format(n)", 'a.format(p)', 'a.format_map(p)',
    'ｅｖａｌ', "ｅｖａｌ('1')", 'a.＿＿class＿＿', 'a.__class__',
    'ｏpen', 'a._＿class__', 'a .__class__', 'a. __class__', 'a.\\\n__class__', 'a.__class__ # c',
    'await a', 'yield a', 'a; open', 'import os', 'lambda: open', 'x', 'undefined_name', 'a.b.c', '_', '__', '___',
    'a.__', 'a.___x', 'a._x', 'a.__x', 'a.x__', 'ValueError', 'BaseException()', 'SystemExit(1)', 'KeyboardInterrupt',
    'StopIteration()', '1/0', 'a + n', 't[9]', "a['k']", 'next(iter(()))', 'min(())',
]
COMPOSERS = [
    '(X)', '[X]', '(X,)', '(X, Y)', '[X, Y][0]', '{1: X}[1]', 'X if n else Y', 'Y if not n else X', 'n and X', 'X or Y',
    'not X', 'X == Y', 'X is Y', 'X in [Y]', '[X for _ in t]', '[n for _ in [X]]', '[1 for _ in t if X]',
    '{1: X for _ in t}', 'sum(1 for _ in [X])', 'any(X for _ in t)', 'all([X for n in t])', '(lambda: X)',
    '(lambda: X)()', '(lambda q=X: q)()', '(lambda *q: q)(X)', '(q := X)', '[q := X, q][1]', '[a := X, a][1]',
    'len([X])', 'sorted([X, Y])', 'max(X, Y)', 'max(*[X, Y])', 'sorted(t, key=X)', "max(t, **{'key': X})",
    'min(t, default=X)', 'format(X)', 'repr(X)', 'ascii(X)', 'hash(X)', 'callable(X)', 'iter(X)', 'next(iter([X]))',
    "f'{X}'", "f'{X!r}'", "f'{n:{X}}'", "f'{a!r:>{f\"{X}\"}}'", "f'{f\"{f'{X}'}\"}'", "f'{X=}'", 'X[0]', 'X[n:]',
    't[X]', 'X[X]', 'X.real', 'X.upper()', 'X.value', 'X.method()', 'X.__class__', 'X.__dict__', 'X.__call__()',
    'X()', 'X(a)', 'X(*t)', 'X(**{})', 'X(a)(a)', 'X.y(a)', 'a.join(X)', "'{}'.format(X)",
    "'{0.__class__}'.format(X)", "'{0!r:{1}}'.format(a, X)", 'X.format(p)', 'X + Y', 'X * 2', '-X', 'X @ Y',
    'X < Y', '*X', '[*X]', '{**X}', '(X for _ in t)', 'X if X else X', 'X\n', '\n  X\n', '  X', 'X # c', '(\nX\n)',
    '{X}', 'v={X}', '{X!r}', '{X:>{n}}', 'x {X} y {Y}', '{{X}}', '{X}{Y}', "{'{X}'}", '\\{X}', '{X', 'X}',
    '{a} X', "'X'", '"X"', "'''X'''", "'{a}' 'X'",
]


def _pick(rng, xs):
    return xs[rng.randrange(len(xs))]


def _atom(rng, risky_p=0.6):
    if rng.random() < risky_p:
        x = _pick(rng, RISKY_ATOMS)
        if rng.random() < 0.15:
            x = _pick(rng, BUILTIN_NAMES) + _pick(rng, ['', '()', '(a)', '(p, a)', '.real'])
        return x
    return _pick(rng, SAFE_ATOMS)


def compose(rng, depth):
    if depth <= 0:
        return _atom(rng)
    c = _pick(rng, COMPOSERS)
    x = compose(rng, depth - 1 if rng.random() < 0.7 else 0)
    y = compose(rng, 0) if 'Y' in c else ''
    # single-letter placeholders: replace via sentinels so that text inside atoms is untouched
    c = c.replace('X', '\x00').replace('Y', '\x01')
    return c.replace('\x00', x).replace('\x01', y)


ATTR_BASES = ['a', 'n', 't', 'p', '()', "''", 'len', '(1).real', 'a.upper', '(1 for _ in a)', 'p.method', '(lambda: 1)',
              'None', '...', 't[0]', 'a.join', 'p.value', 'sorted']
ATTRS_PLAIN = ['upper', 'real', 'imag', 'gi_frame', 'f_back', 'f_globals', 'f_builtins', 'f_locals', 'f_code',
               'gi_code', 'co_consts', 'co_names', 'format', 'join', 'denominator', 'method', 'value', '_private',
               '_x', 'mro', 'cr_frame', 'tb_frame', 'append', 'copy', 'keys', 'x__', '_', 'bit_length']
ATTRS_DUNDER = ['__class__', '__mro__', '__subclasses__', '__globals__', '__builtins__', '__dict__', '__init__',
                '__base__', '__bases__', '__self__', '__func__', '__code__', '__closure__', '__getattribute__',
                '__reduce__', '__reduce_ex__', '__module__', '__import__', '__call__', '__doc__', '__name__',
                '__qualname__', '__wrapped__', '__new__', '__setattr__', '__delattr__', '__getitem__', '__format__',
                '__x', '___', '__', '__defaults__', '__kwdefaults__', '__annotations__', '__weakref__']
LINKS = ['', '()', '[0]', "['x']", '(a)', '[1]']


def attr_chain(rng):
    e = _pick(rng, ATTR_BASES)
    for _ in range(rng.randrange(1, 5)):
        attr = _pick(rng, ATTRS_DUNDER) if rng.random() < 0.55 else _pick(rng, ATTRS_PLAIN)
        e = f'{e}.{attr}{_pick(rng, LINKS) if rng.random() < 0.4 else ""}'
    if rng.random() < 0.25:
        e = _pick(rng, ['{X}', 'len([X])', 'repr(X)', "f'{X}'", '[X for _ in t]', 'x {X}']).replace('X', e)
    return e


def split_text(rng, s):
    k = rng.randrange(2, 4)
    cuts = sorted({rng.randrange(1, max(2, len(s))) for _ in range(k - 1)})
    parts, last = [], 0
    for c in cuts:
        parts.append(s[last:c])
        last = c
    parts.append(s[last:])
    return [p for p in parts if p] or [s]


STRBUILD = ['adj', 'plus', 'format', 'join', 'percent', 'chr', 'quoted', 'interp', 'mul', 'slice', 'upper']


def strbuild(rng):
    """an expression whose *value* is the text of another expression: ``constant`` re-evaluates it"""
    target = _atom(rng, 0.85) if rng.random() < 0.7 else compose(rng, 1)
    parts = split_text(rng, target)
    how = _pick(rng, STRBUILD)
    q = [repr(p) for p in parts]
    if how == 'adj':
        return ' '.join(q)
    if how == 'plus':
        return ' + '.join(q)
    if how == 'format':
        return repr('{}' * len(parts)) + '.format(' + ', '.join(q) + ')'
    if how == 'join':
        return "''.join([" + ', '.join(q) + '])'
    if how == 'percent':
        return repr('%s' * len(parts)) + ' % (' + ', '.join(q) + ',)'
    if how == 'chr':
        return f'chr({ord(target[0])}) + {target[1:]!r}'
    if how == 'quoted':
        return repr(target)
    if how == 'interp':
        return '{' + ' + '.join(q) + '}'
    if how == 'mul':
        return f'{target!r} * 1'
    if how == 'slice':
        return f'{"##" + target!r}[2:]'
    return f'{target.swapcase()!r}.swapcase()' if target.swapcase().swapcase() == target else repr(target)


SHADOWABLE = ['open', 'len', 'eval', 'print', 'type', 'exit', 'sorted', 'format', 'getattr', 'exec', 'input', 'id',
              'str', 'compile', 'q', 'x', '_', 'g']
SHADOW_USES = ['§', '§.upper()', '§(a)', '§ + a', '{§}', 'sorted(a, key=§)', 'len(§)', '[§ for § in t]',
               '[§ for _ in t]', "'{0}'.format(§)", '(§ := n)', '[§ := n, §][1]', '§[0]', 'max(§, a)',
               'next(§.gi_frame for § in [(1 for _ in a)])', '[§.upper() for § in [a]]',
               '[x for x in [§]]', '§.__class__', f"§('{TARGET}', 'w')"]


def shadow_case(rng):
    names = sorted({_pick(rng, SHADOWABLE) for _ in range(rng.randrange(1, 4))})
    s = names[0]
    expr = _pick(rng, SHADOW_USES).replace('§', s)
    if rng.random() < 0.3:
        expr = compose(rng, 1).replace('open', s)
    return {'expr': expr, 'kind': 'shadow', 'bind': {k: "'shadow'" for k in names}, 'T': False}


FMT_FIELDS = ['0.__class__', '0.__class__.__mro__', '0.__dict__', '0.__init__.__globals__', '0.method.__func__',
              '0.method.__func__.__globals__', '0.method.__self__.__class__', '0.value', '0._private', '0',
              '0.__class__.__name__', '0.__module__', '0.__doc__', '0.value.__class__', '0.__reduce__',
              '0.method', '0[0]', '0[__class__]', '0.__getattribute__', '0:{0.__class__}', '0!r', '0.__x']
FMT_ARGS = ['p', 'a', 'n', 't', 'p, a', 'len', 'p.method', 'None']


def fmt_case(rng):
    field = _pick(rng, FMT_FIELDS)
    arg = _pick(rng, FMT_ARGS)
    how = rng.randrange(9)
    bind = {}
    first = arg.split(',')[0]
    if how == 6:            # the bound method is not called by the expression: it is handed to a builtin
        expr = f"sorted([{first}, [{first}]], key='{{{field}}}'.format)"
    elif how == 7:
        expr = f"list(map('{{{field}}}'.format, [{first}]))"
    elif how == 8:
        expr = f"max([{first}], key='{{{field.replace('0', 'k', 1)}}}'.format_map)" if rng.random() < 0.3 else \
            f"(lambda f: f({first}))('{{{field}}}'.format)"
    elif how == 0:
        expr = f"'{{{field}}}'.format({arg})"
    elif how == 1:
        expr = f"'{{{field.replace('0', 'k', 1)}}}'.format(k={arg.split(',')[0]})"
    elif how == 2:
        expr = f"'{{{field.replace('0', 'k', 1)}}}'.format_map({{'k': {arg.split(',')[0]}}})"
    elif how == 3:          # the format string is an AST value (could have come from the input text)
        bind = {'f': repr('{' + field + '}')}
        expr = f'f.format({arg})'
    elif how == 4:
        expr = f"'x={{{field}!r:>9}}'.format({arg})"
    else:
        expr = f"('{{' + {field!r} + '}}').format({arg})"
    return {'expr': expr, 'kind': 'fmt', 'bind': bind, 'T': False}


def random_case(rng):
    r = rng.random()
    if r < 0.22:
        return {'expr': attr_chain(rng), 'kind': 'attr', 'bind': {}, 'T': False}
    if r < 0.62:
        return {'expr': compose(rng, rng.randrange(1, 4)), 'kind': 'compose', 'bind': {}, 'T': False}
    if r < 0.77:
        return {'expr': strbuild(rng), 'kind': 'strbuild', 'bind': {}, 'T': False}
    if r < 0.89:
        return shadow_case(rng)
    return fmt_case(rng)


# ------------------------------------------------------------------ value-transparency family
def t_int(rng, d):
    if d <= 0:
        return _pick(rng, ['n', '2', '5', 'len(a)', 'p.value', 't[0]', 't[2]', '7', '0', '1'])
    k = rng.randrange(20)
    A, B = t_int(rng, d - 1), t_int(rng, d - 1)
    return [
        f'{A} + {B}', f'{A} - {B}', f'({A}) * 3', f'({A}) // 2', f'({A}) % 7', f'abs(-({A}))', f'max({A}, {B})',
        f'min({A}, {B})', f'sum({t_list(rng, d - 1)})', f'len({t_str(rng, d - 1)})', f'ord({t_str(rng, 0)}[0])',
        f'round(({A}) / 2)', f'pow({A}, 2)', f'divmod({A}, 4)[1]', f'({A} if {t_bool(rng, d - 1)} else {B})',
        f'len({t_list(rng, d - 1)})', f'-({A})', f'({A}) // ({B})', f'max({t_list(rng, d - 1)})',
        f'({A}).bit_length()',
    ][k]


def t_str(rng, d):
    if d <= 0:
        return _pick(rng, ['a', "'lit'", 'p.method()', "'Ab cd'", "a[0]", "'q r'", 'p._private'])
    k = rng.randrange(22)
    A, B, I = t_str(rng, d - 1), t_str(rng, d - 1), t_int(rng, d - 1)
    return [
        f'{A} + {B}', f'({A}).upper()', f'({A}).lower()', f'({A})[0:2]', f'({A})[1:]', f'({A}) * 2', f'repr({I})',
        f'ascii({A})', f'hex({I})', f'bin(abs({I}))', f'oct(abs({I}))', f'chr(97 + abs({I}) % 26)',
        f"format({I}, '04d')", f"'-'.join([{A}, {B}])", f"({A}).replace('x', 'q')", f"(' ' + {A}).strip()",
        f"'%s-%d' % ({A}, {I})", f'({A} if {t_bool(rng, d - 1)} else {B})', f'max({A}, {B})', f'({A}).title()',
        f'({A}).zfill(5)', f"({A}).center(9, '*')",
    ][k]


def t_list(rng, d):
    if d <= 0:
        return _pick(rng, ['t', '[n, 2]', '[5, 1, 4]', 't[1:]'])
    k = rng.randrange(8)
    A, B = t_list(rng, d - 1), t_list(rng, d - 1)
    return [
        f'sorted({A})', f'{A} + {B}', f'({A})[1:]', f'[n + 1 for n in {A}]', f'[{t_int(rng, d - 1)}, {t_int(rng, d - 1)}]',
        f'sorted({A}, key=abs)', f'[abs(n) for n in {A} if n]', f'({A}) * 2',
    ][k]


def t_bool(rng, d):
    if d <= 0:
        return _pick(rng, ['True', 'False', 'n > 2', "a == 'xyz'", 'a.isalpha()', 'callable(len)', '2 in t'])
    k = rng.randrange(9)
    I, J, S = t_int(rng, d - 1), t_int(rng, d - 1), t_str(rng, d - 1)
    return [
        f'{I} < {J}', f'{S} == {t_str(rng, d - 1)}', f'all({t_list(rng, d - 1)})', f'any({t_list(rng, d - 1)})',
        f'not ({t_bool(rng, d - 1)})', f'{I} in {t_list(rng, d - 1)}', f"({S}).startswith('x')", f'({S}).isalpha()',
        f'{I} <= {J} < 9',
    ][k]


def t_other(rng, d):
    I, S = t_int(rng, d), t_str(rng, d)
    return _pick(rng, [f'({I}) / 2', f'round(({I}) / 3, 2)', f'({I}, {S})', f'divmod({I}, 3)', f'sorted({S})',
                       f"({S}).split('y')", 'None', 'p', f'({I}) / 1', f'[{S}, {I}]', f'({S}, )'])


def t_case(rng):
    d = rng.randrange(0, 4)
    r = rng.random()
    bind = {}
    if r < 0.3:
        e = t_int(rng, d)
    elif r < 0.6:
        e = t_str(rng, d)
    elif r < 0.72:
        e = t_list(rng, d)
    elif r < 0.82:
        e = t_bool(rng, d)
    elif r < 0.9:
        e = t_other(rng, min(d, 2))
    elif r < 0.95:
        # AST keys that shadow builtins are ordinary names with the AST's value
        s = _pick(rng, ['open', 'print', 'eval', 'type', 'exit', 'len'])
        bind = {s: "'shadow'"}
        e = _pick(rng, ['§.upper() + §', "§ + ' ' + a", '[§, n]', '(§ * 2).title()', '§[1:3]']).replace('§', s)
        if s == 'len':
            e = e.replace('len(', 'abs(')
    else:
        # the constant's own interpolation ("str.format()-style over the names in the current AST")
        x, y = t_int(rng, min(d, 1)), t_str(rng, min(d, 1))
        e = _pick(rng, ['v {X} w', '{X} / {Y}', 'k-{Y} and {X}', '{Y!r} is it', 'w {X:>4} w', '{Y}  {Y}', 'at {X}: {Y}'])
        e = e.replace('{X', '{' + x).replace('{Y', '{' + y)
        return {'expr': e, 'kind': 'interp', 'bind': {}, 'T': True}
    return {'expr': e, 'kind': 'T', 'bind': bind, 'T': True}
