"""One shard of one check, in its own process:  python -m vt.shard <Cxx> <desc.json> <out.json>"""
from __future__ import annotations

import faulthandler
import importlib
import json
import os
import sys
import traceback


def main(argv):
    prop, descfile, outfile = argv[1:4]
    faulthandler.enable()
    sys.setrecursionlimit(int(os.environ.get('VT_RECLIMIT', '6000')))
    from .common import Acc, assert_repo_tatsu

    with open(descfile) as f:
        desc = json.load(f)
    out = {'ok': False}
    try:
        out['tatsu_file'] = assert_repo_tatsu()
        mod = importlib.import_module(f'vt.checks.{prop.lower()}')
        acc = Acc()
        mod.run_shard(desc, acc)
        out.update(acc.result())
        out['ok'] = True
    except BaseException as e:  # harness failure: inconclusive, reported verbatim
        out['harness_error'] = f'{type(e).__name__}: {e}'
        out['traceback'] = traceback.format_exc()[-4000:]
    tmp = outfile + '.tmp'
    with open(tmp, 'w') as f:
        json.dump(out, f)
    os.replace(tmp, outfile)
    return 0


if __name__ == '__main__':
    sys.exit(main(sys.argv))
