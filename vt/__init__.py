"""Runtime-monitoring verification toolkit for the TatSu properties (see /verif/DESIGN.md)."""
