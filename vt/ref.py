"""REF: independent executable model of TatSu's documented PEG/AST/cut/left-recursion semantics.

Written from docs/syntax.rst, docs/ast.rst, docs/semantics.rst, docs/left_recursion.rst and the
property statements.  Naive, memo-free, recursive; shares no code, data structure or control
structure with tatsu/contexts.  See DESIGN.md 2.2 (including the flags of fragment W).
"""
from __future__ import annotations

import ast as pyast
import re

from .lang import (EOF, EOL, LA, NLA, Alert, Call, Choice, Clo, Const, Cut, Dot, Empty, Fail,
                   Grammar, Group, Include, Join, Meta, Named, NamedList, Opt, Over, OverList,
                   Pat, PClo, Seq, SkipGroup, SkipTo, Tok, Void)


class PFail(Exception):
    def __init__(self, pos=0, msg=''):
        self.pos = pos
        self.msg = msg
        self.first_cut = False


class PSemFail(Exception):
    """a constant that fails to evaluate ("reported as a semantic failure"): under the reading constfail='rule' (the one
    C06 states for actions: the RULE INVOCATION fails like a syntax mismatch) it is not caught by choices, optionals
    or closures inside the rule, only at the rule boundary"""

    def __init__(self, pos=0):
        super().__init__(pos)
        self.pos = pos


# constant texts whose evaluation fails in every context (ZeroDivisionError / IndexError inside the expression)
FAILING_CONSTS = ('1/0', '{1/0}', '[][0]')


class RefBudget(Exception):
    pass


class CL(list):
    """closed list: one element of whoever holds it"""


def assoc_tree(items, how):
    """[e0, s1, e1, s2, e2] -> left: (s2, (s1, e0, e1), e2); right: (s1, e0, (s2, e1, e2)); a single e0 is itself"""
    if len(items) == 1:
        return items[0]
    if how == 'left':
        acc = items[0]
        for i in range(1, len(items) - 1, 2):
            acc = CL([items[i], acc, items[i + 1]])
        return acc
    return CL([items[1], items[0], assoc_tree(items[2:], how)])


class St:
    __slots__ = ('elems', 'ast', 'cut')

    def __init__(self, ast=None):
        self.elems = []
        self.ast = {} if ast is None else ast
        self.cut = False


def fold(elems):
    if not elems:
        return None
    if len(elems) == 1:
        return elems[0]
    return list(elems)  # open list


def close(v):
    return CL(v) if isinstance(v, list) and not isinstance(v, CL) else v


def isopen(v):
    return isinstance(v, list) and not isinstance(v, CL)


def cstadd(old, v):
    if old is None:
        return v
    if isopen(old):
        return [*old, v]
    return [old, v]


def cstaddlist(old, v):
    if old is None:
        return [v]
    if isopen(old):
        return [*old, v]
    return [old, v]


def safekey(n):
    """docs/syntax.rst: a name that collides with an attribute or method of dict gets an underscore appended"""
    while n in _DICT_ATTRS:
        n += '_'
    return n


_DICT_ATTRS = frozenset(vars(dict))


def names_of(e, single, lst):
    if isinstance(e, Named):
        single.add(safekey(e.n))
        names_of(e.e, single, lst)
    elif isinstance(e, NamedList):
        lst.add(safekey(e.n))
        names_of(e.e, single, lst)
    elif isinstance(e, Seq):
        for i in e.items:
            names_of(i, single, lst)
    elif isinstance(e, Choice):
        for o in e.opts:
            names_of(o, single, lst)
    elif isinstance(e, (Group, SkipGroup, Opt, Clo, PClo, LA, NLA, Over, OverList, SkipTo)):
        names_of(e.e, single, lst)
    elif isinstance(e, Join):
        names_of(e.sep, single, lst)
        names_of(e.e, single, lst)


DEFAULT_WS = r'(?m)\s+'


def as_bool(v, default=None):
    if v is None:
        return default
    if isinstance(v, str):
        return v.strip() == 'True'
    return bool(v)


class Ref:
    """One parse of `text` with grammar `g`.

    settings: effective configuration (defaults < directives < parse-time), already layered by
    the caller through `effective_settings`.  `action(rule, value, params)` is applied at each
    successful rule-body evaluation; it may raise PFail (FailedSemantics) or any exception.
    """

    def __init__(self, g: Grammar, text: str, *, settings=None, max_steps=200000, action=None):
        self.g = g
        self.text = text
        s = dict(g.directives)
        s.update(settings or {})
        ws = s.get('whitespace', DEFAULT_WS)
        if ws is None or ws == '' or ws == 'None':
            self.ws = None
        else:
            self.ws = re.compile(ws)
        self.namechars = set(s.get('namechars') or '')
        ng = as_bool(s.get('nameguard'))
        if ng is None:
            ng = bool(self.ws) or bool(self.namechars)
        if self.namechars:
            ng = True   # docs/config.rst: nameguard is "implied by namechars"
        self.nameguard = ng
        self.ignorecase = as_bool(s.get('ignorecase'), False)
        self.constfail = s.get('constfail', 'rule')   # reading of a failing constant: 'rule' | 'local'
        c = s.get('comments')
        ec = s.get('eol_comments')
        self.comments = re.compile(c) if c else None
        self.eol_comments = re.compile(ec) if ec else None
        # additive (C11 input kinds): the keyword comparison follows the PARSER's ignorecase; token matching follows the
        # input object's.  With a plain str both are the same setting, which is the default here.
        self.kw_ignorecase = as_bool(s.get('keyword_ignorecase'), self.ignorecase)
        self.keywords = {k.upper() if self.kw_ignorecase else k for k in g.keywords}
        self.kw_rejected = 0   # times an @name rule's value was refused as a keyword (evidence counter for C11)
        self.rules = {r.name: r for r in g.rules}
        self.growing = {}
        self.steps = 0
        self.max_steps = max_steps
        self.action = action
        self.events = []      # (rule, pos_after_ws, end, value) for every successful body evaluation
        self.nonw = set()     # flags of fragment W raised by this execution
        self.skips = set()    # (start, end) of every non-empty run skipped
        self.lr_growth = 0    # seed-growing iterations
        self.features = set()  # node kinds evaluated successfully
        self.cut_failures = 0  # failures propagated because of a cut
        self.cut_scopes = {}   # scope kind -> number of failures committed there
        self.backtracks = 0
        self.depth = 0
        self.max_depth = 0
        self.vl = 0            # successes of elements that contribute no value
        self.triggers = set()  # conditions under which a recorded known finding can manifest
        self.last_from_seed = False
        self.lr_heads = set()  # rules that acted as the head of a seed growth in this execution
        self.lr_involved = {}  # head rule -> rules re-entered while it was growing at the same position

    def _scope(self, kind):
        self.cut_scopes[kind] = self.cut_scopes.get(kind, 0) + 1
        if getattr(self, 'la_depth', 0):
            # evidence: a failure committed by a cut in a scope that lies inside a lookahead
            self.cut_scopes['under-lookahead'] = self.cut_scopes.get('under-lookahead', 0) + 1

    # ------------------------------------------------------------ lexical
    def _eat(self, rx, pos):
        moved = False
        while rx is not None:
            m = rx.match(self.text, pos)
            if not m or m.end() == pos:
                break
            pos = m.end()
            moved = True
        return pos, moved

    def skip(self, pos):
        start = pos
        prev = -1
        while prev != pos:
            prev = pos
            pos, _ = self._eat(self.ws, pos)
            while True:
                pos, moved = self._eat(self.eol_comments, pos)
                if not moved:
                    break
                pos, _ = self._eat(self.ws, pos)
            pos, _ = self._eat(self.comments, pos)
        if pos > start:
            self.skips.add((start, pos))
        return pos

    def is_name_char(self, c):
        return c is not None and (c.isalnum() or c in self.namechars)

    def is_name(self, s):
        return bool(s) and (s[0].isalpha() or s[0] in self.namechars) and all(
            self.is_name_char(c) for c in s[1:])

    def match_token(self, tok, pos):
        seg = self.text[pos:pos + len(tok)]
        ok = seg.lower() == tok.lower() if self.ignorecase else seg == tok
        if not ok:
            return None
        end = pos + len(tok)
        nxt = self.text[end] if end < len(self.text) else None
        if self.nameguard and self.is_name_char(nxt) and self.is_name(tok):
            self.features.add('TokGuarded')
            return None
        if nxt is not None and (nxt == '_' or nxt.isalnum()):
            # a token matched although a name-like character follows (observation for the evidence only)
            self.features.add('TokBeforeUnderscore' if nxt == '_' else 'TokBeforeAlnum')
        return end

    # ------------------------------------------------------------ rules
    def parse(self, start):
        return self.call(start, 0)

    def call(self, name, pos):
        r = self.rules[name]
        upper = name.lstrip('_')[:1].isupper()
        if not upper:
            pos = self.skip(pos)
        key = (name, pos)
        self.last_from_seed = False
        if key in self.growing:
            seed = self.growing[key]
            seed['used'] = True
            if seed['res'] is None:
                raise PFail(pos, 'lr')
            self.last_from_seed = True
            return seed['res']
        seed = {'res': None, 'used': False}
        self.growing[key] = seed
        self.depth += 1
        self.max_depth = max(self.max_depth, self.depth)
        try:
            try:
                res = self.rule_body(r, pos)
            except PSemFail as e:
                raise PFail(e.pos, 'semantic') from None
            if not seed['used']:
                return res
            seed['res'] = res
            self.lr_heads.add(name)
            while True:
                self.lr_growth += 1
                try:
                    nres = self.rule_body(r, pos)
                except (PFail, PSemFail):
                    break
                if nres[0] <= seed['res'][0]:
                    break
                seed['res'] = nres
            return seed['res']
        finally:
            self.depth -= 1
            self.last_from_seed = False
            del self.growing[key]

    def rule_body(self, r, pos):
        self.steps += 1
        if self.steps > self.max_steps:
            raise RefBudget('ref step budget')
        st = St()
        body = r.body
        if r.base:
            # documented expansion of `r < base = body`: the base's rhs followed by the body
            body = Seq((self.rules[r.base].body, body))
        end = self.ev(body, pos, st)
        if '@' in st.ast:
            val = st.ast['@']
        elif st.ast:
            val = dict(st.ast)
        else:
            val = close(fold(st.elems))
        if 'name' in r.decorators or 'isname' in r.decorators:
            s = str(val)
            if self.kw_ignorecase:
                s = s.upper()
            if s in self.keywords:
                self.kw_rejected += 1
                raise PFail(end, 'keyword')
        if self.action is not None:
            val = self.action(r, val, pos, end)
        self.events.append((r.name, pos, end, val))
        return end, val

    # ------------------------------------------------------------ expressions
    def define(self, e, st):
        single, lst = set(), set()
        names_of(e, single, lst)
        for n in lst:
            st.ast.setdefault(n, [])
        for n in single - lst:
            st.ast.setdefault(n, None)

    VALUELESS = (Void, Alert, EOF, EOL, LA, NLA, Cut, SkipGroup)

    def ev(self, e, pos, st):
        mark = len(st.elems)
        end = self._ev(e, pos, st)
        self.features.add(type(e).__name__)
        if isinstance(e, self.VALUELESS) or (isinstance(e, Opt) and len(st.elems) == mark):
            self.vl += 1
        return end

    def _ev(self, e, pos, st):
        t = self.text
        if isinstance(e, Tok):
            p = self.skip(pos)
            end = self.match_token(e.s, p)
            if end is None:
                raise PFail(p, e.s)
            st.elems.append(e.s)
            return end
        if isinstance(e, Pat):
            m = re.compile(e.rx).match(t, pos)
            if not m:
                raise PFail(pos, e.rx)
            gs = m.groups(default='')
            if None in m.groups():
                self.features.add('PatAbsentGroup')
            if len(gs) == 1:
                v = gs[0]
            elif len(gs) > 1:
                v = tuple(gs)
            else:
                v = m.group()
            st.elems.append(v)
            return m.end()
        if isinstance(e, Call):
            end, val = self.call(e.name, pos)
            if val is None:
                self.nonw.add('none-valued-call')
            if isopen(val):
                # an override (@: over several elements, @+:) made the callee's value an open list
                # (a growing seed handed back to its own recursion is a different matter: TatSu closes those)
                self.triggers.add('open-list-seed' if self.last_from_seed else 'open-list-rule-value')
            st.elems.append(val)
            return end
        if isinstance(e, Include):
            return self.ev(self.rules[e.name].body, pos, st)
        if isinstance(e, Seq):
            self.define(e, st)
            for i in e.items:
                pos = self.ev(i, pos, st)
            return pos
        if isinstance(e, Choice):
            for o in e.opts:
                ch = St(dict(st.ast))
                self.define(o, ch)
                try:
                    end = self.ev(o, pos, ch)
                except PFail:
                    if ch.cut:
                        self.cut_failures += 1
                        self._scope('option')
                        raise
                    self.backtracks += 1
                    continue
                st.elems.extend(ch.elems)
                st.ast = ch.ast
                return end
            raise PFail(pos, 'choice')
        if isinstance(e, Group):
            return self.ev(e.e, pos, st)
        if isinstance(e, SkipGroup):
            ch = St(dict(st.ast))
            end = self.ev(e.e, pos, ch)
            return end
        if isinstance(e, Opt):
            ch = St(dict(st.ast))
            self.define(e.e, ch)
            try:
                end = self.ev(e.e, pos, ch)
            except PFail:
                if ch.cut:
                    self.cut_failures += 1
                    self._scope('optional')
                    raise
                self.backtracks += 1
                return pos
            st.elems.extend(ch.elems)
            st.ast = ch.ast
            return end
        if isinstance(e, (Clo, PClo)):
            return self.closure(e.e, None, pos, st, positive=isinstance(e, PClo), keepsep=False)
        if isinstance(e, Join):
            if e.assoc:
                # documented: the joined list [e, s, e, s, e] re-associated into a tree (s, l, r); ONE value
                ch = St(dict(st.ast))
                end = self.closure(e.e, e.sep, pos, ch, positive=True, keepsep=True)
                st.ast = ch.ast
                st.elems.append(assoc_tree(list(ch.elems[-1]), e.assoc))
                if len(ch.elems[-1]) >= 3:
                    self.features.add('AssocJoin')
                return end
            if e.positive:
                return self.closure(e.e, e.sep, pos, st, positive=True, keepsep=not e.gather)
            # documented: s%{e} == s%{e}+ | {}
            ch = St(dict(st.ast))
            try:
                end = self.closure(e.e, e.sep, pos, ch, positive=True, keepsep=not e.gather)
            except PFail as f:
                if f.first_cut:
                    self.cut_failures += 1
                    raise
                st.elems.append(CL())
                return pos
            st.elems.extend(ch.elems)
            st.ast = ch.ast
            return end
        if isinstance(e, LA):
            ch = St(dict(st.ast))
            self.la_depth = getattr(self, 'la_depth', 0) + 1
            try:
                self.ev(e.e, pos, ch)
            finally:
                self.la_depth -= 1
            return pos
        if isinstance(e, NLA):
            ch = St(dict(st.ast))
            self.la_depth = getattr(self, 'la_depth', 0) + 1
            try:
                self.ev(e.e, pos, ch)
            except (PFail, PSemFail):
                # `!e` succeeds when e fails, for whatever reason: under the reading in which a semantic failure fails
                # every scope up to its rule, it still is a failure of e
                return pos
            finally:
                self.la_depth -= 1
            raise PFail(pos, 'nla')
        if isinstance(e, (Named, NamedList)):
            mark = len(st.elems)
            vl0 = self.vl
            end = self.ev(e.e, pos, st)
            v = fold(st.elems[mark:])
            if len(st.elems) == mark or self.vl != vl0:
                self.nonw.add('name-over-valueless')
            if len(st.elems) != mark + 1 or self.vl != vl0:
                self.triggers.add('named-not-single')
            key = safekey(e.n)
            if key != e.n:
                self.features.add('NameRenamedAsDictAttribute')
            prev = st.ast.get(key)
            if prev is not None and prev != [] and (isopen(prev) or isopen(v)):
                self.nonw.add('rebind-open-list')
            if isinstance(e, Named):
                st.ast[key] = cstadd(st.ast.get(key), v)
            else:
                st.ast[key] = cstaddlist(st.ast.get(key), v)
            return end
        if isinstance(e, (Over, OverList)):
            mark = len(st.elems)
            vl0 = self.vl
            end = self.ev(e.e, pos, st)
            v = fold(st.elems[mark:])
            if len(st.elems) == mark or self.vl != vl0:
                self.nonw.add('name-over-valueless')
            if len(st.elems) != mark + 1 or self.vl != vl0:
                self.triggers.add('named-not-single')
            if '@' in st.ast:
                self.nonw.add('nested-override')
            if isinstance(e, OverList) and '@' not in st.ast:
                v = [v]
            st.ast['@'] = cstadd(st.ast.get('@'), v)
            return end
        if isinstance(e, Const):
            p = self.skip(pos)
            if e.text.strip() in FAILING_CONSTS:
                # the scope of a semantic failure is not fixed by the documentation: both readings are computed
                # (settings['constfail']) and the execution is flagged
                self.nonw.add('failing-constant')
                if self.constfail == 'rule':
                    raise PSemFail(p)
                raise PFail(p, 'semantic')
            try:
                v = pyast.literal_eval(e.text.strip())
            except (ValueError, SyntaxError):
                v = e.text
            st.elems.append(v)
            return p
        if isinstance(e, Alert):
            return self.skip(pos)
        if isinstance(e, Void):
            return self.skip(pos)
        if isinstance(e, Fail):
            raise PFail(self.skip(pos), 'fail')
        if isinstance(e, EOF):
            p = self.skip(pos)
            if p < len(t):
                raise PFail(p, 'eof')
            return p
        if isinstance(e, Dot):
            if pos >= len(t):
                raise PFail(pos, 'dot')
            st.elems.append(t[pos])
            return pos + 1
        if isinstance(e, SkipTo):
            while pos < len(t):
                ch = St(dict(st.ast))
                try:
                    self.ev(e.e, pos, ch)
                    break
                except PFail:
                    pass
                p2 = self.skip(pos)
                pos = p2 if p2 != pos else pos + 1
            return self.ev(e.e, pos, st)
        if isinstance(e, Empty):
            st.elems.append(CL())
            return pos
        if isinstance(e, Cut):
            st.cut = True
            return pos
        raise TypeError(e)

    def closure(self, body, sep, pos, st, positive, keepsep):
        items = []
        ast = st.ast
        first = True
        lead_cut = False   # a cut passed by the leading element: docs `e {s ~ e}` is ONE option of `s%{e}+ | {}`
        while True:
            it = St(dict(ast))
            p = pos
            scopes = [it]
            try:
                if sep is not None and not first:
                    sp = St(it.ast)
                    scopes.append(sp)
                    p = self.ev(sep, p, sp)
                    sepval = close(fold(sp.elems))
                    it.cut = True  # a join commits after each separator
                    b = St(sp.ast)
                    scopes.append(b)
                    p = self.ev(body, p, b)
                    vals = ([sepval] if keepsep else []) + [close(fold(b.elems))]
                    newast = b.ast
                else:
                    p = self.ev(body, p, it)
                    vals = [close(fold(it.elems))]
                    newast = it.ast
            except PFail as f:
                cut = any(s.cut for s in scopes)
                if first and positive:
                    f.first_cut = cut
                    if cut:
                        self._scope('closure-iteration-1')
                    raise
                if cut:
                    f.first_cut = first or lead_cut
                    self.cut_failures += 1
                    explicit = any(s.cut for s in scopes[1:]) or (sep is None) or first
                    if sep is not None and not first and len(scopes) > 1 and not any(s.cut for s in scopes[1:]):
                        self._scope('join-after-separator')
                    else:
                        self._scope('closure-iteration-1' if first else 'closure-iteration-n')
                    raise
                f.first_cut = False
                self.backtracks += 1
                break
            if p == pos:
                self.nonw.add('empty-iteration')
            if p == pos and not first:
                break
            if any(v is None for v in vals):
                self.nonw.add('valueless-iteration')
            items.extend(vals)
            ast = newast
            pos = p
            if first and it.cut:
                lead_cut = True
            first = False
        st.ast = ast
        st.elems.append(CL(items))
        return pos


def canon(v):
    """canonical comparable form (lists/tuples -> list; dict -> dict minus parseinfo)"""
    if isinstance(v, dict):
        return {k: canon(x) for k, x in v.items() if k not in ('parseinfo', '__parseinfo__')}
    if isinstance(v, (list, tuple)):
        return [canon(x) for x in v]
    return v


def crepr(v) -> str:
    """order-insensitive canonical text of an AST value (dict key order is not part of the value)"""
    import json
    return json.dumps(canon(v), sort_keys=True, default=repr, ensure_ascii=True)


def ref_run(g, text, start=None, settings=None, max_steps=200000, action=None):
    """-> (outcome, ref) with outcome ('ok', end, canon(value)) | ('fail',) | ('budget',)"""
    r = Ref(g, text, settings=settings, max_steps=max_steps, action=action)
    try:
        end, val = r.parse(start or g.rules[0].name)
        return ('ok', end, canon(val)), r
    except PFail:
        return ('fail',), r
    except (RefBudget, RecursionError):
        return ('budget',), r


# ------------------------------------------------------------------ analysis side (C16)
def nullable_map(g: Grammar) -> dict:
    """least fixpoint: which rules can match the empty string"""
    nul = {r.name: False for r in g.rules}

    def n(e):
        if isinstance(e, (Tok, Pat, Dot, Fail, Meta)):
            if isinstance(e, Tok):
                return e.s == ''
            if isinstance(e, Pat):
                try:
                    return re.compile(e.rx).match('') is not None
                except re.error:
                    return False
            return False
        if isinstance(e, Call):
            return nul.get(e.name, False)
        if isinstance(e, Include):
            return n(g.rule(e.name).body)
        if isinstance(e, Seq):
            return all(n(i) for i in e.items)
        if isinstance(e, Choice):
            return any(n(o) for o in e.opts)
        if isinstance(e, (Opt, Clo, LA, NLA, Void, Empty, Cut, Const, Alert, EOF, EOL)):
            return True
        if isinstance(e, Join):
            return True if not (e.positive or e.assoc) else n(e.e)
        if isinstance(e, (PClo, Group, SkipGroup, Named, NamedList, Over, OverList)):
            return n(e.e)
        if isinstance(e, SkipTo):
            return n(e.e)
        return False

    changed = True
    while changed:
        changed = False
        for r in g.rules:
            v = n(r.body)
            if v and not nul[r.name]:
                nul[r.name] = True
                changed = True
    return nul, n


def left_calls(g: Grammar):
    """rule -> set of rules callable at the rule's own start position (through nullable prefixes).

    Returns (graph, hidden) where hidden is True when some prefix contained a call to a nullable
    rule (the case the C16 statement excludes)."""
    nul, n = nullable_map(g)
    hidden = [False]

    def first_calls(e):
        if isinstance(e, Call):
            return {e.name}
        if isinstance(e, Include):
            return first_calls(g.rule(e.name).body)
        if isinstance(e, Seq):
            out = set()
            for i in e.items:
                out |= first_calls(i)
                if not n(i):
                    break
                if any(isinstance(x, Call) and nul.get(x.name) for x in _walk(i)):
                    hidden[0] = True
            return out
        if isinstance(e, Choice):
            out = set()
            for o in e.opts:
                out |= first_calls(o)
            return out
        if isinstance(e, Join):
            out = first_calls(e.e)
            if n(e.e):
                out |= first_calls(e.sep)
            return out
        if hasattr(e, 'e'):
            return first_calls(e.e)
        return set()

    graph = {r.name: first_calls(r.body) for r in g.rules}
    return graph, hidden[0], nul


def _walk(e):
    from .lang import walk
    return walk(e)


def left_sccs(g: Grammar) -> dict:
    """rule -> frozenset of the rules in its strongly connected component of the left-call graph"""
    lrec, graph, hidden, nul = left_recursive_rules(g)
    reach = {k: {k} for k in graph}
    changed = True
    while changed:
        changed = False
        for k in graph:
            new = set(reach[k])
            for m in graph[k]:
                new |= reach.get(m, {m})
            if new != reach[k]:
                reach[k] = new
                changed = True
    return {k: frozenset(m for m in reach[k] if k in reach.get(m, ())) for k in graph}


def left_recursive_rules(g: Grammar):
    """rules that can reach themselves at the same position; plus 'hidden' marker"""
    graph, hidden, nul = left_calls(g)
    reach = {k: set(v) for k, v in graph.items()}
    changed = True
    while changed:
        changed = False
        for k in reach:
            new = set(reach[k])
            for m in list(reach[k]):
                new |= reach.get(m, set())
            if new != reach[k]:
                reach[k] = new
                changed = True
    lrec = {k for k in reach if k in reach[k]}
    return lrec, graph, hidden, nul
