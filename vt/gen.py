"""Seeded generators: random grammars, exhaustive small grammars, inputs (derivation-guided + mutated)."""
from __future__ import annotations

import itertools
import random

from .lang import (EOF, LA, NLA, Call, Choice, Clo, Const, Cut, Dot, Empty, Fail, Grammar, Group,
                   Join, Named, NamedList, Opt, Over, OverList, Pat, PClo, Rule, Seq, SkipGroup,
                   SkipTo, Tok, Void, walk)

TOKS = ['a', 'b', 'c']
# pattern -> sample matching strings (patterns match no whitespace, <=1 capturing group)
PATS = {
    'a': ['a'],
    'b+': ['b', 'bb', 'bbb'],
    '[ab]': ['a', 'b'],
    'c': ['c'],
    r'\d+': ['1', '42'],
    '(a)b': ['ab'],
    r'[a-c]+': ['abc', 'ca', 'b'],
}

# patterns whose single capturing group may take no part in a successful match: the documented value is what
# re.findall() gives — '' for such a group.  (Several groups: the docs promise a tuple, TatSu returns the first
# group; the properties say nothing about it, so such patterns are not generated — DESIGN.md 8.10.)
GROUP_PATS = {
    '(a)?b': ['b', 'ab'],
    '(c)|a': ['a', 'c'],
    '(?:(a)b)?c': ['c', 'abc'],
    '(b)?a': ['a', 'ba'],
    'c|(b)': ['c', 'b'],
    '(?P<x>b)?a': ['a', 'ba'],
}

# token texts at the edge of what the name guard looks at: underscores, digits, non-ASCII letters, punctuation inside
WIDE_TOKS = ['a_', '_a', 'a_b', 'ab', 'a1', '1a', 'if', 'b_', 'c-', 'a-b', '\u00e9', 'a\u00e9', '_', '__', 'b2b', '-', '+']

FEATURES = dict(names=True, over=True, la=True, join=True, skipto=True, const=True,
                void=True, dot=True, cut=False, skipgroup=True, empty=True, fail=True, eof=True,
                recursion=False)

CONSTS = ['5', 'zq', "'s'", '1.5']


def gen_exp(rng, depth, rules, F, pats=None):
    pats = pats or list(PATS)[:4]
    toks = F.get('toks') or TOKS

    def leaf():
        r = rng.random()
        if r < 0.45:
            return Tok(rng.choice(toks))
        if r < 0.6:
            return Pat(rng.choice(pats))
        if r < 0.85 and rules:
            return Call(rng.choice(rules))
        if r < 0.88 and F['const']:
            return Const(rng.choice(CONSTS))
        if r < 0.91 and F['dot']:
            return Dot()
        if r < 0.93 and F['void']:
            return Void()
        if r < 0.95 and F['empty']:
            return Empty()
        if r < 0.96 and F['eof']:
            return EOF()
        if r < 0.965 and F['fail']:
            return Fail()
        return Tok(rng.choice(toks))

    if depth <= 0:
        return leaf()
    r = rng.random()

    def sub():
        return gen_exp(rng, depth - 1, rules, F, pats)

    if r < 0.25:
        return leaf()
    if r < 0.45:
        items = [sub() for _ in range(rng.choice([2, 2, 3]))]
        if F['cut'] and rng.random() < 0.35:
            items.insert(rng.randrange(1, len(items) + 1), Cut())
        return Seq(tuple(items))
    if r < 0.55:
        return Group(Choice(tuple(sub() for _ in range(rng.choice([2, 2, 3])))))
    if r < 0.62:
        return Opt(sub())
    if r < 0.70:
        return (Clo if rng.random() < .5 else PClo)(sub())
    if r < 0.74 and F['join']:
        sep = Tok(rng.choice(F['seps'])) if F.get('seps') else Tok(',')
        if F.get('assoc') and rng.random() < .3:
            return Join(sep, sub(), True, False, rng.choice(['left', 'right']))
        return Join(sep, sub(), rng.random() < .5, rng.random() < .5)
    if r < 0.78 and F['la']:
        return (LA if rng.random() < .5 else NLA)(sub())
    if r < 0.84 and F['names']:
        return (Named if rng.random() < .7 else NamedList)(rng.choice(F.get('name_pool') or ['n', 'm', 'k']), sub())
    if r < 0.87 and F['over']:
        return (Over if rng.random() < .7 else OverList)(sub())
    if r < 0.89 and F['skipto']:
        return SkipTo(sub())
    if r < 0.91 and F['skipgroup']:
        return SkipGroup(sub())
    if r < 0.93:
        return Group(sub())
    return leaf()


RULE_NAMES = ['start', 'x', 'Y', 'z', 'w']


def gen_grammar(rng, F=FEATURES, max_rules=3, pats=None):
    nr = rng.choice([1, 2, 2, 3, 3, 4, 5][:max(1, 2 * max_rules - 1)])
    nr = min(nr, max_rules)
    names = RULE_NAMES[:nr]
    rules = []
    for i, n in enumerate(names):
        callable_ = names[i + 1:]  # acyclic unless F['recursion']
        body = gen_exp(rng, rng.choice([1, 2, 3]), callable_, F, pats)
        if rng.random() < 0.3:
            body = Choice(tuple(gen_exp(rng, 2, callable_, F, pats) for _ in range(2)))
        rules.append(Rule(n, body))
    return Grammar(rules)


# --------------------------------------------------------------------- inputs
def derive(rng, g: Grammar, e, depth=0):
    """sample a string the expression is likely to accept (not guaranteed: PEG is not CFG)"""
    if depth > 8:
        return ''
    d = depth + 1
    if isinstance(e, Tok):
        return e.s
    if isinstance(e, Pat):
        return rng.choice(PATS.get(e.rx) or GROUP_PATS.get(e.rx) or ['a'])
    if isinstance(e, Call):
        try:
            return derive(rng, g, g.rule(e.name).body, d)
        except KeyError:
            return ''
    if isinstance(e, Seq):
        parts = [derive(rng, g, i, d) for i in e.items]
        return join_parts(rng, parts)
    if isinstance(e, Choice):
        return derive(rng, g, rng.choice(e.opts), d)
    if isinstance(e, (Group, SkipGroup, Named, NamedList, Over, OverList)):
        return derive(rng, g, e.e, d)
    if type(e).__name__ == 'Include':
        try:
            return derive(rng, g, g.rule(e.name).body, d)
        except KeyError:
            return ''
    if isinstance(e, Opt):
        return derive(rng, g, e.e, d) if rng.random() < 0.6 else ''
    if isinstance(e, (Clo, PClo)):
        n = rng.choice([0, 1, 2, 3]) if isinstance(e, Clo) else rng.choice([1, 2, 3])
        return join_parts(rng, [derive(rng, g, e.e, d) for _ in range(n)])
    if isinstance(e, Join):
        n = rng.choice([0, 1, 2, 3]) if not (e.positive or e.assoc) else rng.choice([1, 2, 3, 4])
        parts = []
        for i in range(n):
            if i:
                parts.append(derive(rng, g, e.sep, d))
            parts.append(derive(rng, g, e.e, d))
        return join_parts(rng, parts)
    if isinstance(e, Dot):
        return rng.choice('abc,')
    if isinstance(e, SkipTo):
        junk = ''.join(rng.choice('abc ') for _ in range(rng.choice([0, 1, 2])))
        return junk + derive(rng, g, e.e, d)
    return ''


def join_parts(rng, parts):
    out = ''
    for p in parts:
        if not p:
            continue
        if out and rng.random() < 0.5:
            out += rng.choice([' ', ' ', '  ', '\n'])
        out += p
    return out


def mutate(rng, s, alphabet='abc ,'):
    if not s:
        return rng.choice(alphabet)
    k = rng.random()
    i = rng.randrange(len(s))
    if k < 0.3:
        return s[:i] + s[i + 1:]
    if k < 0.55:
        return s[:i] + rng.choice(alphabet) + s[i:]
    if k < 0.75:
        return s[:i] + rng.choice(alphabet) + s[i + 1:]
    if k < 0.9 and len(s) > 1:
        j = rng.randrange(len(s))
        l = list(s)
        l[i], l[j] = l[j], l[i]
        return ''.join(l)
    return s + rng.choice(alphabet)


FIXED_INPUTS = ['', 'a', 'ab', 'a b', 'abc', 'a b c', 'a,a', 'b b', ' a']


def gen_inputs(rng, g: Grammar, start: str, n: int, alphabet='abc ,'):
    out = []
    body = g.rule(start).body
    for i in range(n):
        k = rng.random()
        if k < 0.45:
            s = derive(rng, g, body)
        elif k < 0.75:
            s = mutate(rng, derive(rng, g, body), alphabet)
        elif k < 0.85:
            s = rng.choice(FIXED_INPUTS)
        else:
            s = ''.join(rng.choice(alphabet + 'ab') for _ in range(rng.randrange(1, 7)))
        if rng.random() < 0.15:
            s = rng.choice([' ', '\n', '  ']) + s
        if rng.random() < 0.15:
            s = s + rng.choice([' ', '\n', 'c'])
        out.append(s)
    return out


def all_strings(alphabet, maxlen):
    for n in range(maxlen + 1):
        for t in itertools.product(alphabet, repeat=n):
            yield ''.join(t)


# ------------------------------------------------------- exhaustive small grammars
SMALL_LEAVES = [Tok('a'), Tok('b'), Pat('c'), Void(), EOF(), Dot(), Empty()]


def small_exps(n, calls=()):
    """all expressions with exactly n nodes over the small alphabet (DESIGN C01 (a))"""
    memo = {}

    def go(k):
        if k in memo:
            return memo[k]
        out = []
        if k == 1:
            out = list(SMALL_LEAVES) + [Call(c) for c in calls]
        else:
            # unary
            for sub in go(k - 1):
                for mk in (Opt, Clo, PClo, LA, NLA, Group):
                    out.append(mk(sub))
                out.append(Named('n', sub))
                out.append(NamedList('n', sub))
                out.append(Over(sub))
            # binary seq / choice  (k-1 nodes split in two)
            for i in range(1, k - 1):
                for l in go(i):
                    for r in go(k - 1 - i):
                        out.append(Seq((l, r)))
                        out.append(Group(Choice((l, r))) if False else Choice((l, r)))
        memo[k] = out
        return out

    return go(n)


def needs_group(e):
    """Choice directly under Seq/unary must be parenthesised in text; wrap for the object route"""
    return e


def normalise(e):
    """insert the Groups grammar text would need (Choice/Seq under a unary or inside Seq)"""
    from .lang import children, rebuild
    kids = [normalise(c) for c in children(e)]
    if isinstance(e, Seq):
        kids = [Group(k) if isinstance(k, Choice) else k for k in kids]
        flat = []
        for k in kids:
            if isinstance(k, Seq):
                flat.extend(k.items)
            else:
                flat.append(k)
        return Seq(tuple(flat))
    if isinstance(e, Choice):
        flat = []
        for k in kids:
            if isinstance(k, Choice):
                flat.extend(k.opts)
            else:
                flat.append(k)
        return Choice(tuple(flat))
    if isinstance(e, (LA, NLA, Named, NamedList, Over, OverList, SkipTo)):
        k = kids[0]
        if isinstance(k, (Seq, Choice, Named, NamedList, Over, OverList, LA, NLA, SkipTo)):
            k = Group(k)
        return rebuild(e, [k])
    if isinstance(e, Join):
        s = kids[0]
        if isinstance(s, (Seq, Choice, Named, NamedList, Over, OverList, LA, NLA, SkipTo)):
            s = Group(s)
        return rebuild(e, [s, kids[1]])
    return rebuild(e, kids) if kids else e


def rename_rules(g, mapping):
    """consistently rename rules (memo keys, generated method names, leader selection depend on names)"""
    from .lang import Include, children, rebuild

    def rn(e):
        if isinstance(e, Call):
            return Call(mapping.get(e.name, e.name))
        if isinstance(e, Include):
            return Include(mapping.get(e.name, e.name))
        kids = children(e)
        return rebuild(e, [rn(k) for k in kids]) if kids else e
    return Grammar([Rule(mapping.get(r.name, r.name), rn(r.body), r.decorators, r.params, r.kwparams,
                         mapping.get(r.base, r.base) if r.base else None) for r in g.rules],
                   dict(g.directives), tuple(g.keywords))


SIMILAR_NAMES = {'start': 'rule', 'x': 'rule1', 'Y': 'Rule', 'z': 'rule_', 'w': 'rulez'}
