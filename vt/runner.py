"""Check driver:  python -m vt.runner <Cxx> [quick|thorough] [--replay path]

Splits a check into shards (fresh processes, wall-clock watchdog => inconclusive),
folds the three-valued verdict, matches violations against known_findings.json and
writes evidence/<id>.json.
"""
from __future__ import annotations

import argparse
import importlib
import json
import os
import shutil
import subprocess
import sys
import tempfile
import time
from concurrent.futures import ThreadPoolExecutor

from . import findings
from .common import VERIF, hs, tree_identity

JOBS = int(os.environ.get('VERIF_JOBS', '16'))


def run_one_shard(prop, desc, scratch, idx, timeout):
    descfile = os.path.join(scratch, f'd{idx}.json')
    outfile = os.path.join(scratch, f'o{idx}.json')
    with open(descfile, 'w') as f:
        json.dump(desc, f)
    t0 = time.monotonic()
    env = dict(os.environ)
    env['VT_SCRATCH'] = os.path.join(scratch, f's{idx}')
    os.makedirs(env['VT_SCRATCH'], exist_ok=True)
    try:
        p = subprocess.run([sys.executable, '-m', 'vt.shard', prop, descfile, outfile],
                           timeout=timeout, capture_output=True, text=True, env=env, cwd=VERIF)
        err = (p.stderr or '')[-3000:]
        rc = p.returncode
    except subprocess.TimeoutExpired:
        return {'ok': False, 'timeout': True, 'desc': desc, 'wall_s': time.monotonic() - t0}
    if os.path.exists(outfile):
        with open(outfile) as f:
            out = json.load(f)
    else:
        out = {'ok': False, 'harness_error': f'shard died rc={rc}', 'traceback': err}
    out['desc'] = desc
    out.setdefault('wall_s', time.monotonic() - t0)
    if rc != 0 and out.get('ok'):
        out['ok'] = False
        out['harness_error'] = f'shard rc={rc}'
        out['traceback'] = err
    return out


def fold(prop, mod, tier, seed, results, t0):
    counters: dict[str, int] = {}
    peaks = set(getattr(mod, 'PEAK_COUNTERS', ()))
    nontrivial: set[int] = set()
    samples: list = []
    violations: list = []
    notes: list = []
    evaluations = 0
    bad_shards = []
    for r in results:
        if not r.get('ok'):
            bad_shards.append({'desc': r.get('desc'), 'timeout': r.get('timeout', False),
                               'error': r.get('harness_error'), 'traceback': r.get('traceback')})
            continue
        evaluations += r['evaluations']
        for k, v in r['counters'].items():
            if k in peaks:
                counters[k] = max(counters.get(k, 0), v)
            else:
                counters[k] = counters.get(k, 0) + v
        nontrivial.update(r['nontrivial'])
        for s in r['samples']:
            if len(samples) < 6:
                samples.append(s)
        violations.extend(r['violations'])
        for n in r['notes']:
            if n not in notes:
                notes.append(n)

    kf = findings.load()
    known_seen: dict[str, int] = {}
    new_violations = []
    for v in violations:
        entry = findings.match(kf, prop, v['sig'])
        if entry is not None:
            known_seen[entry['sig']] = known_seen.get(entry['sig'], 0) + 1
        else:
            new_violations.append(v)
    # counts of all occurrences (shards cap the witnesses they keep)
    for k, v in counters.items():
        if k.startswith('violations:'):
            sig = k[len('violations:'):]
            entry = findings.match(kf, prop, sig)
            if entry is not None:
                known_seen[entry['sig']] = max(known_seen.get(entry['sig'], 0), v)

    lines = []
    for sig, n in sorted(known_seen.items()):
        entry = findings.match(kf, prop, sig)
        lines.append(f"KNOWN-FINDING: property={prop} {entry['what']} [sig={sig} seen={n}]")

    replay_paths = []
    seen_sigs = set()
    for v in new_violations:
        if v['sig'] in seen_sigs and len(replay_paths) >= 5:
            continue
        seen_sigs.add(v['sig'])
        d = os.path.join(VERIF, 'replays', prop)
        os.makedirs(d, exist_ok=True)
        path = os.path.join(d, f"{hs(v['sig'], v['witness'])}.json")
        with open(path, 'w') as f:
            json.dump({'property': prop, 'sig': v['sig'], 'what': v['what'],
                       'witness': v['witness'], 'tier': tier, 'seed': seed}, f, indent=1)
        replay_paths.append(path)
        lines.append(f"VIOLATION property={prop} replay={path}")
        lines.append(f"  what: {v['what']}  [sig={v['sig']}]")

    inconclusive = []
    if bad_shards:
        for b in bad_shards:
            inconclusive.append('shard ' + ('timeout' if b['timeout'] else f"error {b['error']}"))
    floors = getattr(mod, 'FLOORS', {}).get(tier, {})
    for k, need in floors.items():
        have = evaluations if k == 'evaluations' else (
            len(nontrivial) if k == 'distinct_nontrivial' else counters.get(k, 0))
        if have < need:
            inconclusive.append(f'floor {k}: {have} < {need}')

    if new_violations:
        verdict = 'violated'
    elif inconclusive:
        verdict = 'inconclusive'
    else:
        verdict = 'held'

    level = mod.LEVEL
    coverage = {
        'evaluations': evaluations,
        'distinct_nontrivial': len(nontrivial),
        'rule': mod.RULE,
        'samples': samples or ['<no sample recorded>'],
        'counters': {k: v for k, v in sorted(counters.items())},
        'shards': len(results),
        'shards_inconclusive': len(bad_shards),
        'floors': floors,
        'known_findings_seen': known_seen,
        'verdict': verdict,
        'inconclusive_reasons': inconclusive,
        'notes': notes,
        'tree': tree_identity(),
    }
    if getattr(mod, 'EXHAUSTIVE', {}).get(tier):
        coverage['exhaustive'] = True
        coverage['exhaustive_scope'] = mod.EXHAUSTIVE[tier]
    if level == 'translation_validation':
        coverage['programs'] = counters.get('programs', 0)
        coverage['disagreements_checked'] = counters.get('disagreements_checked', 0) + len(violations)
    if hasattr(mod, 'extra_coverage'):
        coverage.update(mod.extra_coverage(counters, tier))
    evidence = {
        'property_id': prop,
        'tier': tier,
        'seed': seed,
        'level': level,
        'coverage': coverage,
        'assumptions': list(getattr(mod, 'ASSUMPTIONS', [])),
        'wall_s': round(time.monotonic() - t0, 2),
        'violations': len(new_violations),
    }
    # runs against a scratch copy of the repository (seeded changes, refactorings) must not overwrite the evidence of /repo
    evdir = os.environ.get('VT_EVIDENCE_DIR') or os.path.join(VERIF, 'evidence')
    os.makedirs(evdir, exist_ok=True)
    with open(os.path.join(evdir, f'{prop}.json'), 'w') as f:
        json.dump(evidence, f, indent=1, sort_keys=True)
        f.write('\n')

    for line in lines:
        print(line)
    if new_violations and os.environ.get('VT_SUMMARY', '1') == '1':
        bysig = {}
        for v in new_violations:
            bysig.setdefault(v['sig'], v)
        print(f'--- {len(bysig)} distinct signatures among kept witnesses:', file=sys.stderr)
        for sig, v in sorted(bysig.items(), key=lambda kv: -counters.get('violations:' + kv[0], 0))[:60]:
            print(f"  [{counters.get('violations:' + sig, 0)}x] {sig}: {v['what'][:400]}", file=sys.stderr)
    if verdict == 'inconclusive':
        print(f"INCONCLUSIVE property={prop} reason={'; '.join(inconclusive)[:600]}")
        for b in bad_shards[:2]:
            if b.get('traceback'):
                print(b['traceback'], file=sys.stderr)
    print(f"{prop} {tier} seed={seed}: verdict={verdict} evaluations={evaluations} "
          f"distinct_nontrivial={len(nontrivial)} known={sum(known_seen.values())} "
          f"new_violations={len(new_violations)} wall={evidence['wall_s']}s")
    return {'held': 0, 'violated': 1, 'inconclusive': 2}[verdict]


def main(argv=None):
    ap = argparse.ArgumentParser()
    ap.add_argument('prop')
    ap.add_argument('tier', nargs='?', default=os.environ.get('VERIF_TIER', 'quick'))
    ap.add_argument('--replay')
    ap.add_argument('--jobs', type=int, default=JOBS)
    ap.add_argument('--only', type=int, default=None, help='run only shard #n (debug)')
    a = ap.parse_args(argv)
    prop = a.prop.upper()
    seed = int(os.environ.get('VERIF_SEED', '0') or 0)
    mod = importlib.import_module(f'vt.checks.{prop.lower()}')

    if a.replay:
        with open(a.replay) as f:
            w = json.load(f)
        from .common import Acc, assert_repo_tatsu
        assert_repo_tatsu()
        acc = Acc()
        mod.replay(w['witness'], acc)
        kf = findings.load()
        bad = [v for v in acc.violations if findings.match(kf, prop, v['sig']) is None]
        for v in acc.violations:
            print(('VIOLATION' if v in bad else 'KNOWN-FINDING:') + f" property={prop} replay={a.replay}")
            print(f"  what: {v['what']} [sig={v['sig']}]")
        if not acc.violations:
            print(f'{prop}: replayed case no longer violates')
        return 1 if bad else 0

    tier = a.tier
    if tier not in ('quick', 'thorough'):
        ap.error('tier must be quick or thorough')
    t0 = time.monotonic()
    shards = mod.plan(tier, seed)
    if a.only is not None:
        shards = [shards[a.only]]
    timeout = getattr(mod, 'SHARD_TIMEOUT', {}).get(tier, 900 if tier == 'quick' else 5400)
    scratch = tempfile.mkdtemp(prefix=f'vt-{prop}-')
    try:
        with ThreadPoolExecutor(max_workers=max(1, a.jobs)) as ex:
            futs = [ex.submit(run_one_shard, prop, d, scratch, i, timeout) for i, d in enumerate(shards)]
            results = [f.result() for f in futs]
        return fold(prop, mod, tier, seed, results, t0)
    finally:
        shutil.rmtree(scratch, ignore_errors=True)


if __name__ == '__main__':
    sys.exit(main())
