"""C13 — pretty-printed grammars recompile to the same parser and are a fixpoint; railroads render
with tracks of consistent width.

Oracle: round-trip differential on the real code.  For every model M (obtained through the text,
object, JSON and ANTLR-translation routes): `tatsu.compile(M.pretty())` must succeed and give M2
with the same directives/keywords/rule parameters/bases/parsing decorators, the same accept/reject
and equal ASTs on derivation-guided inputs, and `M2.pretty() == M.pretty()`.  `M.railroads()` must
complete and every `tatsu.railroads.tracks(x)` (grammar and each rule) must be a list of rails of
equal display width, measured by an independent east_asian_width computation.
DESIGN.md section 3/C13.
"""
from __future__ import annotations

import json
import random
import signal
import unicodedata

from .. import lang as L
from .. import shrink as S
from ..common import h64
from ..monitors import modelgen as MG

ID = 'C13'
LEVEL = 'translation_validation'
RULE = ('programs = grammar models obtained by (i) tatsu.compile of generated grammar text, (ii) tatsu.peg object '
        'construction, (iii) Grammar.load of the JSON export, (iv) tatsu.g2e.translate of generated ANTLR grammars, '
        '(v) a fixed corpus (repo grammars, deprecated syntax forms), over the full expression language ($->, @metas, '
        'alerts, constants incl. multi-line, patterns with slashes/quotes/newlines, hostile tokens, decorators, '
        'params/kwparams, based rules, includes, all directives, @@keyword); each model is pretty-printed, recompiled, '
        'pretty-printed again and both models are run on derivation-guided + mutated inputs; known-defective printer '
        'forms ("hazards") are injected into ~1/5 of the models and failures are attributed by neutralising one '
        'hazard at a time; non-trivial = the pretty text recompiled and at least one input was ACCEPTED by the '
        'original model (ASTs compared); distinct by (route, pretty text, inputs)')
ASSUMPTIONS = [
    'the original in-memory model is the reference; equality of outcomes = accept/reject, exception class, canonical AST '
    '(lists/tuples unified, parseinfo dropped)',
    'kept facts compared: directives, keywords, and per rule name/params/kwparams/base/@name/@nomemo and the effective '
    'no_stak flag (a @nostak decorator that is recorded but not applied does not affect parsing and is not required)',
    'display width of a rail = sum over characters of 2 if east_asian_width in {W,F} else 1 (the convention the '
    'renderer documents), recomputed independently of tatsu.util.unicode_display_len',
    'object-route models only use shapes the grammar text can express (Groups where text needs parentheses, no meta '
    'as join separator); @bool is only generated in loop-free grammars because it can move the cursor backwards and '
    'loop forever (C08 finding); a per-case CPU-time guard (ITIMER_VIRTUAL) turns a hang into a counted skip',
    'attribution: a failing model containing hazard forms is re-run with all hazards neutralised (that variant is a '
    'full test case of its own) and with one hazard kept at a time; a failure is attributed to hazard h only if the '
    'h-only variant fails and the hazard-free variant does not',
]
FLOORS = {
    'quick': {'programs': 1500, 'recompiled': 1200, 'both_accepted': 3000, 'route:text': 200, 'route:object': 900,
              'route:json': 120, 'route:g2e': 60, 'route:corpus': 8, 'rail_tracks_checked': 4500,
              'feat:meta': 300, 'feat:alert': 250, 'feat:include': 200, 'feat:based': 200, 'feat:params': 300,
              'feat:kwparams': 250, 'feat:keywords': 170, 'feat:hostile_tok': 280, 'feat:long_body': 150,
              'feat:odd_rule_names': 100, 'hazard_free_programs': 1000, 'printer:EOL': 5, 'printer:BasedRule': 150,
              'printer:RuleInclude': 150, 'printer:Alert': 200, 'printer:Constant': 500, 'printer:Pattern': 500,
              'printer:SkipTo': 100, 'printer:SkipGroup': 100, 'printer:Gather': 50, 'printer:PositiveGather': 50,
              'printer:Join': 50, 'printer:PositiveJoin': 50, 'printer:NamedList': 100, 'printer:OverrideList': 50,
              'feat:long_keywords': 60, 'feat:assoc_join': 120, 'feat:assoc_join:left': 55,
              'feat:assoc_join:right': 55, 'feat:assoc_join_multiline': 25, 'printer:LeftJoin': 55,
              'printer:RightJoin': 55, 'feat:empty_constant': 60, 'feat:numeric_first_param': 45,
              'feat:nonfinite_float': 4},
    'thorough': {'programs': 15000, 'recompiled': 12000, 'both_accepted': 30000, 'route:text': 2000,
                 'route:object': 9000, 'route:json': 1200, 'route:g2e': 600, 'rail_tracks_checked': 45000,
                 'hazard_free_programs': 10000, 'feat:long_keywords': 700, 'feat:assoc_join': 1300,
                 'feat:assoc_join_multiline': 300, 'printer:LeftJoin': 600, 'printer:RightJoin': 600,
                 'feat:empty_constant': 600, 'feat:numeric_first_param': 450, 'feat:nonfinite_float': 50},
}
N = {'quick': 2080, 'thorough': 20800}
INPUTS = {'quick': 6, 'thorough': 8}
SHARD_TIMEOUT = {'quick': 3600, 'thorough': 14400}
CASE_ALARM_S = 60


def plan(tier, seed):
    k = 16 if tier == 'quick' else 64
    return [{'seed': seed, 'shard': i, 'n': N[tier] // k, 'inputs': INPUTS[tier], 'of': k} for i in range(k)]


# --------------------------------------------------------------------------- width oracle
def display_width(s: str) -> int:
    return sum(2 if unicodedata.east_asian_width(ch) in ('W', 'F') else 1 for ch in s)


def rails_problem(rails):
    if not isinstance(rails, list) or not all(isinstance(r, str) for r in rails):
        return f'tracks() returned {type(rails).__name__}, not a list of str'
    widths = sorted({display_width(r) for r in rails})
    if len(widths) > 1:
        return f'rails of unequal display width {widths}'
    return None


class Hang(BaseException):
    pass


def _alarm(signum, frame):
    raise Hang()


class guard:
    """last-resort protection against an endless loop in the code under test (never decides a verdict).
    The budget is CPU time of this process (ITIMER_VIRTUAL), so machine load does not trigger it."""

    def __init__(self, seconds=CASE_ALARM_S):
        self.seconds = seconds

    def __enter__(self):
        try:
            self.old = signal.signal(signal.SIGVTALRM, _alarm)
            signal.setitimer(signal.ITIMER_VIRTUAL, self.seconds)
        except (ValueError, AttributeError, OSError):
            self.old = None

    def __exit__(self, *a):
        if self.old is not None:
            signal.setitimer(signal.ITIMER_VIRTUAL, 0)
            signal.signal(signal.SIGVTALRM, self.old)
        return False


# --------------------------------------------------------------------------- probes (evidence only)
_PROBES = {'installed': False, 'calls': {}, 'unequal': 0}


def install_probes(acc):
    """count calls of the railmath layout primitives and re-check their width postcondition; evidence only"""
    if _PROBES['installed']:
        return
    _PROBES['installed'] = True
    try:
        from tatsu.railroads import railmath, walker
    except Exception:  # noqa: BLE001
        acc.note('railmath probes unobserved: module not importable')
        return
    for name in ('weld', 'lay_out', 'loop', 'stopnloop'):
        fn = getattr(railmath, name, None)
        if fn is None or getattr(walker, name, None) is not fn:
            acc.note(f'railmath probe {name} unobserved')
            continue

        def wrap(fn=fn, name=name):
            def probe(*a, **kw):
                out = fn(*a, **kw)
                _PROBES['calls'][name] = _PROBES['calls'].get(name, 0) + 1
                try:
                    if rails_problem(out):
                        _PROBES['unequal'] += 1
                except Exception:  # noqa: BLE001
                    pass
                return out
            return probe
        setattr(walker, name, wrap())


def flush_probes(acc):
    for k, v in _PROBES['calls'].items():
        acc.count('probe_calls:' + k, v)
    if _PROBES['unequal']:
        acc.count('probe_unequal_width_results', _PROBES['unequal'])
    _PROBES['calls'] = {}
    _PROBES['unequal'] = 0


# --------------------------------------------------------------------------- one model
class Result:
    """what the round trip of ONE model showed"""

    def __init__(self):
        self.fails = []          # (family, kind, detail) family in {'roundtrip','railroads'}
        self.pretty = None
        self.recompiled = False
        self.accepted = 0
        self.evals = 0
        self.tracks = 0
        self.printers = set()

    def add(self, family, kind, detail):
        self.fails.append((family, kind, detail))

    def kinds(self, family=None):
        return {(f, k) for f, k, _ in self.fails if family is None or f == family}


def node_classes(model):
    out = set()
    todo = list(model.rules)
    seen = set()
    while todo:
        n = todo.pop()
        if id(n) in seen:
            continue
        seen.add(id(n))
        out.add(type(n).__name__)
        try:
            todo.extend(n.children())
        except Exception:  # noqa: BLE001
            pass
        sep = getattr(n, 'sep', None)
        if sep is not None and hasattr(sep, 'children'):
            todo.append(sep)
    return out


def check_model(model, start, inputs, do_rails=True) -> Result:
    import tatsu
    from tatsu import railroads
    res = Result()
    try:
        res.printers = node_classes(model)
    except Exception:  # noqa: BLE001
        pass
    # ---- pretty / recompile / fixpoint
    try:
        p = model.pretty()
        assert isinstance(p, str)
        res.pretty = p
    except Hang:
        raise
    except Exception as e:  # noqa: BLE001
        res.add('roundtrip', 'pretty-raises', f'{type(e).__name__}: {str(e)[:120]}')
        p = None
    m2 = None
    if p is not None:
        try:
            m2 = tatsu.compile(p)
            res.recompiled = True
        except Hang:
            raise
        except Exception as e:  # noqa: BLE001
            msg = str(e).strip().split('\n')
            res.add('roundtrip', 'recompile-fails', f'{type(e).__name__}: {msg[0][:100]} {msg[1].strip()[:40] if len(msg) > 1 else ""}')
    if m2 is not None:
        try:
            p2 = m2.pretty()
            if p2 != p:
                res.add('roundtrip', 'not-fixpoint', first_diff(p, p2))
        except Hang:
            raise
        except Exception as e:  # noqa: BLE001
            res.add('roundtrip', 'pretty-raises', f'on the recompiled model {type(e).__name__}: {str(e)[:120]}')
        try:
            d1, d2 = MG.directive_facts(model), MG.directive_facts(m2)
            if d1 != d2:
                res.add('roundtrip', 'lost-directive', f'{d1} -> {d2}')
            k1, k2 = sorted(model.keywords or ()), sorted(m2.keywords or ())
            if k1 != k2:
                res.add('roundtrip', 'lost-keyword', f'{k1} -> {k2}')
            f1, f2 = MG.rule_facts(model), MG.rule_facts(m2)
            if f1 != f2:
                bad = [(a, b) for a, b in zip(f1, f2) if a != b][:1] or [(len(f1), len(f2))]
                res.add('roundtrip', 'lost-rule-fact', f'{bad[0][0]} -> {bad[0][1]}')
        except Hang:
            raise
        except Exception as e:  # noqa: BLE001
            res.add('roundtrip', 'facts-raise', f'{type(e).__name__}: {str(e)[:120]}')
        for text in inputs:
            a = MG.outcome(model, text, start)
            b = MG.outcome(m2, text, start)
            res.evals += 1
            if a[0] == 'ok':
                res.accepted += 1
            if a != b:
                rel = 'ast' if a[0] == b[0] == 'ok' else f'{a[0]}/{b[0]}'
                res.add('roundtrip', 'behaviour', f'{rel} on input {text!r}: original {str(a)[:120]} recompiled {str(b)[:120]}')
                break
    # ---- railroads
    if do_rails:
        try:
            t = model.railroads()
            assert isinstance(t, str)
        except Hang:
            raise
        except Exception as e:  # noqa: BLE001
            res.add('railroads', 'railroads-raises', f'{type(e).__name__}: {str(e)[:120]}')
        for x in [model, *model.rules]:
            try:
                rails = railroads.tracks(x)
            except Hang:
                raise
            except Exception as e:  # noqa: BLE001
                res.add('railroads', 'tracks-raises', f'{type(x).__name__} {getattr(x, "name", "")}: {type(e).__name__}: {str(e)[:100]}')
                continue
            res.tracks += 1
            if x is model:
                # the grammar's track list is the concatenation of per-rule blocks: widths are per rule
                continue
            prob = rails_problem(rails)
            if prob:
                res.add('railroads', 'rail-width', f'rule {x.name}: {prob}')
    return res


def first_diff(p, p2):
    a, b = p.splitlines(), p2.splitlines()
    for i, (x, y) in enumerate(zip(a, b)):
        if x != y:
            return f'line {i + 1}: {x!r} -> {y!r}'
    return f'{len(a)} lines -> {len(b)} lines: {(a[len(b):] or b[len(a):])[:2]!r}'


# --------------------------------------------------------------------------- L-grammar cases
def make_model(g, route, name='T'):
    """-> (model, err) through the named route; err = (stage, class, msg) when the route itself fails"""
    import tatsu
    from tatsu import peg
    try:
        if route == 'text':
            return tatsu.compile(MG.gtext(g), name=name), None
        m = MG.build_model(g, name=name)
        if route == 'object':
            return m, None
        if route == 'json':
            data = json.loads(json.dumps(m.asjson()))
            return peg.Grammar.load(data), None
    except Hang:
        raise
    except Exception as e:  # noqa: BLE001
        return None, (route, type(e).__name__, str(e).strip().split('\n')[0][:160])
    raise ValueError(route)


def run_lcase(g, start, route, inputs, do_rails=True):
    model, err = make_model(g, route)
    if model is None:
        return None, err
    return check_model(model, start, inputs, do_rails), None


def record(acc, res, route, feats):
    acc.count('programs')
    acc.count('route:' + route)
    for f in feats:
        acc.count('feat:' + f)
    if not any(f.startswith('hz:') for f in feats):
        acc.count('hazard_free_programs')
    acc.evaluations += res.evals
    acc.count('inputs_compared', res.evals)
    acc.count('both_accepted', res.accepted)
    acc.count('rail_tracks_checked', res.tracks)
    if res.recompiled:
        acc.count('recompiled')
    for c in res.printers:
        acc.count('printer:' + c)
    if res.recompiled and res.accepted:
        acc.nontriv(route, res.pretty)


def attribute(acc, g, start, route, inputs, res, origin):
    """res has failures: attribute them to hazards, or shrink and report as an unknown mechanism"""
    acc.count('disagreements_checked', len(res.fails))
    hz = MG.hazards(g)
    fams = {f for f, _, _ in res.fails}
    if hz:
        g0 = MG.neutralise(g, hz)
        if MG.hazards(g0):
            acc.note(f'neutralise left hazards {sorted(MG.hazards(g0))}')
        res0, err0 = run_lcase(g0, start, route, inputs)
        acc.count('attribution_runs')
        fams0 = set() if res0 is None else {f for f, _, _ in res0.fails}
        if res0 is not None and res0.fails:
            # the hazard-free variant fails too: an unknown mechanism, reported on that variant
            report_unknown(acc, g0, start, route, inputs, res0, origin)
        for fam in sorted(fams - fams0):
            culprits = []
            for h in sorted(hz):
                gh = MG.neutralise(g, hz - {h})
                rh, _ = run_lcase(gh, start, route, inputs, do_rails=(fam == 'railroads'))
                acc.count('attribution_runs')
                if rh is not None and any(f == fam for f, _, _ in rh.fails):
                    detail = next((k, d) for f, k, d in rh.fails if f == fam)
                    culprits.append(h)
                    acc.violation(f'{fam}/{h}',
                                  f'{MG.HAZARDS.get(h, h)} -> {detail[0]}: {detail[1]} | grammar {MG.gtext(gh).strip()!r} '
                                  f'(route {route}) pretty {(rh.pretty or "")[:300]!r}',
                                  witness(gh, start, route, inputs, origin))
            if not culprits:
                detail = next((k, d) for f, k, d in res.fails if f == fam)
                acc.violation(f'{fam}/interaction:' + '+'.join(sorted(hz)),
                              f'{detail[0]}: {detail[1]} only with hazards {sorted(hz)} together | grammar {MG.gtext(g).strip()!r}',
                              witness(g, start, route, inputs, origin))
        return
    report_unknown(acc, g, start, route, inputs, res, origin)


def report_unknown(acc, g, start, route, inputs, res, origin):
    for fam in sorted({f for f, _, _ in res.fails}):
        kind = next(k for f, k, _ in res.fails if f == fam)

        def pred(g2, s2, t2, fam=fam, kind=kind):
            if not g2.rules or MG.hazards(g2):
                return False
            if not any(r.name == start for r in g2.rules):
                return False
            r2, _ = run_lcase(g2, start, route, inputs, do_rails=(fam == 'railroads'))
            return r2 is not None and any(f == fam and k == kind for f, k, _ in r2.fails)
        try:
            with_all = L.Grammar(list(g.rules), dict(g.directives), tuple(g.keywords))
            g2 = shrink_keep_order(with_all, start, pred)
        except Hang:
            raise
        except Exception:  # noqa: BLE001
            g2 = g
        r2, _ = run_lcase(g2, start, route, inputs, do_rails=(fam == 'railroads'))
        if r2 is None or not any(f == fam and k == kind for f, k, _ in r2.fails):
            g2, r2 = g, res
        detail = next(d for f, k, d in r2.fails if f == fam and k == kind)
        acc.violation(f'{fam}/{kind}/{mech_sig(g2)}',
                      f'{kind}: {detail} | grammar {MG.gtext(g2).strip()!r} (route {route}) pretty {(r2.pretty or "")[:300]!r}',
                      witness(g2, start, route, inputs, origin, original=MG.gtext(g)))


def shrink_keep_order(g, start, pred, budget=60):
    """vt.shrink drops rules unreachable from start; here rule ORDER and unreferenced rules matter
    (the printer's rule separator), so first try vt.shrink and fall back to the full grammar"""
    try:
        g2, _ = S.shrink(g, start, '', lambda a, b, c: pred(a, b, c), budget=budget)
        if pred(g2, start, ''):
            return g2
    except Hang:
        raise
    except Exception:  # noqa: BLE001
        pass
    return g


def mech_sig(g):
    parts = sorted(L.grammar_kinds(g))
    extra = []
    if g.directives:
        extra += ['dir:' + k for k in sorted(g.directives)]
    if g.keywords:
        extra.append('keywords')
    for r in g.rules:
        if r.params:
            extra.append('params')
        if r.kwparams:
            extra.append('kwparams')
        if r.base:
            extra.append('base')
        for d in r.decorators:
            extra.append('@' + d)
    return '+'.join(parts + sorted(set(extra)))


def witness(g, start, route, inputs, origin, **extra):
    w = {'kind': 'lgrammar', 'grammar': L.to_json(g), 'grammar_text': MG.gtext(g), 'start': start, 'route': route,
         'inputs': list(inputs), 'origin': origin}
    w.update(extra)
    return w


def do_lcase(acc, g, start, route, inputs, feats, origin):
    res, err = run_lcase(g, start, route, inputs)
    if res is None:
        # the ROUTE failed (our text / the object constructors / the JSON loader): not this property
        acc.count(f'route_failed:{err[0]}:{err[1]}')
        return None
    record(acc, res, route, feats)
    if res.fails:
        attribute(acc, g, start, route, inputs, res, origin)
    return res


# --------------------------------------------------------------------------- g2e and corpus cases
def g2e_model(text):
    from tatsu import g2e
    return g2e.translate(text=text, name='G')


def do_g2e(acc, rng, origin):
    text, start, inputs = MG.antlr_case(rng)
    try:
        model = g2e_model(text)
    except Hang:
        raise
    except Exception as e:  # noqa: BLE001
        acc.count('route_failed:g2e:' + type(e).__name__)
        return
    res = check_model(model, start, inputs)
    record(acc, res, 'g2e', ['g2e'])
    if res.fails:
        acc.count('disagreements_checked', len(res.fails))
        for fam in sorted({f for f, _, _ in res.fails}):
            kind, detail = next((k, d) for f, k, d in res.fails if f == fam)
            mech = g2e_mechanism(model, res, fam, kind, detail)
            acc.violation(f'{fam}/g2e:{mech}',
                          f'{kind}: {detail} | ANTLR {text.strip()!r} pretty {(res.pretty or "")[:400]!r}',
                          {'kind': 'g2e', 'antlr': text, 'start': start, 'inputs': inputs, 'origin': origin})


def _model_nodes(model):
    todo, seen = list(model.rules), set()
    while todo:
        n = todo.pop()
        if id(n) in seen:
            continue
        seen.add(id(n))
        yield n
        for attr in ('exp', 'sep'):
            c = getattr(n, attr, None)
            if c is not None and hasattr(c, '_pretty'):
                todo.append(c)
        for attr in ('sequence', 'options'):
            c = getattr(n, attr, None)
            if isinstance(c, (list, tuple)):
                todo.extend(x for x in c if hasattr(x, '_pretty'))


def g2e_mechanism(model, res, fam, kind, detail):
    """named mechanisms of the ANTLR translation route; anything else keeps the bare failure kind (and alarms)"""
    import tatsu
    from tatsu import peg
    if fam != 'roundtrip':
        return kind
    try:
        nodes = list(_model_nodes(model))
    except Exception:  # noqa: BLE001
        return kind
    if kind in ('recompile-fails', 'pretty-raises') and any(
            isinstance(n, peg.Token) and n.token is None for n in nodes):
        # tokens { A='x' }: ANTLRSemantics.token reads ast.value (the field is called exp) -> Token(None)
        return 'token-def-value-lost'
    if kind == 'not-fixpoint' and res.pretty is not None and any(
            isinstance(n, peg.Sequence) and any(isinstance(x, peg.Sequence) for x in n.sequence) for n in nodes):
        # ~x gives a bare Sequence(!x /./) nested in a Sequence: same elements, laid out differently once flattened
        try:
            p2 = tatsu.compile(res.pretty).pretty()
            if ' '.join(p2.split()) == ' '.join(res.pretty.split()):
                return 'nested-sequence-layout'
        except Exception:  # noqa: BLE001
            pass
    return kind


CORPUS = [
    ('left-right-join', "start = ','<{'a'}+ | ';'>{'b'}+ ;", ['a,a', 'b;b', 'a', '']),
    ('deprecated-regex', "start = ?/a+/? 'b' ;", ['aab', 'b']),
    ('rule-forms', "start ::= x y ;\nx := 'a' ;\ny: 'b'\n", ['a b', 'ab', 'a']),
    ('keyword-forms', "@@keyword :: if then\n@@keyword :: ('else' fi)\n@name\nstart = /\\w+/ ;", ['if', 'x', 'fi']),
    ('closure-sugar', "start = 'a'* 'b'+ 'c'? ;", ['aab', 'b', 'bc', 'c']),
    ('paramdef-forms', "start(A, k=1) = 'a' ;\nx::B = 'b' ;", ['a']),
    ('cut-forms', "start = 'a' ~ 'b' | 'a' 'c' ;", ['a b', 'a c']),
    ('comments', "(* c *) start = 'a' # tail\n ;", ['a']),
    ('whitespace-string', "@@whitespace :: ' '\nstart = {'a'} ;", ['a a', 'a\na']),
]


def do_corpus(acc, idx, origin):
    import tatsu
    name, text, inputs = CORPUS[idx]
    try:
        model = tatsu.compile(text)
    except Hang:
        raise
    except Exception as e:  # noqa: BLE001
        acc.count('route_failed:corpus:' + type(e).__name__)
        acc.note(f'corpus grammar {name} does not compile: {type(e).__name__}')
        return
    res = check_model(model, model.rules[0].name, inputs)
    record(acc, res, 'corpus', ['corpus'])
    if res.fails:
        acc.count('disagreements_checked', len(res.fails))
        for fam in sorted({f for f, _, _ in res.fails}):
            kind, detail = next((k, d) for f, k, d in res.fails if f == fam)
            acc.violation(f'{fam}/corpus:{name}', f'{kind}: {detail} | grammar {text!r} pretty {(res.pretty or "")[:300]!r}',
                          {'kind': 'corpus', 'idx': idx, 'origin': origin})


REPO_GRAMMARS = ['grammar/tatsu.ebnf', 'grammar/calc.ebnf', 'tatsu/_tatsu.ebnf', 'tatsu/g2e/antlr.tatsu']


def do_repo_grammar(acc, idx, origin):
    import os

    import tatsu

    from ..common import REPO
    path = os.path.join(REPO, REPO_GRAMMARS[idx])
    try:
        with open(path, encoding='utf-8') as f:
            text = f.read()
        model = tatsu.compile(text)
    except Hang:
        raise
    except Exception as e:  # noqa: BLE001
        acc.count('route_failed:repo:' + type(e).__name__)
        acc.note(f'repo grammar {REPO_GRAMMARS[idx]} unavailable: {type(e).__name__}')
        return
    inputs = {0: ["start = 'a' ;", "x: y\n\ny: /b/\n", '@@grammar :: X\nstart = {a}+ ;\na = b | `c` ;\nb = ?"x" ;', 'start = ;'],
              1: ['1 + 2', '3 * ( 4 - 1 )', '1 +', '10 / 2 - 3'],
              2: ["start = 'a' ;", "x: y\n\ny: /b/\n", 'start = '],
              3: ["grammar G; a : 'b' ;", 'grammar G; a : B | c* ; B : [a-z]+ ;', 'grammar']}[idx]
    res = check_model(model, model.rules[0].name, inputs)
    record(acc, res, 'corpus', ['repo_grammar'])
    if res.fails:
        acc.count('disagreements_checked', len(res.fails))
        for fam in sorted({f for f, _, _ in res.fails}):
            kind, detail = next((k, d) for f, k, d in res.fails if f == fam)
            acc.violation(f'{fam}/repo-grammar:{REPO_GRAMMARS[idx]}', f'{kind}: {detail}',
                          {'kind': 'repo', 'idx': idx, 'origin': origin})


# --------------------------------------------------------------------------- shard
def route_for(i, rng):
    k = i % 20
    if k in (0, 7, 14):
        return 'text'
    if k in (3, 11):
        return 'json'
    if k == 5:
        return 'g2e'
    return 'object'


def run_shard(desc, acc):
    install_probes(acc)
    try:
        if desc['shard'] == 0:
            for idx in range(len(CORPUS)):
                try:
                    with guard():
                        do_corpus(acc, idx, {'corpus': idx})
                except Hang:
                    acc.count('hang_guard_skips')
        if desc['shard'] == 1 % desc['of']:
            for idx in range(len(REPO_GRAMMARS)):
                try:
                    with guard(600):
                        do_repo_grammar(acc, idx, {'repo': idx})
                except Hang:
                    acc.count('hang_guard_skips')
        for i in range(desc['n']):
            rng = random.Random(h64('C13', desc['seed'], desc['shard'], i))
            route = route_for(i, rng)
            origin = {'shard': desc['shard'], 'i': i, 'route': route}
            try:
                with guard():
                    if route == 'g2e':
                        do_g2e(acc, rng, origin)
                        continue
                    g, start, feats, pats = MG.gen_case(rng)
                    inputs = MG.gen_inputs(rng, g, start, desc['inputs'], pats)
                    res = do_lcase(acc, g, start, route, inputs, feats, origin)
                    if i == 0 and res is not None:
                        acc.sample({'route': route, 'grammar': MG.gtext(g), 'pretty': res.pretty, 'inputs': inputs})
            except Hang:
                acc.count('hang_guard_skips')
                acc.note('a case was skipped by the CPU-time hang guard')
    finally:
        flush_probes(acc)


def replay(w, acc):
    install_probes(acc)
    kind = w.get('kind')
    if kind == 'lgrammar':
        g = L.from_json(w['grammar'])
        res, err = run_lcase(g, w['start'], w['route'], w['inputs'])
        if res is None:
            acc.note(f'route failed on replay: {err}')
            return
        record(acc, res, w['route'], [])
        if res.fails:
            attribute(acc, g, w['start'], w['route'], w['inputs'], res, {'mode': 'replay'})
    elif kind == 'g2e':
        model = g2e_model(w['antlr'])
        res = check_model(model, w['start'], w['inputs'])
        for fam in sorted({f for f, _, _ in res.fails}):
            k, d = next((k, d) for f, k, d in res.fails if f == fam)
            acc.violation(f'{fam}/g2e:{g2e_mechanism(model, res, fam, k, d)}', f'{k}: {d}', w)
    elif kind == 'corpus':
        do_corpus(acc, w['idx'], {'mode': 'replay'})
    elif kind == 'repo':
        do_repo_grammar(acc, w['idx'], {'mode': 'replay'})


MANIFEST = {
    'technique': 'runtime monitoring: round-trip differential (model -> pretty() -> tatsu.compile -> model) on the real code, '
                 'plus an independent display-width oracle on the returned railroad tracks',
    'level_text': 'each grammar model is a program translated by the real pretty printer; the translation is validated by '
                  'recompiling the printed text with the real compiler and comparing kept facts, behaviour on inputs and the '
                  'second pretty print; railroad tracks are re-measured with an independent east_asian_width computation',
    'level_note': 'trusted: our text printer / object builder (only to OBTAIN models), vt.gen derivation, canonicalisation '
                  'list/tuple; a failing model with known-defective forms is attributed by neutralising one form at a time; '
                  'held = no unexplained divergence on the programs x inputs listed in the evidence',
}
