"""C19 — the packet queue is lossless and delivers each packet once, in order.

Workloads (DESIGN.md section 3/C19), all against the REAL tatsu.packetz:
  roundtrip   unpack(pack(Packet(to, data))) over hostile JSON payloads; strict equality oracle; failing cases
              are shrunk with the real code and signed by mechanism; icontract postcondition monitor on
              rle_encode/rle_decode; a fifth of the cases also travel through a real queue file.
  code points the same oracle over a TABLE of code points (c19mon.CP_TABLE): every class a JSON string can carry -
              all C0 controls, DEL, all C1 controls U+0080..U+009F, U+2028/U+2029, Unicode spaces, format
              characters (BOM, ZWJ, bidi, tags), combining marks and variation selectors, non-characters,
              U+FFFC/U+FFFD, private use, astral planes, non-ASCII digits, compatibility look-alikes of the
              encoding's own characters, BMP letters up to U+D7FF.  Swept deterministically: each code point x
              each of 55 contexts (alone, runs of itself, next to tildes / digits / runs >=4 / ESC and CSI
              tails / quotes / backslashes / JSON punctuation / "@": and __class__ text), placed as recipient,
              payload, list element, dict value and dict KEY down to depth 4; every such packet is also sent
              through a real queue file and drained by a fresh reader.  The random generator draws from the
              whole extent of the same classes; the interleave, crash, corrupt and stress records carry texts of
              the table too.  Lone surrogates are outside (not UTF-8 encodable; pack() refuses them).
  interleave  EVERY valid sequence of <=K operations over {send, begin/complete a partial write, re-append
              a complete line, drain reader 1/2, next() on reader 1/2's open iterator}, checked online
              against the sequential model "append-only log + one cursor and one delivered-set per reader".
  crash       the queue file cut at EVERY byte offset of the last record (fresh / warm / mid-iteration
              readers, optional second cut), drain, heal, drain, append, drain: exactly once, in order,
              nothing from the truncated line.
  corrupt     every byte offset of a record x 5 replacement bytes: no other record lost/repeated/reordered,
              nothing delivered altered (16-bit checksum collisions are computed independently and
              counted, not judged).
  stress      sender threads + sender processes + thread/async/process readers on one file; recorded
              call/return history checked offline (no phantom, no duplicate, real-time order, visibility).
  idclock     two sends whose monotonic clock readings are equal modulo the id width.
"""
from __future__ import annotations

import asyncio
import bisect
import hashlib
import itertools
import json
import os
import random
import re
import shutil
import subprocess
import sys
import tempfile
import threading

from ..common import h64
from ..monitors import c19mon as M

ID = 'C19'
LEVEL = 'fault_enumeration'
RULE = ('round trip: one case = (to, data) drawn from a generator over nested dict/list/str/scalars built from the '
        "encoding's own characters (tildes, runs >=4 of 15 character classes, digits next to runs, ~cN~ look-alikes, "
        'quotes, backslashes, literal \\e, ESC, "@":/__class__ text and keys, f{ prefixes, and characters drawn from the '
        'whole extent of 14 code-point classes: C0, DEL, C1, line/paragraph separators, Unicode spaces, format '
        'characters, combining marks, non-characters, specials, private use, astral planes, non-ASCII digits, '
        'look-alikes of the encoding characters, BMP letters); non-trivial = it carries at least one such feature '
        'and was packed and unpacked by the real code. code-point sweep: one case = (code point of the table, one of '
        '55 contexts, position in the packet: recipient / payload / list element / dict value / dict key down to depth '
        '4); every code point meets every context (quick: the position rotates with code point, context and seed; '
        'thorough: every position); each case is also sent through a queue file and drained. '
        'interleave: one case = one valid operation sequence (distinct by the sequence and the split point of the '
        'partial write), non-trivial = at least one packet was delivered. crash: one case = (record, byte offset of '
        'the cut, reader state, second cut). corrupt: one case = (record, byte offset, replacement byte, reader '
        'state). stress: one case = one packet delivered to one reader and verified against the recorded history')
ASSUMPTIONS = [
    'payloads are JSON data (str keys, finite floats, no lone surrogates); tuples/sets/NaN are outside the statement',
    'a JSON string is a sequence of Unicode scalar values (RFC 8259 section 7/8): every code point of every class in '
    'c19mon.CP_TABLE must come back unchanged - no normalisation, no stripping of controls, format characters or '
    'non-characters; lone surrogates are not encodable as UTF-8 (the real pack() raises UnicodeEncodeError on the '
    'unchanged tree) and stay outside the alphabet',
    'the sequential model (append-only log of complete lines, per reader a cursor and the set of delivered packet '
    'ids) is the specification of the queue; a line appended twice (re-transmission of the same packet, same id) '
    "is the same packet and is delivered once, as the package's own bench_dedup expects",
    'a cut that leaves only the trailing newline missing may or may not deliver the (complete) packet; '
    'exactly-once across the heal is required either way',
    'an exception escaping receive() is an observation, not a violation by itself; the verdict is on what was '
    'delivered before it and after retrying (loss, repetition, order, alteration)',
    'corruption: a corrupted line that still carries a matching 16-bit checksum (computed independently with '
    'hashlib.blake2b) is counted as a collision and not judged; the line whose framing newline was destroyed and '
    'its successor are both treated as corrupted',
    'stress: time.monotonic_ns() is one clock for all threads and processes of the host (CLOCK_MONOTONIC); a '
    'send that returned before a receive call began is visible to it (local POSIX file system)',
    'receive_0 (legacy, not reachable from send/receive/receive_async) is not exercised',
]
EXHAUSTIVE = {
    'quick': 'code points: every code point of the table (all of C0, C1, DEL, U+2028/9 and the listed members of 10 '
             'further classes) x every context; interleave: all valid sequences of <=6 operations over '
             '{S,W,D,R1,R2,N1,N2}; crash: every byte offset '
             'of each of 30 last records (<2 KiB; larger records: 400 edge offsets + chunk boundaries) x '
             '{fresh, warm} readers; corrupt: every byte offset of 3 records per file x 5 replacement bytes',
    'thorough': 'code points: every code point of the table x every context x every position; '
                'interleave: all valid sequences of <=7 operations x 4 split points of the partial write; crash: every '
                'byte offset of each of 2000 last records (<2 KiB; larger: edge offsets + chunk boundaries) x '
                '{fresh, warm} readers; corrupt: every byte offset of 3 records per file x 5 replacement bytes, 128 files',
}
SHARD_TIMEOUT = {'quick': 900, 'thorough': 5400}

N_ROUNDTRIP = {'quick': 21000, 'thorough': 1_000_000}
RT_SHARDS = {'quick': 3, 'thorough': 40}
IL_K = {'quick': 6, 'thorough': 7}
IL_SHARDS = {'quick': 8, 'thorough': 24}
CRASH_SHARDS = {'quick': 2, 'thorough': 16}
CRASH_RECORDS = {'quick': 15, 'thorough': 125}
CORRUPT_SHARDS = {'quick': 2, 'thorough': 16}
CORRUPT_FILES = {'quick': 3, 'thorough': 8}
STRESS_SHARDS = {'quick': 1, 'thorough': 6}


def count_valid(kmax):
    """number of valid operation sequences of length 1..kmax -> (all, those containing W)"""
    def count(with_w):
        total = 0
        states = {(0, 0): 1}          # (partial write pending, at least one complete record) -> sequences
        for _ in range(kmax):
            nxt: dict = {}

            def add(st, n):
                nxt[st] = nxt.get(st, 0) + n
            for (pending, has), n in states.items():
                add((pending, has), 4 * n)                      # R1 R2 N1 N2
                if not pending:
                    add((0, 1), n)                               # S
                    if has:
                        add((0, 1), n)                           # D
                if with_w:
                    add((0, 1), n) if pending else add((1, has), n)   # W completes / begins
            states = nxt
            total += sum(states.values())
        return total
    every, without_w = count(True), count(False)
    return every, every - without_w


_ALL6, _W6 = count_valid(6)
_ALL7, _W7 = count_valid(7)

FLOORS = {
    'quick': {
        'evaluations': 80000, 'distinct_nontrivial': 50000,
        'rt_ok': 9000, 'rt_ok_feat:tilde': 2200, 'rt_ok_feat:tilde_run': 800, 'rt_ok_feat:run4': 5000,
        'rt_ok_feat:digit_next_to_run': 1500, 'rt_ok_feat:backslash': 2200, 'rt_ok_feat:quote': 2500,
        'rt_ok_feat:esc_char': 900, 'rt_ok_feat:non_bmp': 1800, 'rt_ok_feat:marker_text': 1300,
        'rt_ok_feat:newline': 2200, 'rt_ok_feat:nested3': 1500, 'hq_delivered_ok': 1700,
        'il_sequences': _ALL6, 'il_deliveries': 90000, 'il_reads_with_partial_line_present': 20000,
        'il_duplicate_lines_scanned': 15000, 'il_next_calls': 50000, 'idclock_cases': 1,
        'crash_records': 30, 'crash_cases': 5000, 'crash_cuts_inside_a_character': 300,
        'crash_cuts_newline_only_missing': 30, 'crash_second_cuts': 700,
        'corrupt_cases': 5000, 'corrupt_newline_destroyed': 30, 'corrupt_undecodable_utf8': 1500,
        'stress_sends_completed': 10000, 'stress_deliveries_checked': 45000,
        'stress_deliveries_of_sends_completed_while_the_call_ran': 1000,
        'stress_sends_overlapping_another_send': 500,
    },
    'thorough': {
        'evaluations': 2_000_000, 'distinct_nontrivial': 1_000_000,
        'rt_ok': 400000, 'rt_ok_feat:tilde': 100000, 'rt_ok_feat:run4': 200000,
        'rt_ok_feat:digit_next_to_run': 60000, 'rt_ok_feat:backslash': 100000, 'rt_ok_feat:esc_char': 40000,
        'rt_ok_feat:marker_text': 60000, 'hq_delivered_ok': 80000,
        'il_sequences': (_ALL7 - _W7) + 4 * _W7, 'il_deliveries': 2_000_000, 'idclock_cases': 1,
        'crash_records': 2000, 'crash_cases': 300000, 'crash_cuts_inside_a_character': 16000,
        'corrupt_cases': 100000, 'corrupt_undecodable_utf8': 30000,
        'stress_sends_completed': 180000, 'stress_deliveries_checked': 800000,
        'stress_deliveries_of_sends_completed_while_the_call_ran': 20000,
    },
}



def _cp_floors(tier):
    """the sweep is a fixed plan: its counters have exact floors (a run that does not reach a class, a context
    group or a position is INCONCLUSIVE)"""
    nclean = len(M.CP_CLEAN_CONTEXTS)
    per_ctx = len(M.CP_POSITIONS) if tier == 'thorough' else 1
    ncp = len(M.CP_SWEEP)
    f = {
        'cp_sweep_cases': ncp * (nclean * per_ctx + (len(M.CP_CONTEXTS) - nclean)),
        'cp_sweep_ok': ncp * nclean * per_ctx,
        'cp_sweep_codepoints': ncp,
        'cp_sweep_codepoints_ok_in_every_context': ncp,
    }
    for cls, (_, sweep) in M.CP_TABLE.items():
        n = len(sweep) * nclean * per_ctx
        f['cp_sweep_ok_class:' + cls] = n
        f['rt_ok_cp:' + cls] = n
        f['hq_delivered_ok_cp:' + cls] = n
        f['il_deliveries_cp:' + cls] = 8 * len(sweep)
    for g in M.CP_CTX_GROUPS:
        k = sum(1 for x in M.CP_CLEAN_CONTEXTS if x[0] == g)
        if k:
            f['cp_sweep_ok_ctx:' + g] = ncp * k * per_ctx
    for pname, _ in M.CP_POSITIONS:
        f['cp_sweep_ok_pos:' + pname] = ncp * nclean if tier == 'thorough' else ncp * nclean // 20
    for w in ('recipient', 'key', 'value', 'key_depth3', 'value_depth3'):
        f['rt_ok_cp_in:' + w] = ncp * nclean // 20
    return f


FLOORS['quick'].update(_cp_floors('quick'))
FLOORS['quick'].update({'queue_records_with_code_point_table_text': 12,
                        'stress_deliveries_with_code_point_table_text': 3000})
FLOORS['thorough'].update(_cp_floors('thorough'))
FLOORS['thorough'].update({'queue_records_with_code_point_table_text': 400,
                           'stress_deliveries_with_code_point_table_text': 50000})

OPS = ('S', 'W', 'D', 'R1', 'R2', 'N1', 'N2')
SENTINEL = -1


# --------------------------------------------------------------------------- plan

def plan(tier, seed):
    shards = []
    k = RT_SHARDS[tier]
    for i in range(k):
        shards.append({'mode': 'roundtrip', 'seed': seed, 'shard': i, 'n': N_ROUNDTRIP[tier] // k, 'of': k,
                       'every_position': tier == 'thorough'})
    for i in range(STRESS_SHARDS[tier]):
        shards.append({'mode': 'stress', 'seed': seed, 'shard': i, 'tier': tier})
    for i in range(IL_SHARDS[tier]):
        shards.append({'mode': 'interleave', 'seed': seed, 'shard': i, 'of': IL_SHARDS[tier], 'k': IL_K[tier],
                       'all_splits': tier == 'thorough'})
    for i in range(CRASH_SHARDS[tier]):
        shards.append({'mode': 'crash', 'seed': seed, 'shard': i, 'records': CRASH_RECORDS[tier],
                       'window': 12 if tier == 'quick' else 3})
    for i in range(CORRUPT_SHARDS[tier]):
        shards.append({'mode': 'corrupt', 'seed': seed, 'shard': i, 'files': CORRUPT_FILES[tier]})
    return shards


# --------------------------------------------------------------------------- common

_OWN_SCRATCH = None


def setup():
    """cwd must be a scratch directory: PacketzQueue() creates ./.packetz in the current directory"""
    global _OWN_SCRATCH  # noqa: PLW0603
    scratch = os.environ.get('VT_SCRATCH')
    if not scratch:
        scratch = _OWN_SCRATCH = tempfile.mkdtemp(prefix='vt-c19-')
    os.makedirs(scratch, exist_ok=True)
    os.chdir(scratch)
    try:
        from tatsu.util import debugging
        debugging.set_debugging('WARNING')     # silences the "checksum missing" console chatter only
    except Exception:  # noqa: BLE001
        pass
    import warnings
    warnings.simplefilter('ignore')
    return scratch


def teardown():
    global _OWN_SCRATCH  # noqa: PLW0603
    if _OWN_SCRATCH:
        os.chdir('/')
        shutil.rmtree(_OWN_SCRATCH, ignore_errors=True)
        _OWN_SCRATCH = None


def drain(q, attempts=3):
    """-> (packets, [exception class names]); retries after an exception escaped receive()"""
    items, excs = [], []
    for _ in range(attempts):
        try:
            for p in q.receive():
                items.append(p)
            break
        except Exception as e:  # noqa: BLE001  (observation)
            excs.append(type(e).__name__)
    return items, excs


def clean_payload(rng, acc=None):
    """a hostile payload that the real pack/unpack round-trips (checked with the round-trip oracle)"""
    for _ in range(20):
        v = M.gen_value(rng, 2, 'clean')
        if M.roundtrip_outcome('r', {'n': 0, 'p': v})[0] == 'ok':
            return v
        if acc is not None:
            acc.count('queue_payload_rejected_by_roundtrip')
    return 'plain'


# --------------------------------------------------------------------------- (a) round trip

def check_roundtrip(acc, to, data, origin):
    o = M.roundtrip_outcome(to, data)
    acc.evaluations += 1
    feats = M.features(to, data)
    if o[0] == 'ok':
        acc.count('rt_ok')
        for f in feats:
            acc.count('rt_ok_feat:' + f)
        classes = M.cp_classes(to, data)
        for c in classes:
            acc.count('rt_ok_cp:' + c)
        if classes:
            for w in M.cp_where(to, data):
                acc.count('rt_ok_cp_in:' + w)
        if feats or classes:
            acc.nontriv('rt', to, data)
        return True
    acc.count('rt_failed')
    if o[0] == 'exc' and o[1] == 'pack':
        acc.count('rt_pack_exceptions')
    t2, d2, kind = M.shrink_case(to, data)
    sig = M.classify(t2, d2, kind)
    o2 = M.roundtrip_outcome(t2, d2)
    sweep = origin.get('sweep') if isinstance(origin, dict) else None
    acc.violation(sig, f'unpack(pack(Packet(to={t2!r}, data={d2!r}))) -> {o2}'
                  + (f' [code-point sweep: U+{sweep[1]:04X} ({sweep[0]}), context {sweep[2]}, placed as {sweep[3]}]'
                     if sweep else ''),
                  {'mode': 'roundtrip', 'to': t2, 'data': d2, 'origin': origin,
                   'original': {'to': to, 'data': data}})
    return False


def hostile_queue_batch(acc, batch, tag):
    """the same hostile cases through a real queue file: sent once each, drained by a fresh reader"""
    from tatsu.packetz.queue import PacketzQueue
    path = f'hq-{tag}.jsonl'
    reset_file(path)
    w = PacketzQueue(path)
    sent = []
    for i, (to, data) in enumerate(batch):
        wrapped = {'n': i, 'p': data}
        try:
            w.send(to=to, data=wrapped)
            sent.append((i, to, wrapped))
            acc.count('hq_sent')
        except Exception as e:  # noqa: BLE001
            acc.count('hq_send_exceptions:' + type(e).__name__)
    r = PacketzQueue(path)
    items, excs = drain(r, attempts=len(batch) + 3)
    for e in excs:
        acc.count('hq_receive_exceptions:' + e)
    got = {}
    order = []
    for p in items:
        d = getattr(p, 'data', None)
        n = d.get('n') if type(d) is dict else None
        if type(n) is int:
            got.setdefault(n, []).append(p)
            order.append(n)
    acc.evaluations += 1
    for i, to, wrapped in sent:
        ps = got.get(i, [])
        if len(ps) == 1 and M.same(wrapped, ps[0].data) and M.same(to, getattr(ps[0], 'to', None)):
            acc.count('hq_delivered_ok')
            for c in M.cp_classes(to, wrapped['p']):
                acc.count('hq_delivered_ok_cp:' + c)
            continue
        direct = M.roundtrip_outcome(to, wrapped)
        if direct[0] != 'ok':
            acc.count('hq_failure_explained_by_roundtrip')   # reported by the round-trip oracle with its own sig
            check_roundtrip(acc, to, wrapped, {'via': 'queue'})
            continue
        sig = 'queue/lost' if not ps else ('queue/repeated' if len(ps) > 1 else 'queue/delivered-altered')
        acc.violation(sig + ':hostile-payload', f'packet {i} sent through a queue file was delivered {len(ps)} times / '
                      f'altered although pack/unpack round-trips it: to={to!r} data={wrapped!r} excs={excs}',
                      {'mode': 'hostile_queue', 'batch': [[t, d] for t, d in batch], 'index': i})
    if order != sorted(order):
        acc.violation('queue/out-of-order:hostile-payload', f'delivery order {order}',
                      {'mode': 'hostile_queue', 'batch': [[t, d] for t, d in batch], 'index': -1})
    os.unlink(path)


def report_rle_monitor(acc, mon):
    acc.count('rle_monitor_calls', mon.calls)
    acc.count('rle_monitor_compressed', mon.compressed)
    acc.count('rle_monitor_tilde_inputs', mon.escaped_tilde)
    acc.count('rle_monitor_violations', len(mon.violations))
    if mon.probe_errors:
        acc.count('rle_monitor_probe_errors', mon.probe_errors)
    acc.note(f'rle postcondition monitor engine: {mon.engine}')
    done = set()
    for text in mon.violations:
        if len(done) >= 40:
            break
        s2 = M.shrink_rle_string(text)
        if s2 in done:
            continue
        done.add(s2)
        sig = M.string_sig(s2) or f'rle-monitor/other:{M.shape(s2)}'
        acc.violation(sig, f'postcondition rle_decode(rle_encode(s)) == s violated on the real functions for s={s2!r}',
                      {'mode': 'rle', 's': s2, 'original': text})


def run_cp_sweep(desc, acc):
    """every code point of the table x every context, as recipient / key / value at depth: the real
    pack/unpack, and the same packets through a real queue file (send, fresh reader, drain)"""
    plan_ = M.cp_sweep_plan(desc['seed'], desc['shard'], desc.get('of', 1), desc.get('every_position', False))
    failed = set()
    seen = {}
    batch = []
    sampled = 0
    for cls, cp, group, name, pname, to, data in plan_:
        acc.count('cp_sweep_cases')
        seen.setdefault(cp, cls)
        if group == 'known_bad':
            acc.count('cp_sweep_cases_next_to_text_known_not_to_round_trip')
        ok = check_roundtrip(acc, to, data, {'sweep': [cls, cp, name, pname], 'shard': desc['shard']})
        if group == 'known_bad':
            if ok:
                acc.count('cp_sweep_known_bad_text_round_tripped')
            continue
        if not ok:
            failed.add(cp)
            continue
        acc.count('cp_sweep_ok')
        acc.count('cp_sweep_ok_class:' + cls)
        acc.count('cp_sweep_ok_ctx:' + group)
        acc.count('cp_sweep_ok_pos:' + pname)
        batch.append((to, data))
        if len(batch) == 20:
            hostile_queue_batch(acc, batch, f"{desc['shard']}-cp")
            batch = []
        if sampled < 2 and cls in ('c1', 'nonchar') and group == 'tilde':
            sampled += 1
            acc.sample({'workload': 'code-point sweep', 'class': cls, 'code_point': f'U+{cp:04X}', 'context': name,
                        'placed_as': pname, 'to': to, 'data': data})
    if batch:
        hostile_queue_batch(acc, batch, f"{desc['shard']}-cp")
    acc.count('cp_sweep_codepoints', len(seen))
    acc.count('cp_sweep_codepoints_ok_in_every_context', len([cp for cp in seen if cp not in failed]))


def run_roundtrip(desc, acc):
    mon = M.RLEMonitor()
    if not mon.install():
        acc.note('rle monitor: tatsu.packetz.compact.rle_encode/rle_decode not found - unobserved')
    batch = []
    try:
        for i in range(desc['n']):
            rng = random.Random(h64(ID, desc['seed'], 'rt', desc['shard'], i))
            mode, to, data = M.gen_case(rng)
            acc.count('rt_mode:' + mode)
            check_roundtrip(acc, to, data, {'shard': desc['shard'], 'i': i})
            if i % 5 == 0:
                batch.append((to, data))
                if len(batch) == 20:
                    hostile_queue_batch(acc, batch, f"{desc['shard']}")
                    batch = []
            if i in (1, 2):
                acc.sample({'workload': 'roundtrip', 'to': to, 'data': data})
        if batch:
            hostile_queue_batch(acc, batch, f"{desc['shard']}")
        run_cp_sweep(desc, acc)
    finally:
        mon.uninstall()
    if mon.engine != 'none':
        report_rle_monitor(acc, mon)


# --------------------------------------------------------------------------- (b1) enumerated interleavings

PADS = ['', 'x', 'é😀~~', 'aaaaaaa 1', '~' * 5 + '"\\', ' ' * 40, 'é' * 9]


def valid_seq(seq):
    pending = False
    nrec = 0
    for op in seq:
        if op == 'S':
            if pending:
                return False
            nrec += 1
        elif op == 'W':
            if pending:
                nrec += 1
            pending = not pending
        elif op == 'D':
            if pending or nrec == 0:
                return False
    return True


def split_point(line: bytes, kind: int) -> int:
    if kind == 0:
        return 1
    if kind == 1:
        return len(line) // 2
    if kind == 2:
        return len(line) - 1
    for i, b in enumerate(line):
        if b >= 0x80:
            return i + 1          # between the bytes of a multi-byte character
    return len(line) // 3


class SeqRun:
    """one operation sequence on a fresh file with one writer and two readers, against the model"""

    def __init__(self, path, split_kind, salt=0):
        from tatsu.packetz.queue import PacketzQueue
        self.path = path
        self.salt = salt          # != 0: every record also carries a text of the code-point table
        reset_file(path)
        self.writer = PacketzQueue(path)
        self.readers = [PacketzQueue(path), PacketzQueue(path)]
        self.gens = [None, None]
        self.split_kind = split_kind
        self.recs = {}            # n -> dict(to, data, id, line)
        self.lines = []           # record number of every complete line, file order
        self.pos = [0, 0]
        self.delivered = [set(), set()]
        self.pending = None       # (n, remaining bytes)
        self.nrec = 0
        self.failure = None       # (sig, what)
        self.events = {'deliveries': 0, 'exceptions': {}, 'partial_seen_by_reader': 0,
                       'dup_suppressed': 0, 'next_calls': 0, 'drains': 0}

    # ---- writer side
    def _new(self):
        n = self.nrec
        self.nrec += 1
        pad = PADS[n % len(PADS)]
        if self.salt:
            pad += M.wide_pad(self.salt * 8 + n)
        return n, {'n': n, 'pad': pad}

    def op_S(self):
        n, data = self._new()
        before = os.path.getsize(self.path)
        p = self.writer.send(to='r', data=data)
        with open(self.path, 'rb') as f:
            f.seek(before)
            line = f.read()
        self.recs[n] = {'to': 'r', 'data': data, 'id': p.id, 'line': line}
        self.lines.append(n)

    def op_W(self):
        from tatsu.packetz.packet import Packet, pack
        if self.pending is None:
            n, data = self._new()
            p = Packet(to='r', data=data)
            line = (pack(p) + '\n').encode('utf-8')
            cut = split_point(line, self.split_kind)
            with open(self.path, 'ab') as f:
                f.write(line[:cut])
            self.recs[n] = {'to': 'r', 'data': data, 'id': p.id, 'line': line}
            self.pending = (n, line[cut:])
        else:
            n, rest = self.pending
            with open(self.path, 'ab') as f:
                f.write(rest)
            self.pending = None
            self.lines.append(n)

    def op_D(self):
        n = self.lines[-1]
        with open(self.path, 'ab') as f:
            f.write(self.recs[n]['line'])
        self.lines.append(n)

    # ---- model
    def _expected_from(self, i):
        out, seen = [], set(self.delivered[i])
        for j in range(self.pos[i], len(self.lines)):
            n = self.lines[j]
            if n not in seen:
                seen.add(n)
                out.append((n, j))
        return out

    def ident(self, p):
        d = getattr(p, 'data', None)
        n = d.get('n') if type(d) is dict else None
        r = self.recs.get(n) if type(n) is int else None
        if r is not None and M.same(r['data'], d) and getattr(p, 'to', None) == r['to'] \
                and getattr(p, 'id', None) == r['id']:
            return n
        return ('?', repr(d)[:60])

    def _fail(self, i, what, exp, got):
        exp_n = [n for n, _ in exp]
        sig = None
        pend = self.pending[0] if self.pending else None
        for g in got:
            if g == pend:
                sig = 'queue/partial-line-delivered'
            elif isinstance(g, tuple):
                sig = 'queue/delivered-altered'
            elif g in self.delivered[i] or got.count(g) > 1:
                sig = 'queue/duplicate-line-redelivered' if self.lines.count(g) > 1 else 'queue/repeated'
            if sig:
                break
        if sig is None:
            missing = [n for n in exp_n if n not in got]
            if missing:
                ids = [self.recs[n]['id'] for n in self.recs]
                sig = 'queue/id-collision-dedup' if any(ids.count(self.recs[n]['id']) > 1 for n in missing) \
                    else 'queue/lost'
            elif [g for g in got if g not in exp_n]:
                sig = 'queue/phantom-delivered'
            else:
                sig = 'queue/out-of-order'
        self.failure = (sig, f'{what} on reader {i + 1}: expected records {exp_n}, got {got}')

    def _advance(self, i, exp, count):
        for n, j in exp[:count]:
            self.delivered[i].add(n)
            self.pos[i] = j + 1
        if count == len(exp):
            # everything complete has been scanned (duplicates of delivered packets included)
            self.events['dup_suppressed'] += sum(1 for j in range(self.pos[i], len(self.lines)))
            self.pos[i] = len(self.lines)

    # ---- reader side
    def op_R(self, i, final=False):
        if self.gens[i] is not None:
            self.gens[i].close()
            self.gens[i] = None
        self.events['drains'] += 1
        exp = self._expected_from(i)
        if self.pending is not None:
            self.events['partial_seen_by_reader'] += 1
        packets, excs = drain(self.readers[i], attempts=3 if final else 1)
        got = [self.ident(p) for p in packets]
        for e in excs:
            self.events['exceptions'][e] = self.events['exceptions'].get(e, 0) + 1
        exp_n = [n for n, _ in exp]
        if got == exp_n:
            # everything complete was handed over (an exception after the last complete record, e.g. at a cut
            # inside a character, changes nothing)
            self._advance(i, exp, len(got))
        elif excs and not final and got == exp_n[:len(got)]:
            self._advance(i, exp, len(got))     # the part handed over before the exception; the final drain decides
        else:
            self._fail(i, 'final drain' if final else 'drain', exp, got)
            return
        self.events['deliveries'] += len(got)

    def op_N(self, i):
        self.events['next_calls'] += 1
        if self.gens[i] is None:
            self.gens[i] = self.readers[i].receive()
        exp = self._expected_from(i)
        if self.pending is not None:
            self.events['partial_seen_by_reader'] += 1
        try:
            p = next(self.gens[i])
        except StopIteration:
            p = None
            self.gens[i] = None
        except Exception as e:  # noqa: BLE001
            k = type(e).__name__
            self.events['exceptions'][k] = self.events['exceptions'].get(k, 0) + 1
            self.gens[i] = None
            return      # nothing was handed over: tolerated here, the final drain decides
        if p is None:
            if exp:
                self._fail(i, 'iterator ended early', exp, [])
            else:
                self._advance(i, exp, 0)
            return
        g = self.ident(p)
        if not exp or g != exp[0][0]:
            self._fail(i, 'next()', exp[:1], [g])
            return
        n, j = exp[0]
        self.delivered[i].add(n)
        self.pos[i] = j + 1
        self.events['deliveries'] += 1

    def run(self, seq):
        for op in seq:
            if op == 'S':
                self.op_S()
            elif op == 'W':
                self.op_W()
            elif op == 'D':
                self.op_D()
            elif op[0] == 'R':
                self.op_R(int(op[1]) - 1)
            else:
                self.op_N(int(op[1]) - 1)
            if self.failure:
                return
        if self.pending is not None:
            self.op_W()
        for i in (0, 1):
            self.op_R(i, final=True)
            if self.failure:
                return
        for i in (0, 1):
            want = list(dict.fromkeys(self.lines))
            if sorted(self.delivered[i]) != sorted(want):
                self.failure = ('queue/lost', f'reader {i + 1} ended with {sorted(self.delivered[i])} of {want}')


def run_sequence(acc, seq, split_kind, path='il.jsonl', salt=0):
    run = SeqRun(path, split_kind, salt)
    run.run(seq)
    acc.evaluations += 1
    ev = run.events
    acc.count('il_sequences')
    acc.count('il_ops', len(seq))
    acc.count('il_deliveries', ev['deliveries'])
    acc.count('il_reads_with_partial_line_present', ev['partial_seen_by_reader'])
    acc.count('il_duplicate_lines_scanned', ev['dup_suppressed'])
    acc.count('il_next_calls', ev['next_calls'])
    acc.count('il_drains', ev['drains'])
    for k, v in ev['exceptions'].items():
        acc.count('il_receive_exceptions:' + k, v)
    if ev['deliveries']:
        acc.nontriv('il', list(seq), split_kind)
    if salt:
        tally = {}
        for n, r in run.recs.items():
            k = sum(1 for d in run.delivered if n in d)
            if k:
                for c in M.cp_classes(None, r['data']['pad']):
                    tally[c] = tally.get(c, 0) + k
        for c, k in tally.items():
            acc.count('il_deliveries_cp:' + c, k)
    if run.failure:
        sig, what = run.failure
        acc.violation(sig, f'sequence {" ".join(seq)} (split {split_kind}): {what}'
                      + (f'; records: {[r["data"] for r in run.recs.values()]!r}' if salt else ''),
                      {'mode': 'interleave', 'seq': list(seq), 'split': split_kind, 'salt': salt})
    return run


def run_idclock(acc):
    """two sends whose monotonic clock readings differ by exactly the id modulus (10**8 ns)"""
    from tatsu.packetz.queue import PacketzQueue
    try:
        import tatsu.util.misc as misc
        real = misc.time
        real.monotonic_ns  # noqa: B018
    except Exception:  # noqa: BLE001
        acc.note('idclock: tatsu.util.misc.time not found - clock substitution unobserved')
        return
    base = real.monotonic_ns()
    values = iter([base, base + 10 ** 8, base + 2 * 10 ** 8 + 12345])

    class Shim:
        def __getattr__(self, name):
            return getattr(real, name)

        def monotonic_ns(self):
            return next(values, None) or real.monotonic_ns()

    path = 'idclock.jsonl'
    reset_file(path)
    w = PacketzQueue(path)
    misc.time = Shim()
    try:
        ids = [w.send(to='r', data={'n': n}).id for n in range(3)]
    finally:
        misc.time = real
    acc.evaluations += 1
    acc.count('idclock_cases')
    packets, excs = drain(PacketzQueue(path))
    got = [p.data.get('n') if type(p.data) is dict else '?' for p in packets]
    if ids[0] != ids[1]:
        acc.count('idclock_ids_distinct')
    if got != [0, 1, 2]:
        sig = 'queue/id-collision-dedup' if len(set(ids)) < 3 else 'queue/lost'
        acc.violation(sig, f'three completed sends at clock readings t, t+10^8 ns, t+2*10^8+12345 ns got ids {ids}; '
                      f'a fresh reader received {got} (excs={excs})', {'mode': 'idclock'})


def run_interleave(desc, acc):
    if desc['shard'] == 0:
        run_idclock(acc)
    idx = 0
    sampled = 0
    for k in range(1, desc['k'] + 1):
        for seq in itertools.product(OPS, repeat=k):
            if not valid_seq(seq):
                continue
            idx += 1
            if idx % desc['of'] != desc['shard']:
                continue
            has_w = 'W' in seq
            kinds = (0, 1, 2, 3) if (desc['all_splits'] and has_w) else ((h64('split', seq) % 4,) if has_w else (0,))
            for sk in kinds:
                run = run_sequence(acc, seq, sk, salt=idx)
                if sampled < 2 and k == desc['k'] and run.events['deliveries'] >= 3 and has_w:
                    sampled += 1
                    acc.sample({'workload': 'interleave', 'seq': ' '.join(seq), 'split': sk,
                                'deliveries': run.events['deliveries'], 'final': [sorted(d) for d in run.delivered]})


# --------------------------------------------------------------------------- (c) crash points

def build_records(rng, n, acc, path):
    """n complete records written by the real send(); -> (file bytes, [(start, end)], [data])"""
    from tatsu.packetz.queue import PacketzQueue
    reset_file(path)
    w = PacketzQueue(path)
    datas = []
    for i in range(n):
        v = clean_payload(rng, acc)
        if i % 11 == 5:
            v = {'big': M._block() * 3, 'v': v}        # crosses the text layer's 8 KiB chunk
        elif i % 3 == 1:
            t = M.wide_pad(rng.randrange(1 << 30))     # a (code point x context) text of the table
            v = {t: [v, t]} if i % 2 else [t, v]
            acc.count('queue_records_with_code_point_table_text')
        data = {'n': i, 'p': v}
        for c in M.cp_classes(None, v):
            acc.count('queue_records_cp:' + c)
        w.send(to='r', data=data)
        datas.append(data)
    with open(path, 'rb') as f:
        full = f.read()
    ends = [i + 1 for i, b in enumerate(full) if b == 0x0A]
    if len(ends) != n or (ends and ends[-1] != len(full)):
        raise RuntimeError(f'harness: expected {n} newline-terminated records, found {len(ends)}')
    spans = [((ends[i - 1] if i else 0), ends[i]) for i in range(n)]
    return full, spans, datas


def rec_ident(datas, p, sentinel_ok=True):
    d = getattr(p, 'data', None)
    n = d.get('n') if type(d) is dict else None
    if n == SENTINEL and sentinel_ok and M.same({'n': SENTINEL}, d):
        return SENTINEL
    if type(n) is int and 0 <= n < len(datas) and M.same(datas[n], d) and getattr(p, 'to', None) == 'r':
        return n
    return ('?', repr(d)[:60])


def write_file(path, content: bytes):
    """replace the content without O_TRUNC (ext4 flushes on truncate-and-rewrite: 2 ms per call)"""
    fd = os.open(path, os.O_RDWR | os.O_CREAT, 0o644)
    try:
        os.pwrite(fd, content, 0)
        os.ftruncate(fd, len(content))
    finally:
        os.close(fd)


def reset_file(path):
    write_file(path, b'')


def crash_offsets(length):
    if length <= 2048:
        return list(range(0, length + 1))
    s = set(range(0, 200)) | set(range(length - 200, length + 1))
    for c in range(8192, length, 8192):
        s.update(range(c - 3, c + 4))
    s.update(range(200, length - 200, max(1, (length - 400) // 60)))
    return sorted(x for x in s if 0 <= x <= length)


def crash_case(acc, full, spans, datas, m, lo, cut, mode, second, path='crash.jsonl'):
    """records lo..m of the file; record m is cut at relative offset `cut`"""
    from tatsu.packetz.queue import PacketzQueue
    base = spans[lo][0]
    prefix = full[base:spans[m][0]]
    last = full[spans[m][0]:spans[m][1]]
    seq = []                 # everything delivered, in order
    excs_all = []
    truncated_phase_delivered_last = False
    reader = PacketzQueue(path)
    if mode in ('warm', 'warm1') and m > lo:
        write_file(path, prefix)
        if mode == 'warm':
            ps, ex = drain(reader)
        else:
            g = reader.receive()
            try:
                ps, ex = [next(g)], []
            except StopIteration:
                ps, ex = [], []
            g.close()
        seq += [rec_ident(datas, p) for p in ps]
        excs_all += ex
    phases = [cut] + ([second] if second is not None else [])
    for c in phases:
        write_file(path, prefix + last[:c])
        ps, ex = drain(reader)
        ids = [rec_ident(datas, p) for p in ps]
        if m in ids and c < len(last) - 1:
            truncated_phase_delivered_last = True
        seq += ids
        excs_all += ex
    write_file(path, prefix + last)
    ps, ex = drain(reader)
    seq += [rec_ident(datas, p) for p in ps]
    excs_all += ex
    PacketzQueue(path).send(data={'n': SENTINEL})
    ps, ex = drain(reader)
    seq += [rec_ident(datas, p) for p in ps]
    excs_all += ex

    acc.evaluations += 1
    acc.count('crash_cases')
    acc.count('crash_cases:' + mode)
    inside = 0 < cut < len(last)
    if inside:
        acc.count('crash_cuts_inside_record')
        try:
            last[:cut].decode('utf-8')
        except UnicodeDecodeError:
            acc.count('crash_cuts_inside_a_character')
    if cut == len(last) - 1:
        acc.count('crash_cuts_newline_only_missing')
    if second is not None:
        acc.count('crash_second_cuts')
    for e in excs_all:
        acc.count('crash_receive_exceptions:' + e)
    acc.nontriv('crash', m, cut, mode, second, len(last))
    want = list(range(lo, m + 1)) + [SENTINEL]
    if seq == want and not truncated_phase_delivered_last:
        acc.count('crash_exactly_once_in_order')
        return
    if truncated_phase_delivered_last or any(isinstance(x, tuple) for x in seq):
        sig = 'crash/truncated-line-delivered'
    elif any(seq.count(x) > 1 for x in seq):
        sig = 'crash/repeated-after-heal'
    elif [x for x in want if x not in seq]:
        sig = 'crash/lost-after-heal'
    else:
        sig = 'crash/out-of-order'
    acc.violation(sig, f'records {lo}..{m}, last record ({len(last)} bytes) cut at byte {cut}'
                  + (f' then {second}' if second is not None else '') + f', reader {mode}: delivered {seq}, '
                  f'expected {want} (exceptions {sorted(set(excs_all))})',
                  {'mode': 'crash', 'datas': datas[lo:m + 1], 'cut': cut, 'second': second, 'reader': mode})


def run_crash(desc, acc):
    rng = random.Random(h64(ID, desc['seed'], 'crash', desc['shard']))
    full, spans, datas = build_records(rng, desc['records'], acc, 'crash-src.jsonl')
    acc.count('crash_records', len(datas))
    for m in range(len(datas)):
        lo = max(0, m - desc['window'])
        length = spans[m][1] - spans[m][0]
        offs = crash_offsets(length)
        acc.count('crash_offsets_enumerated', len(offs))
        if length <= 2048:
            acc.count('crash_records_every_offset')
        for cut in offs:
            crash_case(acc, full, spans, datas, m, lo, cut, 'fresh', None)
            if m > lo:
                crash_case(acc, full, spans, datas, m, lo, cut, 'warm', None)
            if cut % 3 == 0:
                second = min(length, cut + (1 if cut % 2 else 7))
                crash_case(acc, full, spans, datas, m, lo, cut, 'warm1' if m > lo else 'fresh',
                           second if second > cut else None)
        if m == min(2, len(datas) - 1):
            acc.sample({'workload': 'crash', 'record': m, 'bytes': length, 'offsets': len(offs),
                        'line': full[spans[m][0]:spans[m][1]].decode('utf-8')[:300]})


# --------------------------------------------------------------------------- corruption

ENVELOPE = re.compile(r'^\{"hash":"([0-9a-f]+)","data":(.*)\}$', re.S)


def checksum_matches(line: str) -> bool:
    """independent restatement of the envelope: 16-bit blake2b of the data text, hex"""
    m = ENVELOPE.match(line.rstrip('\n'))
    if not m:
        return False
    return hashlib.blake2b(m.group(2).encode('utf-8', 'replace'), digest_size=2).hexdigest() == m.group(1)


def corrupt_case(acc, full, spans, datas, j, o, val, mode, path='corrupt.jsonl'):
    from tatsu.packetz.queue import PacketzQueue
    n = len(datas)
    pos = spans[j][0] + o
    reader = PacketzQueue(path)
    seq, excs_all = [], []
    if mode == 'warm' and j > 0:
        write_file(path, full[:spans[j][0]])
        ps, ex = drain(reader)
        seq += [rec_ident(datas, p) for p in ps]
        excs_all += ex
    b = bytearray(full)
    b[pos] = val
    write_file(path, bytes(b))
    ps, ex = drain(reader)
    seq += [rec_ident(datas, p) for p in ps]
    excs_all += ex
    PacketzQueue(path).send(data={'n': SENTINEL})
    ps, ex = drain(reader)
    seq += [rec_ident(datas, p) for p in ps]
    excs_all += ex

    acc.evaluations += 1
    acc.count('corrupt_cases')
    acc.count('corrupt_cases:' + mode)
    hit_newline = pos == spans[j][1] - 1
    affected = {j}
    if hit_newline and val != 0x0A:
        affected.add(j + 1 if j + 1 < n else SENTINEL)
        acc.count('corrupt_newline_destroyed')
    try:
        bytes(b).decode('utf-8')
        decodable = True
    except UnicodeDecodeError:
        decodable = False
        acc.count('corrupt_undecodable_utf8')
    for e in excs_all:
        acc.count('corrupt_receive_exceptions:' + e)
    acc.nontriv('corrupt', j, o, val, mode)

    # the corrupted text line(s) and whether they still carry a matching checksum
    end = spans[j + 1][1] if (hit_newline and j + 1 < n) else spans[j][1]
    text = bytes(b[spans[j][0]:end]).decode('utf-8', 'replace')
    collision = any(checksum_matches(ln) for ln in re.split(r'\r\n|\n|\r', text) if ln)

    want = [x for x in list(range(n)) + [SENTINEL] if x not in affected]
    rest = [x for x in seq if x not in affected and not isinstance(x, tuple)]
    altered = [x for x in seq if isinstance(x, tuple)]
    problems = []
    if rest != want:
        if any(rest.count(x) > 1 for x in rest):
            problems.append('corrupt/record-repeated')
        elif [x for x in want if x not in rest]:
            if 'UnicodeDecodeError' in excs_all and not decodable:
                problems.append('corrupt/undecodable-byte-blocks-reader')
            else:
                problems.append('corrupt/other-record-lost')
        else:
            problems.append('corrupt/out-of-order')
    if any(seq.count(x) > 1 for x in affected):
        problems.append('corrupt/record-repeated')
    if altered:
        if collision:
            acc.count('corrupt_checksum_collisions_delivered')
        else:
            problems.append('corrupt/delivered-altered')
    if collision:
        acc.count('corrupt_checksum_collisions')
    if not problems:
        acc.count('corrupt_contained')
        if j in seq:
            acc.count('corrupt_target_still_delivered_intact')
        return
    for sig in dict.fromkeys(problems):
        acc.violation(sig, f'{n} records, byte {o} of record {j} (0x{full[pos]:02x}) replaced by 0x{val:02x}, reader '
                      f'{mode}: delivered {seq}, expected {want} (+ optionally {sorted(affected, key=str)} intact); '
                      f'exceptions {sorted(set(excs_all))}',
                      {'mode': 'corrupt', 'datas': datas, 'j': j, 'o': o, 'val': val, 'reader': mode})


def replacement_bytes(orig, rng):
    vals = [orig ^ 0x01, orig ^ 0x80, 0x0A, 0x22, rng.randrange(256)]
    return [v for v in dict.fromkeys(vals) if v != orig]


def run_corrupt(desc, acc):
    for fi in range(desc['files']):
        rng = random.Random(h64(ID, desc['seed'], 'corrupt', desc['shard'], fi))
        full, spans, datas = build_records(rng, 5, acc, 'corrupt-src.jsonl')
        acc.count('corrupt_files')
        for j in (0, 2, 4):
            length = spans[j][1] - spans[j][0]
            offs = crash_offsets(length) if length > 2048 else range(length)
            for o in offs:
                if o >= length:
                    continue
                orig = full[spans[j][0] + o]
                for vi, val in enumerate(replacement_bytes(orig, rng)):
                    corrupt_case(acc, full, spans, datas, j, o, val, 'warm' if (o + vi) % 2 else 'fresh')
            acc.count('corrupt_offsets_enumerated', len(list(offs)))
        if fi == 0:
            acc.sample({'workload': 'corrupt', 'records': 5, 'targets': [0, 2, 4],
                        'line0': full[spans[0][0]:spans[0][1]].decode('utf-8')[:200]})


# --------------------------------------------------------------------------- (b2) stress

def run_child(args, timeout, errors):
    try:
        p = subprocess.run([sys.executable, '-m', 'vt.monitors.c19mon', *args], timeout=timeout,
                           capture_output=True, text=True)
        if p.returncode != 0:
            errors.append(f'child {args[:3]} rc={p.returncode}: {(p.stderr or "")[-500:]}')
    except subprocess.TimeoutExpired:
        errors.append(f'child {args[:3]} timed out')


def async_reader(path, stop, out, errors):
    from tatsu.packetz.queue import PacketzQueue
    q = PacketzQueue(path)
    calls = []

    async def consume():
        async for p in q.receive_async():
            calls.append({'t0': None, 't1': M.now(), 'items': [M.item_of(p)], 'exc': None, 'final': False})

    async def main():
        while not stop.is_set():
            task = asyncio.ensure_future(consume())
            while not stop.is_set() and not task.done():
                await asyncio.sleep(0.003)
            if not task.done():
                task.cancel()
            try:
                await task
            except asyncio.CancelledError:
                pass
            except Exception as e:  # noqa: BLE001
                calls.append({'t0': None, 't1': M.now(), 'items': [], 'exc': type(e).__name__, 'final': False})
    try:
        asyncio.run(main())
        calls += M.reader_loop(path, lambda: True, q=q)
    except Exception as e:  # noqa: BLE001
        errors.append(f'async reader harness: {type(e).__name__}: {e}')
    out['calls'] = calls


def run_stress(desc, acc):
    from tatsu.packetz.queue import PacketzQueue  # noqa: F401
    big = desc['tier'] == 'thorough'
    n_thread = 2500 if big else 1000
    n_proc = 5000 if big else 1500
    path = os.path.abspath('stress.jsonl')
    reset_file(path)
    stopfile = path + '.stop'
    sys.setswitchinterval(1e-5)
    errors: list[str] = []
    stop = threading.Event()
    send_logs = {}
    reader_out = {}

    def tsend(name):
        send_logs[name] = M.sender_loop(path, name, n_thread, yield_every=7)

    def tread(name):
        reader_out[name] = {'calls': M.reader_loop(path, stop.is_set)}

    shard = desc['shard']
    senders = [threading.Thread(target=tsend, args=(f't{shard}.{i}',)) for i in range(4)]
    psenders = []
    for i in range(4):
        name = f'p{shard}.{i}'
        outf = f'{path}.{name}.json'
        psenders.append((name, outf, threading.Thread(
            target=run_child, args=(['send', path, name, str(n_proc), outf], 1800, errors))))
    readers = [threading.Thread(target=tread, args=(f'rt{i}',)) for i in range(2)]
    aout = {}
    areader = threading.Thread(target=async_reader, args=(path, stop, aout, errors))
    preaders = []
    for i, pause in enumerate(('0.0005', '0')):
        routf = f'{path}.rp{i}.json'
        preaders.append((f'rp{i}', routf, threading.Thread(
            target=run_child, args=(['recv', path, stopfile, routf, '2000', pause], 2400, errors))))
    for t in readers + [areader] + [x[2] for x in preaders]:
        t.start()
    for t in senders + [x[2] for x in psenders]:
        t.start()
    for t in senders + [x[2] for x in psenders]:
        t.join()
    stop.set()
    with open(stopfile, 'w') as f:
        f.write('stop')
    for t in readers + [areader] + [x[2] for x in preaders]:
        t.join()
    sys.setswitchinterval(0.005)
    if errors:
        raise RuntimeError('stress harness: ' + '; '.join(errors)[:1500])

    sends = []
    for name in send_logs:
        sends += send_logs[name]
    for name, outf, _ in psenders:
        with open(outf) as f:
            sends += json.load(f)['sends']
    rd = {k: v['calls'] for k, v in reader_out.items()}
    rd['async'] = aout['calls']
    for name, routf, _ in preaders:
        with open(routf) as f:
            rd[name] = json.load(f)['calls']

    violations, stats = M.check_history(sends, rd)
    acc.evaluations += stats['deliveries']
    acc.count('stress_runs')
    acc.count('stress_sends_completed', stats['sends_completed'])
    acc.count('stress_deliveries_checked', stats['deliveries'])
    acc.count('stress_receive_calls', stats['calls'])
    acc.count('stress_receive_calls_nonempty', stats['calls_nonempty'])
    acc.count('stress_receive_exceptions', stats['exceptions'])
    acc.count('stress_order_pairs_checked', stats['order_pairs_checked'])
    acc.count('stress_deliveries_of_sends_completed_while_the_call_ran', stats['delivered_while_call_running'])
    acc.count('stress_id_collisions_among_sends', stats['id_collisions_among_sends'])
    acc.count('stress_calls_not_judged_for_completeness_because_a_send_was_in_flight', stats.get('calls_deferred_send_in_flight', 0))
    acc.count('stress_file_bytes', os.path.getsize(path))
    # evidence that executions really overlapped: receive calls whose interval intersects a send interval
    ss = sorted((s[2], s[3]) for s in sends)
    t0s = [a for a, _ in ss]
    pmax, cur = [], -1
    for _, t1 in ss:
        cur = max(cur, t1)
        pmax.append(cur)
    overlapping = 0
    for name, calls in rd.items():
        for c in calls:
            if c.get('t0') is None:
                continue
            i = bisect.bisect_left(t0s, c['t1'])
            if i and pmax[i - 1] > c['t0']:
                overlapping += 1
    acc.count('stress_receive_calls_overlapping_a_send', overlapping)
    # senders overlapping each other
    inter = 0
    for i in range(1, len(ss)):
        if ss[i][0] < pmax[i - 1]:
            inter += 1
    acc.count('stress_sends_overlapping_another_send', inter)
    for rname, calls in rd.items():
        for c in calls:
            for s, n, ok in c['items']:
                if ok and n % 4 == 0:
                    acc.nontriv('stress', rname, s, n)
                if ok and type(n) is int and M.stress_has_table_text(s, n):
                    acc.count('stress_deliveries_with_code_point_table_text')
    for e in sorted({c['exc'] for calls in rd.values() for c in calls if c.get('exc')}):
        acc.count('stress_receive_exception_class:' + e)
    acc.sample({'workload': 'stress', 'senders': '4 threads + 4 processes', 'readers': sorted(rd),
                'sends': stats['sends_completed'], 'deliveries': stats['deliveries'],
                'receive_calls_overlapping_a_send': overlapping})
    for sig, what, detail in violations:
        acc.violation(sig, 'stress history: ' + what, {'mode': 'stress', 'desc': desc, 'detail': detail})


# --------------------------------------------------------------------------- entry points

def run_shard(desc, acc):
    setup()
    try:
        mode = desc['mode']
        if mode == 'roundtrip':
            run_roundtrip(desc, acc)
        elif mode == 'interleave':
            run_interleave(desc, acc)
        elif mode == 'crash':
            run_crash(desc, acc)
        elif mode == 'corrupt':
            run_corrupt(desc, acc)
        elif mode == 'stress':
            run_stress(desc, acc)
        else:
            raise ValueError(mode)
    finally:
        teardown()


def rebuild(datas, path):
    """replay helper: the records of a witness written again by the real send()"""
    from tatsu.packetz.queue import PacketzQueue
    reset_file(path)
    w = PacketzQueue(path)
    renum = []
    for i, d in enumerate(datas):
        d = dict(d)
        d['n'] = i
        renum.append(d)
        w.send(to='r', data=d)
    with open(path, 'rb') as f:
        full = f.read()
    ends = [i + 1 for i, b in enumerate(full) if b == 0x0A]
    spans = [((ends[i - 1] if i else 0), ends[i]) for i in range(len(renum))]
    return full, spans, renum


def replay(w, acc):
    setup()
    try:
        mode = w['mode']
        if mode == 'roundtrip':
            check_roundtrip(acc, w['to'], w['data'], {'mode': 'replay'})
        elif mode == 'rle':
            from tatsu.packetz import compact
            s = w['s']
            acc.evaluations += 1
            if compact.rle_decode(compact.rle_encode(s)) != s:
                s2 = M.shrink_rle_string(s)
                acc.violation(M.string_sig(s2) or f'rle-monitor/other:{M.shape(s2)}',
                              f'rle_decode(rle_encode({s2!r})) = {compact.rle_decode(compact.rle_encode(s2))!r}',
                              {'mode': 'rle', 's': s2})
        elif mode == 'hostile_queue':
            hostile_queue_batch(acc, [tuple(x) for x in w['batch']], 'replay')
        elif mode == 'interleave':
            run_sequence(acc, tuple(w['seq']), w['split'], salt=w.get('salt', 0))
        elif mode == 'idclock':
            run_idclock(acc)
        elif mode == 'crash':
            full, spans, datas = rebuild(w['datas'], 'replay-src.jsonl')
            crash_case(acc, full, spans, datas, len(datas) - 1, 0, w['cut'], w['reader'], w['second'])
        elif mode == 'corrupt':
            full, spans, datas = rebuild(w['datas'], 'replay-src.jsonl')
            corrupt_case(acc, full, spans, datas, w['j'], w['o'], w['val'], w['reader'])
        elif mode == 'stress':
            run_stress(w['desc'], acc)
        else:
            raise ValueError(mode)
    finally:
        teardown()


MANIFEST = {
    'technique': 'runtime monitoring: round-trip equality oracle + icontract postcondition on the RLE codec over hostile '
                 'payloads and over a deterministic sweep of a code-point table (every class of character a JSON string '
                 'can carry x every context next to the encoding characters x recipient/key/value positions, each also '
                 'through a real queue file); sequential reference model checked online over every enumerated operation sequence; '
                 'crash-point and byte-corruption enumeration on real queue files; offline exactly-once/order/visibility '
                 'checker over the recorded call/return history of a threads+processes stress run',
    'level_text': 'the fault space is enumerated: the queue file is cut at every byte offset of the last record (fresh, warm '
                  'and mid-iteration readers, with a second cut), every byte of a record is replaced by 5 values, and every '
                  'valid sequence of <=K send/partial-write/re-append/drain/next operations over two readers is executed '
                  'on the real queue and compared with the sequential model; around that, seeded hostile payloads exercise '
                  'the codec and a concurrent history is checked offline. fault_enumeration is the right level because the '
                  'statement quantifies over crash points and schedules for small k',
    'level_note': 'trusted: the sequential log+cursor model, json/hashlib of the standard library, CLOCK_MONOTONIC being '
                  'shared by the processes of the host. corrupted lines that still carry a matching 16-bit checksum are '
                  'counted, not judged; concurrent schedules are sampled (the OS decides), only the single-thread '
                  'interleavings are exhaustive; payloads are finite JSON data; receive_0 is not exercised',
}
