"""C07 — object models mirror the AST with typed, navigable nodes.

Oracle: for (typed grammar text, input) the REAL parser is run (1) without semantics -> plain AST,
(2) with a tagging semantics that only pairs each annotated rule's value with its annotation ->
expected typed tree (validated: tags erased == plain AST), (3) with ModelBuilderSemantics
(synthesized classes), (4) with the classes of the generated model module, (5) through the
tatsu.compile(asmodel=True)/tatsu.parse(asmodel=True) entry points.  The live trees of (3)-(5) are
compared node by node with the expected tree (class name, declared bases in the MRO, attribute
set, values, builtin conversions) and then monitored structurally: children()/parent of every
holder, DepthFirst/BreadthFirst/PostOrder walkers (a fresh instance, and an instance with a history:
walked before, interrupted by an exception from a walk_xxx method, its generator run to the end or
abandoned, another tree walked), NodeWalker dispatch on declared bases.
Typed rules also carry FURTHER parameters after the type name (`binary(Binary::Base, 'infix', prec=3)`):
those go to the semantic actions; the node is still built from the rule's value, on every route.
DESIGN.md section 3/C07.
"""
from __future__ import annotations

import random

from .. import lang as L
from ..common import h64
from ..monitors import c07_model as M

ID = 'C07'
LEVEL = 'exploration'
RULE = ('cases = (typed grammar TEXT, start rule, input): grammars of 2-6 rules generated per case with rules '
        'annotated `r::A`, `r::A::B`, `r::A::B::C` (or `r[A::B]`), builtin annotations int/float/str/bool/list on '
        'leaf rules, untyped pass-through rules, bodies with and without named elements, typed rules called '
        'directly, in optionals, closures, joins/gathers, groups, nested closures (lists of lists), under '
        'overrides, inside untyped rules returning dicts, guarded direct recursion, plus random C01-generator '
        'bodies; in half of the grammars up to two untyped rules get parameters that name no type (`r[1]`, `r[7, Foo]`, `r[k=1]`: the plain AST is expected at that place); in half of the grammars ~60% of the TYPED rules (classes, chains, builtins) get further parameters after the type name, in the documented spellings `r[A, "x"]`, `r(A::B, 3)`, `r[A, op="+"]`, `r(A::B::C, infix, 1, prec=2.5)`: 1-3 positional and/or 1-2 keyword parameters, values bare words (some looking like class names), quoted strings (also empty), ints (also 0), floats; keyword names disjoint from element names and node fields; such a rule must give the same node as without them (class, bases, attributes = named elements, ast = value, children) on the synthesized, module (generated-semantics/typedefs/constructors), asmodel and generated-parser routes; half of the bracket spellings of all parameter lists are written with parentheses; slices: fresh (class names unique to the case), conflict (one class declared by two rules with DIFFERENT base chains and different named elements: judged on attributes/values only), collide (class names from a 5-name pool shared '
        'by all cases of the process, chains redrawn per case), shared (two rules declaring one class), hostile '
        '(element names meeting the node API / AST key renaming); inputs derived from the grammar, ~15% mutated. '
        'every tree is walked by a fresh DepthFirst/BreadthFirst/PostOrder walker and then by a walker INSTANCE WITH A HISTORY (one of: a complete walk of the same tree, a walk interrupted after k nodes by an exception raised in walk_Node, iter_depthfirst/iter_breadthfirst/iter_postdepthfirst run to the end, the generator closed after its first node, a walk of another tree of the same value), which must reach every node again; for every third grammar the parser GENERATED from the model is run too (before the model, with ModelBuilderSemantics and with the tagging semantics): class names, base chains against the grammar\'s annotation, attributes, structure. non-trivial = the plain parse ACCEPTED and the expected tree contains at least one typed node, distinct '
        'by (grammar text, start, input)')
ASSUMPTIONS = [
    'the expected typed tree is the value the real parser returns when the only semantic action pairs the value '
    'of each annotated rule with its annotation (documented _default(ast, *params) protocol); it is accepted as '
    'oracle only when erasing the tags gives exactly the plain AST of the same parse, otherwise the case is '
    'counted as flagged:tagged-differs-from-plain (a rule value of None is dropped from a plain sequence but a '
    'node is not) and only the structural monitors run',
    'within one grammar every class name is declared with one consistent chain of bases; grammars declaring one '
    'class with two different chains are not generated (the documentation does not say which wins)',
    'parent links are checked after children() of the holder has been called (they are established lazily by '
    'children()); the number of links still unset before that call is reported as evidence only',
    'the set of nodes "stored in the attributes" of a holder is computed by our own traversal of vars(holder) '
    'through list/tuple/dict values (keys starting with _ and the ctx/parseinfo fields excluded)',
    'attribute names are the keys of the plain AST (the AST renames keys that collide with dict attributes: '
    'items -> items_); for classes of the generated model module the sanitised spelling of a key (class_ for class, '
    'items for items_) is accepted provided the value is there, and declared fields left at None are not extras',
    'a typed rule whose value is the AST dict of an untyped callee (keys that are not the rule\'s own named elements) '
    'is an open corner (synthesized classes spread the keys into attributes, classes with fields keep the dict in '
    '.ast): counted as flagged:dict-value-not-from-own-names, values compared wherever they are',
    'the synthesized-class registry is read through vars(tatsu.objectmodel.synth) only to name the mechanism of an '
    'MRO mismatch (stale class) and to make such a witness replayable; the verdict does not depend on it',
    'a walker instance may be used for more than one walk, also after a walk that an exception from one of its '
    'walk_xxx methods ended and after its generator method (iter_depthfirst, iter_breadthfirst, '
    'iter_postdepthfirst: public names of tatsu.walkers) was iterated or abandoned-and-closed; "the tree walkers '
    'reach every node" is read as holding for each of these walks (judged only when a fresh instance reached all)',
    'further parameters of a typed rule (after the type name) are for the semantic actions (documented: "Rules with '
    'Arguments"); the property says what the node is built from (the rule\'s named elements / value), so the '
    'expected tree of such a rule is the one of the same rule without them.  Not generated (open corners): a '
    'keyword parameter called like a named element of the rule or like a field of every node (ast, ctx, parseinfo), '
    'and further parameters in the `r::A, x` spelling (the grammar language does not take it before `=`); what '
    'the actions RECEIVE as further parameters is not judged here (only counted)',
]
FLOORS = {
    'quick': {'accepted': 4000, 'distinct_nontrivial': 3400, 'nodes_expected': 20000, 'exact_comparisons': 8000,
              'route_runs:synth': 5500, 'route_runs:module': 5500, 'route_runs:api': 400, 'build:text': 160,
              'model_modules_generated': 1000, 'module_semantics:generated-semantics': 1800,
              'module_semantics:typedefs': 1800, 'module_semantics:constructors': 1800,
              'child_links_checked': 13000, 'child_in:direct': 3500, 'child_in:list': 10000,
              'child_in:nested-list': 5000, 'child_in:dict': 500,
              'walker_runs:depthfirst': 8000, 'walker_runs:breadthfirst': 8000, 'walker_runs:postorder': 8000,
              'dispatch_checked': 18000, 'dispatch_via:declared-base': 2800, 'dispatch_spelling:pythonic': 6000,
              'dispatch_spelling:camel': 6000, 'chain_len:2': 6500, 'chain_len:3': 3500,
              'builtin_ok:int': 1200, 'builtin_ok:float': 1200, 'builtin_ok:str': 1200, 'builtin_ok:bool': 1200,
              'builtin_expected:list': 1000, 'collide_cases': 220, 'stale_declarations_seen': 330,
              'nodes_without_names': 10000, 'nodes_with_names': 9000, 'max_depth': 3,
              'slice:conflict': 100, 'conflict_attrs_judged:synth': 1100, 'conflict_attrs_judged:module': 1100,
              'conflict_mro:has-the-other-chain': 300,
              'nontype_param_rules:number-first': 130, 'nontype_param_rules:number-then-word': 130,
              'nontype_param_rules:keywords-only': 130, 'nontype_param_parses:number-first': 220,
              'nontype_param_parses:number-then-word': 220, 'nontype_param_parses:keywords-only': 220,
              'genparser_built': 350, 'genparser_comparisons': 1500, 'genparser_chains_judged': 1900,
              'params_compared_with_grammar': 4500,
              'grammars_with_typed_extra_params': 550, 'typed_extra_rules:positional': 580,
              'typed_extra_rules:keywords': 280, 'typed_extra_rules:both': 280,
              'typed_extra_rules_on:builtin': 160, 'typed_extra_rules_on:chain-2': 370,
              'typed_extra_rules_on:chain-3': 180, 'typed_extra_values:word': 650,
              'typed_extra_values:quoted-string': 550, 'typed_extra_values:int': 650, 'typed_extra_values:float': 320,
              'typed_extra_parses:positional': 1200, 'typed_extra_parses:keywords': 600,
              'typed_extra_parses:both': 600, 'extra_param_values_judged_on:synth': 5000,
              'extra_param_values_judged_on:module': 5000, 'extra_param_values_judged_on:api': 270,
              'extra_param_values_judged_on:genparser': 1700,
              'extra_param_values_judged_on:module:generated-semantics': 1600,
              'extra_param_values_judged_on:module:typedefs': 1600,
              'extra_param_values_judged_on:module:constructors': 1600,
              'walker_reuse:depthfirst': 8000, 'walker_reuse:breadthfirst': 8000, 'walker_reuse:postorder': 8000,
              'walker_reuse_history:walked': 9000, 'walker_reuse_history:interrupted': 6000,
              'walker_reuse_history:iterated-to-the-end': 6000, 'walker_reuse_history:iterated-partly': 6000,
              'walker_reuse_history:walked-another-tree': 100,
              'type_spelling:()': 70, 'type_spelling:()+further-params': 80, 'type_spelling:[]+further-params': 80},
    'thorough': {'accepted': 100000, 'distinct_nontrivial': 90000, 'nodes_expected': 550000,
                 'route_runs:synth': 140000, 'route_runs:module': 140000, 'route_runs:api': 11000,
                 'child_links_checked': 390000, 'child_in:nested-list': 150000, 'child_in:dict': 23000,
                 'walker_runs:depthfirst': 210000, 'walker_runs:breadthfirst': 210000,
                 'walker_runs:postorder': 210000, 'dispatch_via:declared-base': 80000,
                 'chain_len:3': 100000, 'builtin_ok:int': 35000, 'builtin_ok:float': 35000, 'builtin_ok:str': 35000,
                 'builtin_ok:bool': 30000, 'builtin_expected:list': 33000, 'collide_cases': 5500,
                 'stale_declarations_seen': 10000, 'max_depth': 4,
                 'slice:conflict': 2500, 'conflict_attrs_judged:synth': 27000, 'conflict_attrs_judged:module': 27000,
                 'nontype_param_parses:number-first': 5000, 'nontype_param_parses:number-then-word': 5000,
                 'nontype_param_parses:keywords-only': 5000, 'genparser_comparisons': 35000,
                 'genparser_chains_judged': 45000,
                 'walker_reuse:depthfirst': 210000, 'walker_reuse:breadthfirst': 210000,
                 'walker_reuse:postorder': 210000, 'walker_reuse_history:interrupted': 150000,
                 'walker_reuse_history:iterated-to-the-end': 150000, 'walker_reuse_history:iterated-partly': 150000,
                 'typed_extra_parses:positional': 30000, 'typed_extra_parses:keywords': 15000,
                 'typed_extra_parses:both': 15000, 'extra_param_values_judged_on:synth': 125000,
                 'extra_param_values_judged_on:module': 125000, 'extra_param_values_judged_on:api': 9500,
                 'extra_param_values_judged_on:genparser': 42000},
}
PEAK_COUNTERS = ('max_depth', 'max_nodes_in_tree')

N_GRAMMARS = {'quick': 2080, 'thorough': 52000}
INPUTS_PER = {'quick': 5, 'thorough': 5}
TEXT_EVERY = 6
GENPARSER_EVERY = 3


def plan(tier, seed):
    k = 16 if tier == 'quick' else 64
    n = N_GRAMMARS[tier] // k
    return [{'seed': seed, 'shard': i, 'n': n, 'inputs': INPUTS_PER[tier]} for i in range(k)]


def pick_slice(rng):
    r = rng.random()
    if r < 0.50:
        return 'fresh'
    if r < 0.70:
        return 'collide'
    if r < 0.80:
        return 'shared'
    if r < 0.90:
        return 'conflict'
    return 'hostile'


class ProcState:
    """process-wide state: grammar counter; view of the synthesized-class registry"""

    def __init__(self):
        self.gcount = 0
        self.declared: dict[str, list] = {}   # fallback: chains declared by earlier cases

    @staticmethod
    def chain_of(cls):
        out = []
        for d in cls.__mro__[1:]:
            if d.__name__ in ('Node', 'SynthNode', 'BaseNode'):
                break
            out.append(d.__name__)
        return tuple(out)

    def registry_chain(self, name):
        """bases of the class the synthesizer currently holds for `name` (evidence probe on the
        registry, which is the namespace of tatsu.objectmodel.synth); None = no such class"""
        try:
            import tatsu.objectmodel.synth as S
            cls = vars(S).get(name)
        except Exception:  # noqa: BLE001 - probe degrades to the declared history
            prev = self.declared.get(name)
            return prev[0] if prev else None
        if isinstance(cls, type):
            return self.chain_of(cls)
        return None


STATE = ProcState()


def classify_exception(e, meta):
    msg = str(e)
    t = type(e).__name__
    if isinstance(e, AttributeError) and 'has no setter' in msg:
        return 'attr-collision:node-api-name'
    return f'exc:{t}'


def outcome(fn):
    from tatsu.exceptions import FailedParse
    try:
        return ('ok', fn())
    except FailedParse as e:
        return ('fail', type(e).__name__, getattr(e, 'pos', None))
    except RecursionError as e:
        return ('exc', e)
    except Exception as e:  # noqa: BLE001 - the class is the observation
        return ('exc', e)


def check_grammar(acc, g, meta, inputs_fn, origin, prelude=None):
    """one typed grammar, all routes, several inputs"""
    import tatsu
    from tatsu.objectmodel import ModelBuilderSemantics

    STATE.gcount += 1
    gname = 'Gv' + M.suffix(STATE.gcount)
    text = M.typed_text(g, meta.get('styles'))
    chains = {k: tuple(v) for k, v in meta['chains'].items()}
    heads = {}
    declared_specs = {r.name: M.rule_spec(r) for r in g.rules if M.rule_spec(r) is not None}
    for r in g.rules:
        if r.name in declared_specs:
            heads.setdefault(declared_specs[r.name].split('::')[0], []).append(r.name)
    shared_heads = {h for h, rs in heads.items() if len(rs) > 1}

    if prelude:
        for k, spec in enumerate(prelude):   # replay: make the process-wide registry look as it did
            try:
                tatsu.compile(f"start::{spec} = 'a' ;", name=f'Pre{k}').parse('a', semantics=ModelBuilderSemantics())
            except Exception:  # noqa: BLE001
                pass

    before = {n: STATE.registry_chain(n) for n in chains}
    stale = {n for n in chains if before[n] is not None and before[n] != chains[n]}
    stale_specs = ['::'.join((n, *before[n])) for n in sorted(stale, key=lambda n: len(before[n]))]
    for n, c in chains.items():
        STATE.declared.setdefault(n, []).append(c)

    def witness(start=None, inp=None, **extra):
        w = {'grammar': L.to_json(g), 'meta': meta, 'grammar_text': text, 'start': start, 'text': inp,
             'prelude': stale_specs, 'origin': origin}
        w.update(extra)
        return w

    acc.count('grammars')
    acc.count('slice:' + meta['slice'])
    if meta['slice'] == 'collide':
        acc.count('collide_cases')
    if stale:
        acc.count('stale_declarations_seen', len(stale))

    build = meta.get('build') or ('text' if STATE.gcount % TEXT_EVERY == 0 else 'object')
    meta['build'] = build
    acc.count('build:' + build)
    try:
        if build == 'text':
            model = tatsu.compile(text, name=gname)
        else:
            model = L.to_model(g, name=gname)
    except Exception as e:  # noqa: BLE001
        acc.evaluations += 1
        acc.violation(f'compile/exc:{type(e).__name__}', f'building the typed grammar ({build}) failed: {e!r}'[:300],
                      witness())
        return
    own_names = {r.name: {x.n for x in L.walk(r.body) if isinstance(x, (L.Named, L.NamedList))}
                 for r in g.rules if r.name in declared_specs}
    tagsem = M.TagSemantics([r.name for r in g.rules])
    for _, kind in meta.get('nontype', ()):
        acc.count('nontype_param_rules:' + kind)
    # typed rules with further parameters after the type name (`binary(Binary, 'infix', prec=3)`)
    extra_rules = {}
    byname = {r.name: r for r in g.rules}
    for rname, shape, kinds in meta.get('extras', ()):
        r = byname[rname]
        ptext = ', '.join([L.param_text(x) for x in r.params[1:]] + [f'{k}={L.param_text(v)}' for k, v in r.kwparams])
        extra_rules[rname] = (shape, ptext)
        acc.count('typed_extra_rules:' + shape)
        acc.count('typed_extra_rules_on:' + ('builtin' if r.params[0] in M.BUILTINS else
                                             f'chain-{min(len(r.params[0].split("::")), 3)}'))
        for kd in kinds:
            acc.count('typed_extra_values:' + kd)
    if extra_rules:
        acc.count('grammars_with_typed_extra_params')
        acc.count('typed_extra_build:' + build)
    if build == 'text':
        for r, st in zip(g.rules, meta.get('styles') or ()):
            if M.rule_spec(r) is not None:
                acc.count('type_spelling:' + ('::' if st == '::' and r.name not in extra_rules else
                                              '()' if st == '()' else '[]')
                          + ('+further-params' if r.name in extra_rules else ''))

    # the generated parser (sampled): built from the same model by the real code generator.  Its
    # parses run BEFORE the model's so that the classes of this case are synthesized from what the
    # generated parser passes to the semantics
    gp_cls = None
    if meta.setdefault('genparser', STATE.gcount % GENPARSER_EVERY == 1):
        try:
            from ..tsu import gen_parser
            gp_cls = gen_parser(model)[0]
        except Exception as e:  # noqa: BLE001 - translation faults are C02's subject
            acc.count('genparser_build_failed')
            acc.note(f'generated parser could not be built: {type(e).__name__}')
        if gp_cls is not None:
            acc.count('genparser_built')
            gp_tagsem = M.TagSemantics([r.name for r in g.rules])
            gp_sem = ModelBuilderSemantics()

    # the generated model module (once per grammar)
    mod = None
    modsem_kind = None
    try:
        if build == 'text':
            src = tatsu.to_python_model(text, name=gname)
        else:
            from tatsu.ngcodegen.ngmodel_gen import modelgen
            src = modelgen(model, name=gname)
        mod = M.load_model_module(src)
        acc.count('model_modules_generated')
    except Exception as e:  # noqa: BLE001
        acc.violation(f'module/generate:exc:{type(e).__name__}',
                      f'to_python_model / exec of the generated model module failed: {e!r}'[:300], witness())

    rng = random.Random(h64('C07w', text))
    semkinds = ['generated-semantics', 'typedefs', 'constructors']
    modsem_kind = meta.setdefault('modsem', semkinds[STATE.gcount % 3])
    api_kind = meta.setdefault('api', (None if build != 'text' or (STATE.gcount // TEXT_EVERY) % 2 else
                                       'parse' if (STATE.gcount // TEXT_EVERY) % 4 == 0 else 'compile'))

    def module_semantics():
        if modsem_kind == 'generated-semantics':
            return getattr(mod, gname + 'ModelBuilderSemantics')()
        if modsem_kind == 'typedefs':
            return ModelBuilderSemantics(typedefs=[mod])
        return ModelBuilderSemantics(constructors=ModelBuilderSemantics.types_defined_in(mod))

    synth_sem = ModelBuilderSemantics()
    try:
        mod_sem = module_semantics() if mod is not None else None
    except Exception as e:  # noqa: BLE001
        mod_sem = None
        acc.violation(f'module/semantics:exc:{type(e).__name__}',
                      f'building semantics ({modsem_kind}) from the generated module failed: {e!r}'[:300], witness())
    api_model = None

    starts_inputs = inputs_fn(g)
    sampled = False
    for start, inp in starts_inputs:
        acc.evaluations += 1
        plain = outcome(lambda: model.parse(inp, start=start))
        if plain[0] == 'exc':
            acc.count('plain_parse_exception')
            continue
        tagsem.hits.clear()
        tagged = outcome(lambda: model.parse(inp, start=start, semantics=tagsem))
        exact = True
        if plain[0] == 'ok':
            acc.count('accepted')
            if tagged[0] != 'ok':
                acc.count('flagged:tagged-outcome-differs')
                continue
            if not M.same_plain(M.erase(tagged[1]), plain[1]):
                acc.count('flagged:tagged-differs-from-plain')
                exact = False
            for kind in tagsem.hits:   # the parse went through a rule whose parameters name no type
                if kind.startswith('typed+'):   # ... or through a typed rule with further parameters
                    acc.count('typed_extra_parses:' + kind[6:])
                else:
                    acc.count('nontype_param_parses:' + kind)
        else:
            acc.count('rejected')

        routes = []
        gp_tagged = None
        if gp_cls is not None and plain[0] == 'ok':
            # expected tree of the generated parser = its own tagged parse (differences between the two
            # back-ends in VALUES are C02's subject); the annotation its actions receive is compared
            # with the grammar's, i.e. with what the model route passes
            gp_tagged = outcome(lambda: gp_cls().parse(inp, start=start, semantics=gp_tagsem))
            if gp_tagged[0] == 'ok':
                routes.append(('genparser', lambda: gp_cls().parse(inp, start=start, semantics=gp_sem), None))
            else:
                acc.count('genparser_outcome_differs_from_model')
        routes.append(('synth', lambda: model.parse(inp, start=start, semantics=synth_sem), None))
        if mod_sem is not None:
            routes.append(('module', lambda: model.parse(inp, start=start, semantics=mod_sem), mod))
        if api_kind:
            def api():
                nonlocal api_model
                if api_kind == 'parse':
                    return tatsu.parse(text, inp, start=start, asmodel=True, name=gname + 'Q')
                if api_model is None:
                    api_model = tatsu.compile(text, name=gname + 'M', asmodel=True)
                return api_model.parse(inp, start=start)
            routes.append(('api', api, None))

        any_nodes = False
        for route, fn, module in routes:
            res = outcome(fn)
            acc.count('route_runs:' + route)
            if route == 'module':
                acc.count('module_semantics:' + modsem_kind)
            if res[0] == 'exc':
                sig = classify_exception(res[1], meta)
                acc.violation(f'{route}/{sig}',
                              f'{route} route: parse with model building raised {type(res[1]).__name__}: '
                              f'{str(res[1])[:160]} | grammar {text.strip()!r} input {inp!r} plain={plain[:1]}',
                              witness(start, inp, route=route))
                continue
            if plain[0] == 'fail':
                if res[0] != 'fail' or res[1:] != plain[1:]:
                    acc.violation(f'{route}/outcome:differs-from-plain-parse',
                                  f'{route} route: plain parse failed {plain[1:]} but model parse gave {res[:3]!r}'[:300]
                                  + f' | grammar {text.strip()!r} input {inp!r}', witness(start, inp, route=route))
                continue
            if res[0] != 'ok':
                acc.violation(f'{route}/outcome:differs-from-plain-parse',
                              f'{route} route: plain parse accepted but model parse failed {res[1:]} | grammar '
                              f'{text.strip()!r} input {inp!r}', witness(start, inp, route=route))
                continue
            mv = res[1]
            judge = M.Judge('module' if route == 'module' else 'synth', stale_names=stale, module=module,
                            own_names=own_names, shared_heads=shared_heads,
                            conflict_heads=meta.get('conflict_heads', ()),
                            declared_specs=declared_specs if route == 'genparser' else None,
                            extra_rules=extra_rules)
            if route == 'genparser':
                judge.corr(mv, gp_tagged[1])
                acc.count('genparser_comparisons')
                acc.count('genparser_nodes_judged', judge.ev.get('nodes_expected', 0))
                acc.count('genparser_chains_judged', sum(v for k, v in judge.ev.items()
                                                         if k.startswith('chain_len:') and k != 'chain_len:1'))
            elif exact:
                judge.corr(mv, tagged[1])
                acc.count('exact_comparisons')
            reach = M.structure_check(judge, mv)
            if route != 'api':
                M.walker_check(judge, reach, rng)
            nn = sum(len(o) for _, o in reach.values())
            acc.peak('max_nodes_in_tree', nn)
            acc.peak('max_depth', judge.maxdepth)
            for k, v in judge.ev.items():
                acc.count(k, v)
            if judge.ev.get('extra_param_values_judged'):
                acc.count(f'extra_param_values_judged_on:{route}', judge.ev['extra_param_values_judged'])
                if route == 'module':
                    acc.count(f'extra_param_values_judged_on:module:{modsem_kind}',
                              judge.ev['extra_param_values_judged'])
            if nn:
                any_nodes = True
            for sig, msg in judge.findings:
                acc.violation(f'{route}/{sig}', f'{route} route: {msg} | grammar {text.strip()!r} input {inp!r} '
                                                f'start {start}'[:900], witness(start, inp, route=route))
        if plain[0] == 'ok' and any_nodes:
            acc.nontriv(text, start, inp)
            if not sampled and origin.get('i', 1) % 40 == 0:
                sampled = True
                acc.sample({'grammar': text, 'start': start, 'input': inp, 'plain_ast': M.show(plain[1])[:300],
                            'expected_tree': M.show(tagged[1])[:300], 'slice': meta['slice']})
    if mod is not None:
        M.drop_module(mod)


def make_inputs(rng, n, extra_starts=None):
    def fn(g):
        out = []
        starts = ['start']
        if len(g.rules) > 2 and rng.random() < 0.3:
            starts.append(rng.choice(g.rules[1:-1]).name)
        for s in extra_starts or ():     # conflict slice: the second rule declaring the class
            if s not in starts:
                starts.append(s)
        for s in starts:
            for t in M.gen_inputs(rng, g, s, n if s == 'start' or s in (extra_starts or ()) else 2):
                out.append((s, t))
        return out
    return fn


def run_shard(desc, acc):
    for i in range(desc['n']):
        rng = random.Random(h64('C07', desc['seed'], desc['shard'], i))
        slice_ = pick_slice(rng)
        g, meta = M.gen_typed_grammar(rng, i, slice_)
        check_grammar(acc, g, meta, make_inputs(rng, desc['inputs'], meta.get('extra_starts')),
                      {'shard': desc['shard'], 'i': i, 'seed': desc['seed']})


def replay(w, acc):
    g = L.from_json(w['grammar'])
    meta = w['meta']

    def fn(_g):
        return [(w['start'] or 'start', w['text'] if w['text'] is not None else '')]
    check_grammar(acc, g, meta, fn, {'mode': 'replay'}, prelude=w.get('prelude'))


MANIFEST = {
    'technique': 'runtime monitoring: executions of the real parser with model building are compared online with an '
                 'expected typed tree obtained from the plain-AST parse of the same input plus the grammar annotations '
                 '(tagging semantics, validated against the plain AST), and the live object tree is monitored for the '
                 'children/parent/walker invariants',
    'level_text': 'seeded typed grammars (text route, `::`, `[]` and `()` annotation syntax, chains, builtins, typed rules '
                  'with further positional/keyword parameters after the type name, nodes in lists, '
                  'nested lists, dicts, optionals, overrides; fresh and process-wide colliding class names) x derived '
                  'inputs; each accepted parse is checked on three routes (synthesized classes, generated model module '
                  'through its generated semantics / typedefs= / constructors=, asmodel=True entry points); exploration is '
                  'the right level because the property quantifies over an unbounded grammar x input space',
    'level_note': 'trusted: the parser engine (it delivers both the plain AST and the tagged tree; C01 checks it), python '
                  'vars()/type()/MRO introspection, our traversal of attribute values; held = no disagreement on the '
                  'executions listed in the evidence, not a proof; parent links are judged after children() was called',
}
