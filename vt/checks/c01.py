"""C01 — grammar models parse exactly as the documented PEG semantics prescribe.

Oracle: REF (vt/ref.py), online, per execution of the real model (`Grammar.parse`), observed at
the boundary with the VTSTART end-position wrapper.  Workloads: (a) exhaustive small grammars x
all short inputs, (b) random grammars with derivation-guided inputs.  DESIGN.md section 3/C01.
"""
from __future__ import annotations

import random

from .. import gen as G
from .. import lang as L
from .. import refdiff as D
from ..common import h64
from ..shrink import kind_sig

ID = 'C01'
LEVEL = 'exploration'
RULE = ('cases = (grammar, start rule, input) executed by the real model and by REF; '
        'exhaustive slice: every 1-rule grammar of <=N nodes (2-rule with a call) over '
        "{'a','b',/c/,(),$,/./,{},opt,closures,lookaheads,group,named,named-list,override,seq,choice} x every "
        'string over {a,b,c,space} up to the length bound; random slice: seeded grammars of <=5 rules over the whole '
        'core language with derivation-guided + mutated inputs. non-trivial = the parse was ACCEPTED by REF '
        '(so consumed length and AST were compared), distinct by (grammar text, start, input)')
ASSUMPTIONS = [
    'REF (vt/ref.py) is the documented semantics; executions passing through a corner the docs leave open '
    '(flags: none-valued-call, empty/valueless-iteration, name-over-valueless, rebind-open-list, nested-override) '
    'are compared on accept/reject and consumed length only',
    'patterns are drawn from a regex family without backreferences and with <=1 capturing group (which may take no part '
    'in the match: the documented re.findall() reading gives the empty string)',
    'the object construction route (tatsu.peg node classes) builds the same model as compiling the text; a sample '
    'of cases goes through tatsu.compile(text) instead',
]
EXHAUSTIVE = {'quick': 'all 1-rule grammars with <=3 nodes x all 341 inputs of length <=4 over {a,b,c,space}',
              'thorough': 'all 1-rule grammars with <=4 nodes x all 341 inputs of length <=4 over {a,b,c,space}'}
FLOORS = {
    'quick': {'accepted_unflagged': 20000, 'kind:Clo': 50, 'kind:PClo': 50, 'kind:Join': 50, 'kind:Opt': 50,
              'kind:Choice': 50, 'kind:LA': 50, 'kind:NLA': 50, 'kind:Named': 50, 'kind:NamedList': 50,
              'kind:Over': 50, 'kind:Const': 50, 'kind:Void': 50, 'kind:EOF': 50, 'kind:Dot': 50,
              'kind:SkipTo': 50, 'kind:Empty': 50, 'kind:Call': 50, 'kind:Tok': 50, 'kind:Pat': 50,
              'kind:Group': 50, 'kind:Seq': 50, 'kind:AssocJoin': 20, 'texts_with_unicode_spaces': 1500, 'textroute_cases': 100, 'sugar:include': 100, 'sugar:based_rule': 100, 'sugar:override_rule': 100, 'default_start_cases': 800, 'wide_cases': 5000, 'kind:PatAbsentGroup': 200, 'kind:TokBeforeUnderscore': 60, 'kind:TokGuarded': 200, 'kind:NameRenamedAsDictAttribute': 150},
    'thorough': {'accepted_unflagged': 400000, 'textroute_cases': 1000},
}

N_RANDOM = {'quick': 5000, 'thorough': 120000}
INPUTS_PER = {'quick': 7, 'thorough': 12}
EXH_NODES = {'quick': 3, 'thorough': 4}
EXH_ALPHABET = 'abc '
EXH_MAXLEN = 4


def plan(tier, seed):
    shards = []
    n = N_RANDOM[tier]
    k = 12 if tier == 'quick' else 48
    for i in range(k):
        shards.append({'mode': 'random', 'seed': seed, 'shard': i, 'n': n // k,
                       'inputs': INPUTS_PER[tier], 'text_every': 12})
    ke = 8 if tier == 'quick' else 64
    for i in range(ke):
        shards.append({'mode': 'exhaustive', 'seed': seed, 'shard': i, 'of': ke,
                       'nodes': EXH_NODES[tier]})
    return shards


def feature_set(rng):
    F = dict(G.FEATURES)
    F['cut'] = rng.random() < 0.3
    F['assoc'] = rng.random() < 0.35   # the documented s<{e}+ / s>{e}+ joins
    for k in ('names', 'over', 'la', 'join', 'skipto', 'const', 'skipgroup'):
        if rng.random() < 0.15:
            F[k] = False
    return F


def check_case(acc, case, text, origin):
    """-> the disagreement tag (None when REF and the real parser agree)"""
    tag, a, b, r = D.compare(case, text)
    acc.evaluations += 1
    if tag == 'ref-budget':
        acc.count('ref_budget')
        return
    if a[0] == 'ok':
        acc.count('accepted')
        if r.nonw:
            acc.count('accepted_flagged')
            for f in r.nonw:
                acc.count('flag:' + f)
        else:
            acc.count('accepted_unflagged')
            for kname in r.features:
                acc.count('kind:' + kname)
        acc.nontriv(L.grammar_text(case.g), case.start, text)
        acc.count('backtracks', r.backtracks)
    else:
        acc.count('rejected')
    if tag is None:
        return None
    if tag == 'ast' and 'open-list-rule-value' in r.triggers:
        sig = 'ast/trigger:open-list-rule-value'
        acc.violation(sig, f'model vs documented semantics ({tag}): grammar {L.grammar_text(case.g).strip()!r} '
                           f'input {text!r} REF={a} TATSU={b}',
                      D.witness(case.g, case.start, text, a, b, r, origin=origin))
        return
    g2, t2 = D.shrink_case(case.g, case.start, text, tag, route='object')
    c2 = D.Case(g2, case.start)
    tag2, a2, b2, r2 = D.compare(c2, t2)
    if tag2 != tag:  # shrinking went astray: report the original
        g2, t2, a2, b2, r2 = case.g, text, a, b, r
    sig = f'{tag}/{kind_sig(g2)}'
    acc.violation(sig, f'model vs documented semantics ({tag}): grammar {L.grammar_text(g2).strip()!r} '
                       f'input {t2!r} REF={a2} TATSU={b2}',
                  D.witness(g2, case.start, t2, a2, b2, r2, origin=origin,
                            original={'grammar_text': L.grammar_text(case.g), 'text': text}))
    return tag


def run_shard(desc, acc):
    if desc['mode'] == 'random':
        run_random(desc, acc)
    else:
        run_exhaustive(desc, acc)


def add_sugar(rng, g, F, acc):
    """rule includes and based rules; REF evaluates their documented expansions (include = the included rule's
    right-hand side in place; `r < base` = base's right-hand side followed by r's own)"""
    leaf = G.gen_exp(rng, 1, [], dict(F, cut=False), list(G.PATS))
    rules = [g.rules[0], L.Rule('bs', leaf)] + list(g.rules[1:])
    k = rng.random()
    if k < 0.5 and len(rules) > 2:
        i = rng.randrange(2, len(rules))
        r = rules[i]
        rules[i] = L.Rule(r.name, r.body, r.decorators, r.params, r.kwparams, base='bs')
        acc.count('sugar:based_rule')
    else:
        i = rng.randrange(2, len(rules)) if len(rules) > 2 and rng.random() < 0.7 else 0
        r = rules[i]
        body = L.Seq((L.Include('bs'), L.Group(r.body))) if rng.random() < 0.5 else L.Seq((L.Group(r.body), L.Include('bs')))
        rules[i] = L.Rule(r.name, G.normalise(body), r.decorators, r.params, r.kwparams, r.base)
        if i == 0:
            # an include must follow the included rule: move the start rule after `bs`, keep it the start by name
            rules = [rules[1], rules[0]] + rules[2:]
        acc.count('sugar:include')
    return L.Grammar(rules, dict(g.directives), tuple(g.keywords))


def override_text(g, rname):
    """grammar text in which rule `rname` is first defined with a placeholder body and later redefined with
    @override: documented to be the same grammar as `g` (the redefinition REPLACES the rule, in place)"""
    lines = []
    tail = []
    for r in g.rules:
        one = L.grammar_text(L.Grammar([r])).strip()
        if r.name == rname:
            lines.append(f"{r.name} = 'zz' 'qq' ;")
            tail.append('@override\n' + one)
        else:
            lines.append(one)
    return '\n'.join(lines + tail) + '\n'


def check_default_start(acc, rng, g, texts, origin):
    """text route, no wrapper, NO explicit start: tatsu.compile(text).parse(input) starts at the first rule"""
    import tatsu
    from ..tsu import outcome
    first = g.rules[0].name
    over = None
    if all(not r.base and not any(isinstance(x, L.Include) for x in L.walk(r.body)) for r in g.rules) and rng.random() < 0.6:
        over = rng.choice(g.rules).name if rng.random() < 0.5 else first
        text_g = override_text(g, over)
        acc.count('sugar:override_rule')
    else:
        text_g = L.grammar_text(g)
    try:
        model = tatsu.compile(text_g, name='T')
    except Exception as e:  # noqa: BLE001
        acc.evaluations += 1
        acc.violation(f'exc:compile:{type(e).__name__}/{kind_sig(g)}', f'tatsu.compile failed on generated grammar text: {type(e).__name__}: {e}',
                      {'grammar': L.to_json(g), 'grammar_text': text_g, 'route': 'text-default-start'})
        return
    for text in texts:
        a, r = D.ref_run(g, text, first, max_steps=30000)
        if a[0] == 'budget':
            continue
        b = outcome(lambda t, **kw: model.parse(t, heart=D.StepHeart(D.step_budget(g, t)), **kw), text)
        acc.evaluations += 1
        acc.count('default_start_cases')
        ok_a, ok_b = a[0] == 'ok', b[0] == 'ok'
        bad = None
        if b[0] == 'EXC':
            bad = 'exc:' + b[1]
        elif ok_a != ok_b:
            bad = 'accept' if ok_a else 'reject'
        elif ok_a and not r.nonw and 'open-list-rule-value' not in r.triggers and a[2] != b[1]:
            bad = 'ast'
        if bad:
            sig = f'default-start/{bad}' + ('/override' if over else '')
            acc.violation(sig, f'tatsu.compile(text).parse(input) without start= differs from the documented semantics ({bad}): '
                               f'grammar {text_g.strip()!r} input {text!r} REF={a} TATSU={b}',
                          {'grammar': L.to_json(g), 'grammar_text': text_g, 'text': text, 'start': first, 'override': over,
                           'route': 'text-default-start', 'ref': a, 'tatsu': b, 'origin': origin})
            return


UNICODE_SPACES = ['\t', '\r', '\xa0', '\u2028', '\u3000', '\x85', '\x1c', '\u2003', '\f', '\v', '\u1680', '\u202f']


def unicode_spaces(rng, text):
    """the same text with its blanks replaced by other characters the default whitespace pattern matches"""
    if not any(c in ' \n' for c in text):
        i = rng.randrange(len(text) + 1)
        return text[:i] + rng.choice(UNICODE_SPACES) + text[i:]
    return ''.join(rng.choice(UNICODE_SPACES) if c in ' \n' and rng.random() < 0.7 else c for c in text)


def run_random(desc, acc):
    for i in range(desc['n']):
        rng = random.Random(h64('C01', desc['seed'], desc['shard'], i))
        F = feature_set(rng)
        pats = list(G.PATS)
        alphabet = 'abc ,'
        wide = i % 4 == 3
        if wide:
            # token texts and separators at the edge of the name guard, patterns whose group may stay out of the match
            F['toks'] = rng.sample(G.WIDE_TOKS, 3) + rng.sample(G.TOKS, 1)
            F['seps'] = [',', '_', '-', 'a']
            # element names that collide with attributes of dict: documented to get an underscore appended
            F['name_pool'] = ['n', 'm'] + rng.sample(['keys', 'items', 'values', 'get', 'update', 'pop', 'copy', 'clear'], 3)
            pats = pats[:3] + rng.sample(list(G.GROUP_PATS), 3)
            alphabet = 'abc ,_1-\u00e9'
            acc.count('wide_grammars')
        g = G.gen_grammar(rng, F, max_rules=5 if rng.random() < 0.3 else 3, pats=pats)
        if rng.random() < 0.2:
            g = add_sugar(rng, g, F, acc)
        route = 'text' if i % desc['text_every'] == 0 else 'object'
        starts = ['start' if any(r.name == 'start' for r in g.rules) else g.rules[0].name]
        if len(g.rules) > 1 and rng.random() < 0.4:
            starts.append(rng.choice(g.rules[1:]).name)
        for start in starts:
            case = D.Case(g, start, route=route)
            if case.model is None:
                acc.evaluations += 1
                acc.violation(f'exc:build:{case.build_error[0]}/{kind_sig(g)}',
                              f'building the model failed ({route} route): {case.build_error}',
                              {'grammar': L.to_json(g), 'grammar_text': L.grammar_text(g), 'route': route})
                continue
            if route == 'text':
                acc.count('textroute_cases')
            texts = G.gen_inputs(rng, g, start, desc['inputs'], alphabet)
            if wide:
                acc.count('wide_cases', len(texts))
            if 'EOL' not in L.grammar_kinds(g):
                # the documented default whitespace is the regex \s+ on str: every Unicode space, not only the ASCII ones
                texts = [unicode_spaces(rng, t) if rng.random() < 0.15 else t for t in texts]
            runaway = 0
            for text in texts:
                if any(c in UNICODE_SPACES for c in text):
                    acc.count('texts_with_unicode_spaces')
                t = check_case(acc, case, text, {'mode': 'random', 'shard': desc['shard'], 'i': i, 'route': route})
                if t in ('exc:StepBudget', 'exc:RecursionError'):
                    runaway += 1
                    if runaway >= 2:
                        break
        if route == 'text':
            check_default_start(acc, rng, g, G.gen_inputs(rng, g, g.rules[0].name, 4),
                                {'mode': 'random', 'shard': desc['shard'], 'i': i, 'route': 'text-default-start'})
        if i == 0:
            acc.sample({'grammar': L.grammar_text(g), 'start': starts[0], 'inputs': texts})


def exhaustive_grammars(nodes):
    for n in range(1, nodes + 1):
        for e in G.small_exps(n):
            yield L.Grammar([L.Rule('start', G.normalise(e))])
    # two-rule slice: a call inside, callee bodies small
    for n in range(1, nodes):
        for e in G.small_exps(n, calls=('x',)):
            if not any(isinstance(x, L.Call) for x in L.walk(e)):
                continue
            for body in (L.Tok('a'), L.Clo(L.Tok('b')), L.Opt(L.Pat('c')), L.Named('m', L.Tok('a')),
                         L.Seq((L.Tok('a'), L.Tok('b')))):
                yield L.Grammar([L.Rule('start', G.normalise(e)), L.Rule('x', body)])


def run_exhaustive(desc, acc):
    inputs = list(G.all_strings(EXH_ALPHABET, EXH_MAXLEN))
    for idx, g in enumerate(exhaustive_grammars(desc['nodes'])):
        if idx % desc['of'] != desc['shard']:
            continue
        acc.count('exhaustive_grammars')
        case = D.Case(g, 'start')
        if case.model is None:
            acc.evaluations += 1
            acc.violation(f'exc:build:{case.build_error[0]}/{kind_sig(g)}',
                          f'building the model failed: {case.build_error}',
                          {'grammar': L.to_json(g), 'grammar_text': L.grammar_text(g)})
            continue
        runaway = 0
        for text in inputs:
            t = check_case(acc, case, text, {'mode': 'exhaustive', 'idx': idx})
            if t in ('exc:StepBudget', 'exc:RecursionError'):
                runaway += 1
                if runaway >= 2:
                    break
        if idx == desc['shard']:
            acc.sample({'grammar': L.grammar_text(g), 'inputs': f'all {len(inputs)} strings over '
                        f'{EXH_ALPHABET!r} up to length {EXH_MAXLEN}'})


def replay(w, acc):
    g = L.from_json(w['grammar'])
    if w.get('route') == 'text-default-start':
        import tatsu
        from ..tsu import outcome
        a, r = D.ref_run(g, w['text'], w['start'])
        b = outcome(tatsu.compile(w['grammar_text'], name='T').parse, w['text'])
        acc.evaluations += 1
        if (a[0] == 'ok') != (b[0] == 'ok') or (a[0] == 'ok' and not r.nonw and a[2] != b[1]):
            acc.violation('default-start/replay', f'REF={a} TATSU={b}', w)
        return
    case = D.Case(g, w['start'], route=w.get('route', 'object'))
    check_case(acc, case, w['text'], {'mode': 'replay'})


MANIFEST = {
    'technique': 'runtime monitoring: online reference-model oracle (REF) over exhaustive small + random grammar/input executions of the real model',
    'level_text': 'every execution of the real grammar model (exhaustive: all 1-2 rule grammars up to the node bound x all inputs '
                  'up to length 4; random: seeded grammars over the whole core language with derivation-guided inputs) is compared '
                  'online with an independent executable model of the documented semantics on accept/reject, consumed length and AST; '
                  'exploration is the right level because the property is a conformance statement over an unbounded grammar x input space',
    'level_note': 'trusted: vt/ref.py (documentation-derived reference evaluator), the VTSTART end-position wrapper, python re; '
                  'executions through documented-open corners (fragment W flags) are compared on accept/length only; held = no '
                  'disagreement on the executions listed in the evidence, not a proof',
}
