"""C02 — generated Python parsers behave identically to the grammar model.

Oracle: differential between the two real back-ends (the model is the reference the statement names):
`pythongen(model)` -> compile -> exec -> `<Name>Parser().parse(text, **settings)` against
`model.parse(text, **settings)`, same settings, same semantics object.  DESIGN.md section 3/C02.
"""
from __future__ import annotations

import random

from .. import gen as G
from .. import lang as L
from .. import shrink as S
from ..common import h64
from ..ref import canon, ref_run
from ..semprobe import make_semantics
from ..tsu import gen_parser

ID = 'C02'
LEVEL = 'translation_validation'
RULE = ('programs = seeded random grammars (core language + directives whitespace/nameguard/namechars/ignorecase/'
        'parseinfo/keyword, rule parameters, @name, upper-case rules, keyword-like rule names, patterns with '
        'quotes/backslashes/newlines) translated by the real code generator; each is run on derivation-guided + mutated '
        'inputs under parse-time settings {defaults, ignorecase, nameguard off, whitespace override, parseinfo} and '
        'semantics {none, identity, tagging}; non-trivial = both back-ends were executed and at least one ACCEPTED the '
        'input; distinct by (grammar text, settings, semantics, input)')
ASSUMPTIONS = [
    'the in-memory model is the reference implementation (as the statement words it); REF is not involved',
    'equality of outcomes: accept/reject, FailedParse vs other exception class, canonical AST (tuples/lists unified), '
    'and with parseinfo on also the (rule, pos, endpos) of every dict-like node',
]
FLOORS = {
    'quick': {'programs': 6000, 'both_accepted': 12000, 'setting:ignorecase': 600, 'setting:nameguard_off': 600,
              'setting:whitespace': 600, 'setting:parseinfo': 600, 'setting:comments': 600, 'setting:eol_comments': 600, 'setting:namechars': 600, 'setting:memo_off': 600, 'setting:ws_none': 600, 'sem:tagging': 2000, 'sem:identity': 2000, 'sem:tagging+params': 2000,
              'kwlike_names': 400, 'pyconst_tokens': 400, 'long_names': 600, 'includes_or_based_rules': 500, 'reused_instance_parses': 20000, 'with_params': 400, 'with_directives': 1200, 'assoc_joins': 150, 'underscored_names': 400, 'via:config': 6000, 'via:config+kwargs': 3000},
    'thorough': {'programs': 100000, 'both_accepted': 200000},
}
N = {'quick': 9600, 'thorough': 160000}
INPUTS = {'quick': 6, 'thorough': 8}

HOSTILE_PATS = {
    r"'[^']*'": ["'a'", "''"],
    r'"(?:\\.|[^"])*"': ['"a"', '"\\""'],
    r'\\b': ['\\b'],
    r'a\/b': ['a/b'],
    'x\\ny': ['x\ny'],
    r'[\'"]': ["'", '"'],
    '[^\t\n]+': ['a b', 'x'],        # a LITERAL tab and newline inside the character class
    'a\tb': ['a\tb'],                # a literal tab in the pattern
    "\\\\'\"": ["\\'\""],             # a backslash before both kinds of quotes (not writable as a raw string)
}
UNDERSCORED = ['_Ident', '__Tok', '_lower', 'Up_', '__x', '_A1', 'lo_Up', '_9z', '___', '_Start']
KWLIKE = ['if', 'class', 'print', 'match', 'type', '_', 'def', 'None_', 'list', 'self']


def plan(tier, seed):
    k = 16 if tier == 'quick' else 64
    return [{'seed': seed, 'shard': i, 'n': N[tier] // k, 'inputs': INPUTS[tier]} for i in range(k)]


def pcanon(v):
    """canonical AST keeping (rule, pos, endpos) of parseinfo"""
    if isinstance(v, dict):
        out = {}
        for k, x in v.items():
            if k in ('parseinfo', '__parseinfo__'):
                out[k] = None if x is None else [x.rule, x.pos, x.endpos]
            else:
                out[k] = pcanon(x)
        return out
    if isinstance(v, (list, tuple)):
        return [pcanon(x) for x in v]
    return v


def gen_case(rng):
    F = dict(G.FEATURES)
    F['cut'] = rng.random() < 0.3
    F['assoc'] = rng.random() < 0.35   # the documented s<{e}+ / s>{e}+ joins
    pats = dict(G.PATS)
    hostile = rng.random() < 0.25
    if hostile:
        for k in rng.sample(list(HOSTILE_PATS), 2):
            pats[k] = HOSTILE_PATS[k]
    saved = dict(G.PATS)
    G.PATS.update(pats)
    try:
        g = G.gen_grammar(rng, F, max_rules=rng.choice([2, 3, 4]), pats=list(pats))
    finally:
        pass
    features = set()
    if rng.random() < 0.15:
        # rule includes (>rule) and based rules (r < base)
        from .c01 import add_sugar

        class _Acc:
            def count(self, *a):
                pass
        g = add_sugar(rng, g, F, _Acc())
        features.add('includes_or_based_rules')
    # tokens that coincide with the repr of Python constants (configuration leaks show as skipped text)
    if rng.random() < 0.2:
        word = rng.choice(['None', 'True', 'False', 'Undefined'])
        g = retoken(g, {'c': word})
        features.add('pyconst_tokens')
    # rename rules to keyword-like names
    if rng.random() < 0.2:
        names = [r.name for r in g.rules]
        new = rng.sample(KWLIKE, len(names))
        mapping = dict(zip(names, new))
        g = rename(g, mapping)
        features.add('kwlike_names')
    elif rng.random() < 0.2:
        # leading underscores: whether a rule is a token rule (no whitespace skipped before it) is decided on the name
        # without them, by the model from the grammar's name and by the generated parser from the method's name
        names = [r.name for r in g.rules]
        g = rename(g, dict(zip(names, rng.sample(UNDERSCORED, len(names)))))
        features.add('underscored_names')
    if rng.random() < 0.2:
        r = rng.choice(g.rules)
        r.params = tuple(rng.sample(['A', 'b', 1, 'Ty::Base', 'N::M::K'], rng.choice([1, 2])))
        if rng.random() < 0.5:
            r.kwparams = (('k', rng.choice([1, 'v'])),)
        features.add('with_params')
    if rng.random() < 0.35:
        d = {}
        if rng.random() < 0.3:
            d['whitespace'] = rng.choice([r'[ ]+', r'[\t ]+', '', '[\t ]+', '[\t]+'])   # the last two hold a literal tab
        if rng.random() < 0.3:
            d['nameguard'] = rng.choice(['True', 'False'])
        if rng.random() < 0.2:
            d['namechars'] = rng.choice(['-', '_$'])
        if rng.random() < 0.3:
            d['ignorecase'] = 'True'
        if rng.random() < 0.3:
            d['parseinfo'] = 'True'
        if rng.random() < 0.2:
            d['eol_comments'] = r'#[^\n]*'
        if rng.random() < 0.1:
            d['left_recursion'] = 'False'
        g.directives = d
        if d:
            features.add('with_directives')
    if rng.random() < 0.25:
        # long element names: the generator folds long ctx.define(...) lines differently
        g = rename_elements(g, {'n': 'first_operand_expression_node', 'm': 'modifiers_and_annotations_list',
                                'k': 'optional_trailing_separator_token'})
        features.add('long_names')
    if rng.random() < 0.2:
        g.keywords = tuple(rng.sample(['a', 'b', 'bb', 'c'], 2))
        for r in g.rules:
            if rng.random() < 0.5:
                r.decorators = ('name',)
        features.add('with_keywords')
    if any(isinstance(x, L.Join) and x.assoc for r in g.rules for x in L.walk(r.body)):
        features.add('assoc_joins')
    return g, features, saved


def rename_elements(g, mapping):
    def rn(e):
        kids = [rn(k) for k in L.children(e)]
        if isinstance(e, (L.Named, L.NamedList)):
            return type(e)(mapping.get(e.n, e.n), kids[0])
        return L.rebuild(e, kids) if kids else e
    return L.Grammar([L.Rule(r.name, rn(r.body), r.decorators, r.params, r.kwparams, r.base) for r in g.rules],
                     dict(g.directives), tuple(g.keywords))


def retoken(g, mapping):
    def rt(e):
        if isinstance(e, L.Tok):
            return L.Tok(mapping.get(e.s, e.s))
        kids = L.children(e)
        return L.rebuild(e, [rt(k) for k in kids]) if kids else e
    return L.Grammar([L.Rule(r.name, rt(r.body), r.decorators, r.params, r.kwparams, r.base) for r in g.rules],
                     dict(g.directives), tuple(g.keywords))


def rename(g, mapping):
    return G.rename_rules(g, mapping)


def _rename_old(g, mapping):
    def rn(e):
        if isinstance(e, L.Call):
            return L.Call(mapping.get(e.name, e.name))
        kids = L.children(e)
        return L.rebuild(e, [rn(k) for k in kids]) if kids else e
    return L.Grammar([L.Rule(mapping.get(r.name, r.name), rn(r.body), r.decorators, r.params, r.kwparams, r.base)
                      for r in g.rules], dict(g.directives), tuple(g.keywords))


SETTINGS = [
    ('defaults', {}),
    ('ignorecase', {'ignorecase': True}),
    ('nameguard_off', {'nameguard': False}),
    ('whitespace', {'whitespace': r'[ ,]+'}),
    ('parseinfo', {'parseinfo': True}),
    # further parse-time settings both back-ends must read the same way (inputs get comments where these are on)
    ('comments', {'comments': r'\(\*(?:.|\n)*?\*\)'}),
    ('eol_comments', {'eol_comments': r'#[^\n]*'}),
    ('namechars', {'namechars': '-_', 'nameguard': True}),
    ('memo_off', {'memoization': False}),
    ('ws_none', {'whitespace': ''}),
]
SEMS = ['none', 'identity', 'tagging', 'tagging+params']


def outcome(parse, text, settings, semname, via='kwargs'):
    from tatsu.exceptions import FailedParse
    sem = make_semantics(semname)
    kw = dict(settings)
    if sem is not None:
        kw['semantics'] = sem
    if via == 'config':
        # the same parse-time settings handed over as one configuration object (the documented config= argument)
        from tatsu.config import ParserConfig
        kw = {'config': ParserConfig(**kw)}
    elif via == 'config+kwargs':
        from tatsu.config import ParserConfig
        sem_kw = {'semantics': kw.pop('semantics')} if 'semantics' in kw else {}
        kw = dict(sem_kw, config=ParserConfig(**kw))
    try:
        return ('ok', pcanon(parse(text, **kw)))
    except FailedParse:
        return ('fail',)
    except RecursionError:
        return ('EXC', 'RecursionError')
    except Exception as e:  # noqa: BLE001
        return ('EXC', type(e).__name__, str(e)[:100])


class Pair:
    def __init__(self, g):
        self.g = g
        self.err = None
        self.model = None
        self.parser_cls = None
        self.reused = None
        self.src = None
        try:
            self.model = L.to_model(g, name='T')
        except Exception as e:  # noqa: BLE001
            self.err = ('model', type(e).__name__, str(e)[:200])
            return
        try:
            self.parser_cls, self.src = gen_parser(self.model)
            if self.parser_cls is None:
                self.err = ('codegen', 'NoParserClass', '')
        except SyntaxError as e:
            self.err = ('syntax', 'SyntaxError', str(e)[:200])
        except Exception as e:  # noqa: BLE001
            self.err = ('codegen', type(e).__name__, str(e)[:200])

    def run(self, text, settings, semname, via='kwargs'):
        a = outcome(self.model.parse, text, settings, semname, via)
        b = outcome(lambda t, **kw: self.parser_cls().parse(t, **kw), text, settings, semname, via)
        return a, b

    def run_reused(self, text, settings, semname, via='kwargs'):
        """the same input on ONE long-lived parser object (earlier parses, also failed ones, must not matter)"""
        if self.reused is None:
            self.reused = self.parser_cls()
        return outcome(self.reused.parse, text, settings, semname, via)


def relation(a, b):
    if a == b:
        return None
    if b[0] == 'EXC' and a[0] != 'EXC':
        return 'gen-exc:' + b[1]
    if a[0] == 'EXC' and b[0] != 'EXC':
        return 'model-exc:' + a[1]
    if a[0] == 'EXC' and b[0] == 'EXC':
        return None if a[1] == b[1] else f'exc-class:{a[1]}!={b[1]}'
    if a[0] != b[0]:
        return 'model-ok/gen-fail' if a[0] == 'ok' else 'model-fail/gen-ok'
    return 'ast'


def strip_rule_mangling(v):
    if isinstance(v, dict):
        return {k: ([x[0].rstrip('_'), *x[1:]] if k in ('parseinfo', '__parseinfo__') and isinstance(x, list)
                    else strip_rule_mangling(x)) for k, x in v.items()}
    if isinstance(v, (list, tuple)):
        return [strip_rule_mangling(x) for x in v]
    return v


def mechanism(g, text, settings, tag, a, b):
    """recorded mechanisms (known_findings.json) that can explain an AST divergence of this execution"""
    if tag in ('model-fail/gen-ok', 'model-ok/gen-fail'):
        # the bound value decides the @name keyword check, so the naming defect can flip accept/reject there
        if not (g.keywords and any('name' in r.decorators for r in g.rules)):
            return None
        try:
            out, r = ref_run(g, text, settings=settings, max_steps=20000)
        except Exception:  # noqa: BLE001
            return None
        return 'trigger:named-binds-last-node' if 'named-not-single' in r.triggers else None
    if tag != 'ast':
        return None
    if strip_rule_mangling(a) == strip_rule_mangling(b):
        return 'parseinfo-rule-name-mangled'
    try:
        out, r = ref_run(g, text, settings=settings, max_steps=20000)
    except Exception:  # noqa: BLE001
        return None
    if out[0] == 'ok':
        if 'nested-override' in r.nonw:
            return 'trigger:nested-override'
        if 'named-not-single' in r.triggers:
            return 'trigger:named-binds-last-node'
    return None


def classify(g, tag, a, b):
    """mechanism signature of a divergence: relation tag + node kinds of the shrunk grammar"""
    return f'{tag}/{S.kind_sig(g)}'


def shrink(g, text, settings, semname, tag, via='kwargs'):
    start = g.rules[0].name

    def pred(g2, s2, t2):
        if not g2.rules or g2.rules[0].name != start:
            return False
        p = Pair(g2)
        if p.err:
            return tag == 'build:' + p.err[0] + ':' + p.err[1]
        a, b = p.run(t2, settings, semname, via)
        return relation(a, b) == tag
    try:
        return S.shrink(g, start, text, pred, budget=150)
    except Exception:  # noqa: BLE001
        return g, text


def check_pair(acc, g, texts, origin, features=()):
    acc.count('programs')
    for f in features:
        acc.count(f)
    p = Pair(g)
    if p.err:
        if p.err[0] == 'model':
            acc.count('model_build_failed:' + p.err[1])
            return  # not this property's business (C08/C16)
        tag = 'build:' + p.err[0] + ':' + p.err[1]
        g2, _ = shrink(g, '', {}, 'none', tag)
        acc.evaluations += 1
        acc.violation(classify(g2, tag, None, None),
                      f'code generation failed or produced invalid Python ({p.err}) for {L.grammar_text(g2).strip()!r}',
                      {'grammar': L.to_json(g2), 'grammar_text': L.grammar_text(g2), 'error': p.err, 'origin': origin,
                       'text': '', 'settings': {}, 'sem': 'none'})
        return
    rng = random.Random(h64('C02s', L.grammar_text(g)))
    for text in texts:
        sname, settings = SETTINGS[0] if rng.random() < 0.4 else rng.choice(SETTINGS)
        semname = 'none' if rng.random() < 0.5 else rng.choice(SEMS)
        if sname == 'comments' and rng.random() < 0.7:
            i = rng.randrange(len(text) + 1)
            text = text[:i] + rng.choice([' (* a b *) ', '(**)', ' (* c\n*)']) + text[i:]
        elif sname == 'eol_comments' and rng.random() < 0.7:
            i = rng.randrange(len(text) + 1)
            text = text[:i] + rng.choice([' # a b\n', '#\n']) + text[i:]
        elif sname == 'namechars' and rng.random() < 0.5:
            i = rng.randrange(len(text) + 1)
            text = text[:i] + rng.choice('-_') + text[i:]
        # how the parse-time settings reach the parser: keyword arguments, or one ParserConfig object (config=)
        kvia = rng.random()
        via = 'kwargs' if kvia < 0.7 else ('config' if kvia < 0.9 else 'config+kwargs')
        a, b = p.run(text, settings, semname, via)
        acc.evaluations += 1
        acc.count('via:' + via)
        acc.count('setting:' + sname)
        acc.count('sem:' + semname)
        if a[0] == 'ok' and b[0] == 'ok':
            acc.count('both_accepted')
        if a[0] == 'ok' or b[0] == 'ok':
            acc.nontriv(L.grammar_text(g), sname, semname, text)
        elif a[0] == 'fail':
            acc.count('both_failed' if b[0] == 'fail' else 'model_failed')
        tag = relation(a, b)
        if tag is None:
            c = p.run_reused(text, settings, semname, via)
            acc.count('reused_instance_parses')
            if relation(b, c) is not None:
                acc.count('disagreements_checked')
                acc.violation(f'reused-parser-object/{relation(b, c)}',
                              f'a generated parser object that already parsed other inputs gives a different result than a fresh one: '
                              f'grammar {L.grammar_text(g).strip()!r} input {text!r} settings {settings} semantics {semname}: '
                              f'FRESH={b} REUSED={c} (earlier inputs: {texts[:5]})',
                              {'grammar': L.to_json(g), 'grammar_text': L.grammar_text(g), 'text': text, 'settings': settings,
                               'via': via, 'sem': semname, 'earlier': texts[:5], 'origin': origin})
            continue
        acc.count('disagreements_checked')
        mech = mechanism(g, text, settings, tag, a, b)
        if mech:
            acc.violation(f'{tag}/{mech}',
                          f'generated parser != model ({tag}, {mech}) grammar {L.grammar_text(g).strip()!r} input {text!r} '
                          f'settings {settings} (given as {via}) semantics {semname}: MODEL={a} GENERATED={b}',
                          {'grammar': L.to_json(g), 'grammar_text': L.grammar_text(g), 'text': text, 'settings': settings,
                           'via': via, 'sem': semname, 'model': a, 'generated': b, 'origin': origin})
            continue
        g2, t2 = shrink(g, text, settings, semname, tag, via)
        p2 = Pair(g2)
        a2, b2 = p2.run(t2, settings, semname, via) if not p2.err else (a, b)
        if p2.err or relation(a2, b2) != tag:
            g2, t2, a2, b2 = g, text, a, b
        acc.violation(classify(g2, tag, a2, b2),
                      f'generated parser != model ({tag}) grammar {L.grammar_text(g2).strip()!r} input {t2!r} '
                      f'settings {settings} (given as {via}) semantics {semname}: MODEL={a2} GENERATED={b2}',
                      {'grammar': L.to_json(g2), 'grammar_text': L.grammar_text(g2), 'text': t2, 'settings': settings,
                       'via': via, 'sem': semname, 'model': a2, 'generated': b2, 'origin': origin})


def run_shard(desc, acc):
    for i in range(desc['n']):
        rng = random.Random(h64('C02', desc['seed'], desc['shard'], i))
        g, features, saved = gen_case(rng)
        try:
            texts = G.gen_inputs(rng, g, g.rules[0].name, desc['inputs'], alphabet="abc ,'\"AB\\/\t")
            if rng.random() < 0.25:
                texts = [t.replace(' ', '\t') if rng.random() < 0.5 else t for t in texts]
            if rng.random() < 0.3:
                texts = [t.upper() if rng.random() < 0.5 else t for t in texts]
            check_pair(acc, g, texts, {'shard': desc['shard'], 'i': i}, features)
            if i == 0:
                acc.sample({'grammar': L.grammar_text(g), 'inputs': texts})
        finally:
            G.PATS.clear()
            G.PATS.update(saved)


def replay(w, acc):
    g = L.from_json(w['grammar'])
    p = Pair(g)
    if p.err:
        check_pair(acc, g, [], {'mode': 'replay'})
        return
    a, b = p.run(w['text'], w.get('settings', {}), w.get('sem', 'none'), w.get('via', 'kwargs'))
    acc.evaluations += 1
    tag = relation(a, b)
    if tag:
        mech = mechanism(g, w['text'], w.get('settings', {}), tag, a, b)
        acc.violation(f'{tag}/{mech}' if mech else classify(g, tag, a, b),
                      f'generated parser != model ({tag}): MODEL={a} GENERATED={b}', w)


MANIFEST = {
    'technique': 'runtime monitoring: differential execution of the generated parser against the in-memory model (translation validation of the code generator)',
    'level_text': 'each generated grammar is a program translated by the real code generator; the translation is validated by executing both '
                  'back-ends on the same inputs/settings/semantics and comparing outcomes; the generated source must compile; divergences '
                  'are shrunk and classified by mechanism',
    'level_note': 'the model interpreter is the reference (as the statement says); trusted: exec of generated source in a throw-away module, '
                  'canonicalisation list/tuple; held = no divergence on the programs x inputs listed in the evidence',
}
