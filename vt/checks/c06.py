"""C06 — semantic actions receive each rule's AST and their result replaces it.

Monitor: the semantics object itself (TatSu's extension point) records every action invocation;
the recorded event log and the parse outcome are checked against REF (with the same action applied
at each rule exit) and against structural rules (exception identity, @nomemo call counts, params).
Both back-ends (model and generated parser).  DESIGN.md section 3/C06.
"""
from __future__ import annotations

import collections
import random

from .. import gen as G
from .. import lang as L
from ..common import h64
from ..ref import PFail, canon, crepr, ref_run
from ..refdiff import step_budget
from ..semprobe import Recorder
from ..shrink import kind_sig
from ..tsu import StepHeart, gen_parser

ID = 'C06'
LEVEL = 'exploration'
RULE = ('cases = (grammar with rule parameters, input, semantics object, back-end): semantics drawn from {recording identity, tagging, '
        'failing on a predicate (FailedSemantics), raising exception E at the j-th call for 12 exception types, _default only, methods with '
        'declared parameters, documented fallback method names}; plus the @nomemo retry family (x tried from k alternatives at one position); '
        'non-trivial = at least one action invocation was observed and the parse result depended on it (accepted, or the raising/failing call was reached); '
        'distinct by (grammar text, input, semantics, back-end)')
ASSUMPTIONS = [
    'REF with the same action applied at every successful rule-body evaluation gives the documented result; executions through open corners '
    '(fragment W flags) are compared on accept/reject and consumed input only',
    '"reaches the caller unchanged" is read as: parse() raises the very exception OBJECT the action raised',
    'memoizable rules may replay a result: the action-event multiset of the real parser must be a sub-multiset of REF\'s (memo-free) events',
]
EXC_TYPES = ['KeyError', 'IndexError', 'ValueError', 'TypeError', 'TypeErrorArguments', 'AttributeError', 'StopIteration',
             'AssertionError', 'ZeroDivisionError', 'Custom', 'OSError', 'LookupError']
FLOORS = {
    'quick': dict({'events_checked': 4000, 'tagging_compared': 2500, 'failing_reached': 800, 'default_only_compared': 4000,
                   'declared_params_calls': 500, 'per_instance_compared': 4000, 'per_instance_mixed_named_and_default': 500, 'based_rule_events_both_declare_params': 20, 'fallback_name_calls': 1000, 'nomemo_retry_k3': 200, 'memo_replay_seen': 25,
                   'gen_cases': 400, 'gen_reused_cases': 150, 'scalar_family_cases': 1200,
                   'grammars_with_rules_named_like_builtins': 250, 'keyword_action_cases': 9000, 'keyword_action_rejected_without_semantics': 3000, 'declared_exact_signature_cases': 1500, 'semantics_delivered_by:attribute': 8000, 'semantics_delivered_by:constructor': 1500}, **{'exc_propagated:' + e: 60 for e in EXC_TYPES}),
    'thorough': {'events_checked': 100000, 'tagging_compared': 60000, 'failing_reached': 20000},
}
N = {'quick': 2400, 'thorough': 64000}


BUILTIN_LIKE_NAMES = ['sum', 'id', 'input', 'format', 'hash', 'filter', 'max', 'min', 'len', 'next', 'iter', 'object', 'range', 'vars',
                      'dir', 'repr', 'abs', 'all', 'any', 'map', 'zip', 'open', 'slice', 'property', 'bin', 'chr', 'ord', 'pow', 'round']


class CustomError(Exception):
    pass


def make_exc(kind, n):
    if kind == 'TypeErrorArguments':
        return TypeError(f'f() takes 2 positional arguments but {n + 3} were given')
    if kind == 'Custom':
        return CustomError(f'custom {n}')
    cls = {'KeyError': KeyError, 'IndexError': IndexError, 'ValueError': ValueError, 'TypeError': TypeError,
           'AttributeError': AttributeError, 'StopIteration': StopIteration, 'AssertionError': AssertionError,
           'ZeroDivisionError': ZeroDivisionError, 'OSError': OSError, 'LookupError': LookupError}[kind]
    return cls(f'raised by action {n}')


def plan(tier, seed):
    k = 16 if tier == 'quick' else 64
    return [{'seed': seed, 'shard': i, 'n': N[tier] // k, 'tier': tier} for i in range(k)]


SCALAR_CONSTS = ['1', 'True', '1.0', '0', 'False', '0.0', '5', "'s'"]


def gen_case(rng):
    F = dict(G.FEATURES, cut=rng.random() < 0.2, skipto=rng.random() < 0.3)
    saved = list(G.CONSTS)
    if rng.random() < 0.5:
        # constants that compare equal across types (1 == True == 1.0): values are compared by canonical TEXT, so types matter
        G.CONSTS[:] = SCALAR_CONSTS
    try:
        g = G.gen_grammar(rng, F, max_rules=4, pats=list(G.PATS)[:5])
    finally:
        G.CONSTS[:] = saved
    for r in g.rules:
        if rng.random() < 0.35:
            r.params = tuple(rng.sample(['A', 'b', 7, 'Ty::Base', 'N::M::K'], rng.choice([1, 2])))
        if rng.random() < 0.2:
            r.kwparams = (('k', rng.choice([1, 'v'])),)
    if rng.random() < 0.3 and len(g.rules) > 1:
        # a based rule (r < base): base's right hand side then r's own; documented: the base rule's parameters are
        # taken only when the based rule declares none of its own
        leaf = G.gen_exp(rng, 1, [], dict(F, cut=False), list(G.PATS)[:5])
        bs = L.Rule('bs', leaf)
        if rng.random() < 0.85:
            bs.params = tuple(rng.sample(['B', 'base', 3, 'BT::BB'], rng.choice([1, 2])))
        if rng.random() < 0.4:
            bs.kwparams = (('k', 'fromBase'),) if rng.random() < 0.5 else (('j', 2),)
        i = rng.randrange(1, len(g.rules))
        r = g.rules[i]
        rules = [g.rules[0], bs] + list(g.rules[1:])
        own = r.params or (tuple(rng.sample(['D', 'own', 9], rng.choice([1, 2]))) if rng.random() < 0.6 else ())
        rules[i + 1] = L.Rule(r.name, r.body, r.decorators, own, r.kwparams, base='bs')
        g = L.Grammar(rules, dict(g.directives), tuple(g.keywords))
    nrng = random.Random(h64('C06', 'names', L.grammar_text(g)))
    if nrng.random() < 0.2:
        # rules (hence actions) called like Python builtins: an action named `sum` is still the rule's action and must
        # receive the rule's parameters (own RNG: the rest of the workload keeps its draws)
        pool = nrng.sample(BUILTIN_LIKE_NAMES, 4)
        mapping = {r.name: pool.pop() for r in g.rules if r.name not in ('start', 'bs') and pool}
        g = G.rename_rules(g, mapping)
    return g


def declared(g, rule):
    """(params, kwparams) the rule's action must receive: its own, or the base rule's where it declares none (docs, based rules)"""
    params, kw = list(rule.params), dict(rule.kwparams)
    if rule.base:
        b = g.rule(rule.base)
        bp, bk = declared(g, b)
        params = params or bp
        kw = kw or bk
    return params, kw


class Backend:
    def __init__(self, g, kind):
        self.kind = kind
        self.model = L.to_model(g, name='T')
        self.cls = gen_parser(self.model)[0] if kind != 'model' else None
        self.obj = None
        self.calls = 0
        self.delivery = collections.Counter()

    def parse(self, text, **kw):
        # how the semantics object reaches the parser: the semantics= argument of parse(), or (every third call) the other
        # documented ways - assigning model.semantics on a model that has already parsed, the constructor of a generated
        # parser.  The object in force for THIS parse must be the one delivered last.
        self.calls += 1
        sem = kw.get('semantics')
        if self.calls % 3 == 0 and sem is not None:
            if self.kind == 'model':
                kw.pop('semantics')
                self.delivery['attribute'] += 1
                self.model.semantics = sem
                try:
                    return self.model.parse(text, **kw)
                finally:
                    self.model.semantics = None
            if self.kind == 'gen':
                kw.pop('semantics')
                self.delivery['constructor'] += 1
                return self.cls(semantics=sem).parse(text, **kw)
        self.delivery['argument'] += 1
        if self.kind == 'model':
            return self.model.parse(text, **kw)
        if self.kind == 'gen-reused':
            # ONE long-lived parser object for every parse of this grammar, whatever semantics each call brings
            if self.obj is None:
                self.obj = self.cls()
            return self.obj.parse(text, **kw)
        return self.cls().parse(text, **kw)


def run(be, g, text, sem):
    """-> ('ok', canon ast) | ('fail',) | ('raised', exception object)"""
    from tatsu.exceptions import FailedParse
    try:
        return ('ok', canon(be.parse(text, semantics=sem, heart=StepHeart(step_budget(g, text)))))
    except FailedParse:
        return ('fail',)
    except BaseException as e:  # noqa: BLE001 - the object is the observation
        return ('raised', e)


def show(out):
    return (out[0], f'{type(out[1]).__name__}: {out[1]}') if out[0] == 'raised' else out


def same(x, y):
    """type-strict equality of outcomes (1, True and 1.0 are different values)"""
    return crepr(show(x)) == crepr(show(y))


def base_witness(g, text, **extra):
    w = {'grammar': L.to_json(g), 'grammar_text': L.grammar_text(g), 'text': text}
    w.update(extra)
    return w


# ----------------------------------------------------------------- the individual monitors
def check_recording(acc, be, g, text, tag):
    start = g.rules[0].name
    rec = Recorder()
    out = run(be, g, text, rec)
    a, r = ref_run(g, text, start, max_steps=20000)
    acc.evaluations += 1
    if a[0] == 'budget':
        acc.count('ref_budget')
        return None
    flagged = bool(r.nonw)
    w = base_witness(g, text, backend=be.kind, sem='recording')
    # (c) identity semantics == no semantics
    plain = run(be, g, text, None)
    if not same(plain, out):
        acc.violation(f'identity-differs/{be.kind}', f'identity semantics changed the result: {L.grammar_text(g).strip()!r} {text!r} '
                                                     f'NONE={show(plain)} IDENTITY={show(out)}', w)
    # outcome vs REF
    if out[0] == 'raised':
        acc.violation(f'exc:{type(out[1]).__name__}/{be.kind}', f'parse raised {show(out)} with a recording semantics: '
                                                               f'{L.grammar_text(g).strip()!r} {text!r}', w)
        return None
    if (out[0] == 'ok') != (a[0] == 'ok'):
        acc.violation(f'accept/{be.kind}', f'accept/reject differs from REF with identity semantics: {L.grammar_text(g).strip()!r} {text!r} '
                                          f'REF={a} GOT={out}', w)
        return None
    # (a) every action event is a value REF derives for that rule ending at that position
    refev = collections.Counter()
    refpos = set()
    for name, pos, end, val in r.events:
        refev[(safe(name), end, crepr(val))] += 1
        refpos.add((safe(name), end))
    rules = g.rulemap()
    got = collections.Counter()
    for name, ast, params, kwparams, pos in rec.events:
        acc.count('events_checked')
        rname = unsafe(name, rules)
        if rname is None:
            acc.violation(f'event-unknown-rule/{be.kind}', f'action {name!r} invoked but no such rule: {L.grammar_text(g).strip()!r}', w)
            continue
        decl = rules[rname]
        dparams, dkw = declared(g, decl)
        if decl.base:
            acc.count('based_rule_events')
            if decl.params and g.rule(decl.base).params:
                acc.count('based_rule_events_both_declare_params')
        if dparams != list(params) or dkw != dict(kwparams):
            acc.violation(f'params/{be.kind}', f'action {name!r} got params {params} {kwparams}, rule declares {dparams} {dkw}: '
                                              f'{L.grammar_text(g).strip()!r} {text!r}', w)
        if pos is None:
            acc.count('event_pos_unobserved')
            continue
        if (name, pos) not in refpos:
            if 'named-not-single' in r.triggers and be.kind != 'model':
                acc.count('gen_named_defect_skipped')
                continue
            acc.violation(f'event-not-derivable/{be.kind}', f'action {name!r} invoked ending at {pos} but REF never completes that rule there: '
                                                           f'{L.grammar_text(g).strip()!r} {text!r}', w)
            continue
        if not flagged and not (be.kind != 'model' and 'named-not-single' in r.triggers) and 'open-list-rule-value' not in r.triggers:
            got[(name, pos, crepr(ast))] += 1
    extra = got - refev
    if extra:
        k = next(iter(extra))
        acc.violation(f'event-value/{be.kind}', f'action {k[0]!r} was given an AST REF does not derive for that rule at end {k[1]}: {k[2]} '
                                               f'(or more often than REF evaluates it): {L.grammar_text(g).strip()!r} {text!r}', w)
    if sum(refev.values()) > sum(got.values()) and got:
        acc.count('memo_replay_seen')
    if out[0] == 'ok' and rec.events:
        acc.nontriv(L.grammar_text(g), text, 'recording', be.kind)
    return a, r, rec


def safe(name):
    from tatsu.util import safe_name
    return safe_name(name)


def unsafe(name, rules):
    for r in rules:
        if safe(r) == name or r == name:
            return r
    return None


def check_tagging(acc, be, g, text):
    start = g.rules[0].name

    def ref_action(rule, val, pos, end):
        return ('T', safe(rule.name), val)
    a, r = ref_run(g, text, start, max_steps=20000, action=ref_action)
    if a[0] == 'budget':
        return
    sem = Recorder(transform=lambda name, ast, n: ('T', name, ast), record=False)
    out = run(be, g, text, sem)
    acc.evaluations += 1
    w = base_witness(g, text, backend=be.kind, sem='tagging')
    exp = ('ok', a[2]) if a[0] == 'ok' else ('fail',)
    if out[0] == 'raised':
        acc.violation(f'exc:{type(out[1]).__name__}/tagging/{be.kind}', f'parse raised {show(out)} with tagging semantics', w)
        return
    if out[0] != exp[0]:
        acc.violation(f'accept/tagging/{be.kind}', f'tagging semantics changed accept/reject: REF={exp} GOT={out} {L.grammar_text(g).strip()!r} {text!r}', w)
        return
    if out[0] == 'ok' and not r.nonw and 'open-list-rule-value' not in r.triggers \
            and not (be.kind != 'model' and 'named-not-single' in r.triggers):
        acc.count('tagging_compared')
        acc.nontriv(L.grammar_text(g), text, 'tagging', be.kind)
        if not same(out, exp):
            acc.violation(f'result-not-replaced/{be.kind}',
                          f'the value returned by an action did not become the rule\'s value for its callers: '
                          f'{L.grammar_text(g).strip()!r} {text!r} REF={exp} GOT={out}', w)


def check_failing(acc, be, g, text, rng):
    from tatsu.exceptions import FailedSemantics
    start = g.rules[0].name
    target = safe(rng.choice(g.rules).name)
    parity = rng.choice([0, 1])
    reached = [0]

    def pred(name, ast):
        return name == target and (len(crepr(ast)) % 2 == parity)

    def ref_action(rule, val, pos, end):
        if pred(safe(rule.name), val):
            raise PFail(end, 'semantics')
        return val
    a, r = ref_run(g, text, start, max_steps=20000, action=ref_action)
    if a[0] == 'budget':
        return

    def transform(name, ast, n):
        if pred(name, canon(ast)):
            reached[0] += 1
            raise FailedSemantics(f'predicate on {name}')
        return ast
    sem = Recorder(transform=transform, record=False)
    out = run(be, g, text, sem)
    acc.evaluations += 1
    w = base_witness(g, text, backend=be.kind, sem='failing', target=target, parity=parity)
    if reached[0]:
        acc.count('failing_reached')
        acc.nontriv(L.grammar_text(g), text, 'failing', be.kind)
    if r.nonw or 'open-list-rule-value' in r.triggers or (be.kind != 'model' and 'named-not-single' in r.triggers):
        return  # the predicate sees ASTs that are compared only in fragment W
    if out[0] == 'raised':
        acc.violation(f'failedsemantics-escaped:{type(out[1]).__name__}/{be.kind}',
                      f'FailedSemantics from an action did not behave as a syntax failure: parse raised {show(out)}: '
                      f'{L.grammar_text(g).strip()!r} {text!r}', w)
        return
    exp = ('ok', a[2]) if a[0] == 'ok' else ('fail',)
    if not same(out, exp):
        acc.violation(f'failedsemantics-alternatives/{be.kind}',
                      f'a failing action must make that invocation fail like a syntax mismatch (other alternatives tried): '
                      f'{L.grammar_text(g).strip()!r} {text!r} target={target} REF={exp} GOT={out}', w)


def check_raising(acc, be, g, text, rng):
    kind = rng.choice(EXC_TYPES)
    j = rng.choice([1, 1, 2, 3])
    raised = []

    def transform(name, ast, n):
        if n == j:
            e = make_exc(kind, n)
            raised.append(e)
            raise e
        return ast
    sem = Recorder(transform=transform, record=False)
    out = run(be, g, text, sem)
    acc.evaluations += 1
    w = base_witness(g, text, backend=be.kind, sem='raising', exc=kind, j=j)
    if not raised:
        acc.count('raising_not_reached')
        return
    acc.nontriv(L.grammar_text(g), text, 'raising', kind, be.kind)
    if len(raised) > 1 or sem.calls > j:
        acc.violation(f'exception-action-rerun/{kind}/{be.kind}',
                      f'after an action raised {kind} the parser kept invoking actions ({sem.calls} calls, raise at call {j}): '
                      f'{L.grammar_text(g).strip()!r} {text!r}', w)
        return
    if out[0] == 'raised' and out[1] is raised[0]:
        acc.count('exc_propagated:' + kind)
        return
    acc.violation(f'exception-not-propagated/{kind}/{be.kind}',
                  f'an action raised {kind} but parse() did not raise that exception object: got {show(out)}: '
                  f'{L.grammar_text(g).strip()!r} {text!r}', w)


class DefaultOnly:
    def __init__(self):
        self.asts = []

    def _default(self, ast, *args, **kwargs):
        self.asts.append(crepr(ast))
        return ast


def check_default_only(acc, be, g, text, rec_events):
    sem = DefaultOnly()
    out = run(be, g, text, sem)
    acc.evaluations += 1
    if out[0] == 'raised':
        acc.violation(f'exc:{type(out[1]).__name__}/default-only/{be.kind}', f'parse raised {show(out)} with a _default-only semantics',
                      base_witness(g, text, backend=be.kind, sem='default_only'))
        return
    acc.count('default_only_compared')
    a = collections.Counter(sem.asts)
    b = collections.Counter(crepr(e[1]) for e in rec_events)
    if a != b:
        acc.violation(f'default-not-called/{be.kind}',
                      f'_default was not called exactly where named actions are: {sum(a.values())} vs {sum(b.values())} calls: '
                      f'{L.grammar_text(g).strip()!r} {text!r}', base_witness(g, text, backend=be.kind, sem='default_only'))


class PerInstance:
    """ONE class, objects that expose different actions: named actions live on the instance (callables set as attributes),
    the rest goes to _default.  Which action serves a rule must be decided on the object given to this parse."""

    def __init__(self, names):
        self.log = []
        for n in names:
            setattr(self, n, self._named(n))

    def _named(self, n):
        def action(ast, *a, **kw):
            self.log.append(('named', n, crepr(ast)))
            return ast
        return action

    def _default(self, ast, *a, **kw):
        self.log.append(('default', None, crepr(ast)))
        return ast


def check_per_instance(acc, be, g, text, rng, rec_events):
    """two objects of the same semantics class with different sets of named actions, one after the other"""
    names = [safe(r.name) for r in g.rules]
    subsets = [set(n for n in names if rng.random() < 0.5) for _ in range(2)]
    if subsets[0] == subsets[1]:
        subsets[1] = set(names) - subsets[0]
    for k, sub in enumerate(subsets):
        sem = PerInstance(sorted(sub))
        out = run(be, g, text, sem)
        acc.evaluations += 1
        w = base_witness(g, text, backend=be.kind, sem='per_instance', named=sorted(sub), order=k)
        if out[0] == 'raised':
            acc.violation(f'exc:{type(out[1]).__name__}/per-instance/{be.kind}', f'parse raised {show(out)} with per-instance actions', w)
            return
        acc.count('per_instance_compared')
        want = collections.Counter(('named', e[0], crepr(e[1])) if e[0] in sub else ('default', None, crepr(e[1])) for e in rec_events)
        got = collections.Counter(sem.log)
        if want != got:
            d = list((want - got).items())[:2], list((got - want).items())[:2]
            acc.violation(f'per-instance-action-lookup/{be.kind}',
                          f'object #{k + 1} of one semantics class exposes named actions {sorted(sub)}; the calls made do not follow it '
                          f'(missing {d[0]}, unexpected {d[1]}): {L.grammar_text(g).strip()!r} {text!r}', w)
            return
        if sub and any(e[0] in sub for e in rec_events) and any(e[0] not in sub for e in rec_events):
            acc.count('per_instance_mixed_named_and_default')


def check_declared(acc, be, g, text, rng):
    """methods with declared parameters and the documented fallback names (_rule, rule_)"""
    target = rng.choice(g.rules)
    style = rng.choice(['plain', '_rule', 'rule_'])
    mname = {'plain': safe(target.name), '_rule': '_' + target.name, 'rule_': '_' + target.name + '_'}[style]
    calls = []
    nparams = len(target.params)

    def method(self, ast, *params, **kw):
        calls.append((list(params), {k: v for k, v in kw.items() if k != 'parseinfo'}))
        return ast
    tparams0, _tkw0 = declared(g, target)
    shape = rng.choice(['varargs', 'varargs', 'exact'])
    if shape == 'exact':
        # the same class name and method name as every other case of this process, but a method that declares exactly the
        # rule's positional parameters: what an action receives is decided by THIS function's own signature
        ps = ', '.join(f'p{i}' for i in range(len(tparams0)))
        ns = {'calls': calls}
        exec(f"def method(self, ast{', ' if ps else ''}{ps}, **kw):\n"
             f"    calls.append(([{ps}], {{k: v for k, v in kw.items() if k != 'parseinfo'}}))\n"
             f"    return ast\n", ns)
        method = ns['method']
        method.__qualname__ = 'check_declared.<locals>.method'
        method.__module__ = __name__
        acc.count('declared_exact_signature_cases')
    cls = type('Declared', (), {mname: method})
    sem = cls()
    out = run(be, g, text, sem)
    rec = Recorder()
    run(be, g, text, rec)
    acc.evaluations += 1
    expected = [e for e in rec.events if e[0] == safe(target.name)]
    w = base_witness(g, text, backend=be.kind, sem='declared', method=mname)
    if out[0] == 'raised':
        acc.violation(f'exc:{type(out[1]).__name__}/declared/{be.kind}', f'parse raised {show(out)} with method {mname}', w)
        return
    acc.count('declared_params_calls' if style == 'plain' else 'fallback_name_calls', len(calls))
    if len(calls) != len(expected):
        acc.violation(f'method-lookup/{style}/{be.kind}',
                      f'method {mname!r} for rule {target.name!r} called {len(calls)} times, a catch-all recorder sees {len(expected)}: '
                      f'{L.grammar_text(g).strip()!r} {text!r}', w)
        return
    tparams, tkw = declared(g, target)
    for params, kw in calls:
        if params != tparams or kw != tkw:
            acc.violation(f'params/declared/{be.kind}', f'method {mname!r} got {params} {kw}, declared {tparams} {tkw}', w)
            return


def check_nomemo(acc, rng, kind):
    """x is tried from k alternatives at one position: @nomemo => k action calls, otherwise >= 1"""
    k = rng.choice([2, 3, 3, 4])
    tails = ['b', 'c', 'd', 'e'][:k]
    nomemo = rng.random() < 0.6
    body = L.Choice(tuple(L.Seq((L.Call('x'), L.Tok(t))) for t in tails))
    g = L.Grammar([L.Rule('start', body), L.Rule('x', L.Pat(r'a+'), decorators=('nomemo',) if nomemo else ())])
    text = 'aa ' + tails[-1]
    be = Backend(g, kind)
    rec = Recorder()
    out = run(be, g, text, rec)
    acc.evaluations += 1
    n = sum(1 for e in rec.events if e[0] == 'x')
    w = base_witness(g, text, backend=kind, sem='nomemo', k=k, nomemo=nomemo)
    if out[0] != 'ok':
        acc.violation(f'nomemo-family-parse/{kind}', f'the retry family failed to parse: {show(out)} {L.grammar_text(g)!r} {text!r}', w)
        return
    if nomemo:
        acc.count(f'nomemo_retry_k{k}')
        if n != k:
            acc.violation(f'nomemo-not-reevaluated/{kind}',
                          f'@nomemo rule invoked from {k} alternatives at one position but its action ran {n} time(s): {L.grammar_text(g)!r}', w)
    else:
        acc.count('memoizable_retry')
        if n < 1 or n > k:
            acc.violation(f'memo-action-count/{kind}', f'memoizable rule tried {k} times ran its action {n} times', w)
    acc.nontriv('nomemo', k, nomemo, kind)


KW_SEMS = ['tagging', 'default_tagging', 'constant', 'identity']


def check_keyword_action(acc, rng, kind):
    """a semantic action never changes WHETHER an input is accepted: a reserved word where an @name rule stands is rejected
    with every semantics object exactly as without one (the action's result is not what the reserved-word test looks at)"""
    kws = rng.sample(['if', 'end', 'let', 'in', 'do'], rng.choice([1, 2, 3]))
    body = rng.choice([L.PClo(L.Call('ident')), L.Seq((L.Call('ident'), L.Clo(L.Seq((L.Tok(','), L.Call('ident')))))),
                       L.Choice((L.Seq((L.Call('ident'), L.Tok('='), L.Call('ident'))), L.Seq((L.Tok(kws[0]), L.Call('ident')))))])
    g = L.Grammar([L.Rule('start', L.Seq((body, L.EOF()))), L.Rule('ident', L.Pat(r'[a-z]+'), decorators=('name',))],
                  {}, tuple(kws))
    try:
        be = Backend(g, kind)
    except Exception as e:  # noqa: BLE001
        acc.count('build_failed:' + type(e).__name__)
        return
    words = kws + ['x', 'iff', 'en', 'y']
    for _ in range(6):
        n = rng.choice([1, 2, 3])
        text = rng.choice([' ', ' , ', ' = '])[:rng.choice([1, 3])].join(rng.choice(words) for _ in range(n))
        base = run(be, g, text, None)
        semname = rng.choice(KW_SEMS)
        if semname == 'tagging':
            sem = Recorder(transform=lambda rule, ast, n: ('T', rule, ast), record=False)
        elif semname == 'identity':
            sem = Recorder(record=False)
        elif semname == 'constant':
            sem = Recorder(transform=lambda rule, ast, n: 0, record=False)
        else:
            sem = type('DefaultTagging', (), {'_default': lambda self, ast, *a, **kw: ('D', ast)})()
        out = run(be, g, text, sem)
        acc.evaluations += 1
        acc.count('keyword_action_cases')
        if base[0] == 'fail':
            acc.count('keyword_action_rejected_without_semantics')
        if out[0] == 'raised' or base[0] == 'raised':
            bad = out if out[0] == 'raised' else base
            acc.violation(f'exc:{type(bad[1]).__name__}/keyword-action/{kind}', f'parse raised {show(bad)}: {L.grammar_text(g)!r} {text!r}',
                          base_witness(g, text, backend=kind, sem='keyword_action'))
            return
        if out[0] != base[0]:
            acc.violation(f'acceptance-changed-by-action/{semname}/{kind}',
                          f'without semantics the input is {base[0]}, with a {semname} action it is {out[0]}: {L.grammar_text(g).strip()!r} {text!r}',
                          base_witness(g, text, backend=kind, sem='keyword_action', action=semname))
            return


def check_scalars(acc, rng, kind):
    """one action receives, in one parse, scalar ASTs that are equal across types (1, True, 1.0 / 0, False, 0.0):
    each call must get ITS value, type included (argument binding must not be shared between equal values)"""
    C, T = L.Call, L.Tok
    pairs = [('a', '1'), ('b', 'True'), ('c', '1.0'), ('d', '0'), ('e', 'False'), ('f', '0.0'), ('g', "'1'")]
    rng.shuffle(pairs)
    rules = [L.Rule('start', L.Seq((L.PClo(C('v')), L.EOF()))),
             L.Rule('v', L.Choice(tuple(C('r' + k) for k, _ in pairs)))]
    for k, c in pairs:
        rules.append(L.Rule('r' + k, L.Seq((T(k), L.Over(L.Const(c))))))
    g = L.Grammar(rules)
    text = ' '.join(rng.choice(pairs)[0] for _ in range(rng.choice([3, 5, 8])))
    be = Backend(g, kind)
    plain = run(be, g, text, None)
    rec = Recorder()
    out = run(be, g, text, rec)
    acc.evaluations += 1
    acc.count('scalar_family_cases')
    w = base_witness(g, text, backend=kind, sem='scalars')
    if plain[0] != 'ok':
        acc.violation(f'scalar-family-parse/{kind}', f'the scalar family failed to parse: {show(plain)} {L.grammar_text(g)!r} {text!r}', w)
        return
    if not same(plain, out):
        acc.violation(f'action-argument-mixed-up/{kind}',
                      f'an identity action changed scalar values (an action was handed another call\'s value): '
                      f'{L.grammar_text(g)!r} {text!r} NONE={show(plain)} IDENTITY={show(out)}', w)
        return
    # every event of rule v must carry the value of the token it followed
    expect = {k: c for k, c in pairs}
    vals = [e[1] for e in rec.events if e[0] == 'v']
    acc.nontriv('scalars', text, kind)
    if crepr(vals) != crepr(plain[1] if isinstance(plain[1], list) else [plain[1]]) and len(vals) == len(text.split()):
        acc.violation(f'action-argument-mixed-up/{kind}', f'actions of rule v saw {vals}, the parse returned {plain[1]}: {text!r}', w)


def run_shard(desc, acc):
    for i in range(desc['n']):
        rng = random.Random(h64('C06', desc['seed'], desc['shard'], i))
        g = gen_case(rng)
        kind = ('gen' if i % 6 == 2 else 'gen-reused') if i % 3 == 2 else 'model'
        try:
            be = Backend(g, kind)
        except Exception as e:  # noqa: BLE001
            acc.count('build_failed:' + type(e).__name__)
            continue
        if any(r.name in BUILTIN_LIKE_NAMES for r in g.rules):
            acc.count('grammars_with_rules_named_like_builtins')
        if kind != 'model':
            acc.count('gen_cases')
        if kind == 'gen-reused':
            acc.count('gen_reused_cases')
        texts = G.gen_inputs(rng, g, g.rules[0].name, 4)
        for text in texts:
            res = check_recording(acc, be, g, text, None)
            check_tagging(acc, be, g, text)
            check_failing(acc, be, g, text, rng)
            check_raising(acc, be, g, text, rng)
            if res is not None:
                check_default_only(acc, be, g, text, res[2].events)
                check_per_instance(acc, be, g, text, rng, res[2].events)
            check_declared(acc, be, g, text, rng)
        for k, v in be.delivery.items():
            acc.count('semantics_delivered_by:' + k, v)
        check_nomemo(acc, rng, kind)
        check_scalars(acc, rng, kind)
        check_keyword_action(acc, rng, kind)
        if i == 0:
            acc.sample({'grammar': L.grammar_text(g), 'inputs': texts,
                        'semantics': ['recording', 'tagging', 'failing', 'raising', 'default_only', 'declared']})


def replay(w, acc):
    g = L.from_json(w['grammar'])
    be = Backend(g, w.get('backend', 'model'))
    rng = random.Random(0)
    sem = w.get('sem')
    if sem == 'recording':
        check_recording(acc, be, g, w['text'], None)
    elif sem == 'tagging':
        check_tagging(acc, be, g, w['text'])
    else:
        for s in range(40):
            rng = random.Random(s)
            check_failing(acc, be, g, w['text'], rng)
            check_raising(acc, be, g, w['text'], rng)
            check_declared(acc, be, g, w['text'], rng)


MANIFEST = {
    'technique': 'runtime monitoring: semantics-object event recorder + offline checks of the event log against a reference model with the same action; exception-identity and call-count monitors',
    'level_text': 'the recording semantics object sees every action invocation of the real parser (both back-ends); its log is checked against REF\'s '
                  'rule-completion table, tagging/failing actions are mirrored in REF, raised exceptions must surface as the same object, @nomemo rules '
                  'must re-run their action per invocation',
    'level_note': 'trusted: vt/ref.py with action hooks, the Recorder probe (answers any rule-like attribute name); generated-parser naming defects '
                  '(C02 known finding) are excluded from AST comparisons here by the same REF trigger',
}
