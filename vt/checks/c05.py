"""C05 — a cut commits within its documented scope and nowhere else.

Oracle: REF with the documented scope rules (option of a choice, optional, closure/join iteration,
rule body; a join commits after each separator), compared online with the real model AND the
generated parser; plus the model-free metamorphic relation "when no failure was committed by a
cut, the grammar with the cuts removed returns the same result".  DESIGN.md section 3/C05.

Base grammars: random non-recursive ones, the nested-choice family, and LEFT-RECURSIVE layered
expression grammars (direct left recursion, several left-recursive options per rule that share
their prefix, optionals / closures / joins after the recursion, bracketed atoms): there a cut is
passed to the right of a rule that is still growing its seed, and the rule is entered again at
the same position after the option that passed the cut failed outside the cut's scope.
"""
from __future__ import annotations

import random

from .. import gen as G
from .. import lang as L
from .. import refdiff as D
from ..common import h64
from .. import ref as R
from ..ref import canon
from ..shrink import kind_sig
from ..tsu import StepHeart, gen_parser

ID = 'C05'
LEVEL = 'exploration'
RULE = ('cases = (grammar variant with cuts, input): a cut-free base grammar (choices, optionals, closures, joins/gathers, nested '
        'choices in groups, rule calls) gets ONE cut inserted at every position of every sequence / option / optional / closure or '
        'join body (then sampled pairs); inputs = derived sentences, all their prefixes, and each prefix continued by every alphabet '
        'token (so that parses fail right after each cut), for first and later iterations; non-trivial = a failure was COMMITTED by '
        'a cut in REF (the cut decided the outcome) or the cut-free grammar and the cut grammar differ; distinct by (variant text, input). '
        'Left-recursive family: cut-free layered expression grammars with DIRECT left recursion (1-2 layers; per layer 1-4 left-recursive '
        'options: two options sharing the prefix `x op y` where the first needs more input after the operand, optional / closure / '
        'nested-choice tails, postfix, index and call forms, unary prefix; atoms with parentheses, lists, dotted numbers; five start '
        'shapes) get cuts inserted the same way at every position of every rule; inputs = sentences, sentences with one token dropped '
        '(a terminator missing after the operand - and the cuts in it - was parsed), all prefixes, prefixes continued by every token; '
        'not run with memoization off (documented to disable left recursion)')
ASSUMPTIONS = [
    'REF implements the documented cut scopes (docs/syntax.rst "~" and the equivalences for [x], {x}, {x}+; joins cut after each separator)',
    'the metamorphic relation is applied only to executions in which REF committed no failure (otherwise an outer alternative may legitimately differ)',
    'left-recursive family: REF implements the documented seed growing (the model C03 trusts); the family stays within direct left recursion '
    '(the recorded C03 finding needs a cycle entered through a non-leader); the lr:* counters come from a probe on REF that takes no part in the verdict',
]
FLOORS = {
    'quick': {'cut_committed': 4000, 'scope:option': 500, 'scope:optional': 200, 'scope:closure-iteration-1': 100,
              'scope:closure-iteration-n': 200, 'scope:join-after-separator': 200, 'scope:under-lookahead': 40, 'gen_compared': 15000,
              'metamorphic_checked': 15000, 'variants': 900, 'variants_with_cut_reached_through_include': 25, 'nested_choice_family': 100, 'nested_choice_family:include': 20, 'nested_choice_family:optwrap-include': 10, 'nested_choice_family:la-semfail': 25, 'config:memoization': 100, 'config:prune_memos_on_cut': 100,
              # left-recursive family (measured minima over seeds 0,1,2,3,7,11: 32 / 16 / 348 / 3863 / 1674 / 2004 / 5208 / 827 / 149)
              'lr_family': 24, 'lr_family:shared-prefix': 8, 'lr_family:variants': 250, 'lr:accepted_after_growth': 2000,
              'lr:cut_committed+grown': 800, 'lr:cut_passed+grown+backtracked+no_commit': 1000,
              'lr:cut_passed_right_of_a_growing_rule': 2500, 'lr:growing_rule_reentered_after_cut': 400,
              'lr:growing_rule_reentered_after_cut+no_commit+accepted': 60},
    'thorough': {'cut_committed': 150000, 'scope:closure-iteration-n': 5000, 'scope:join-after-separator': 5000,
                 'gen_compared': 400000, 'variants': 30000,
                 'lr_family': 400, 'lr_family:shared-prefix': 160, 'lr:accepted_after_growth': 50000,
                 'lr:cut_passed_right_of_a_growing_rule': 60000, 'lr:growing_rule_reentered_after_cut': 10000,
                 'lr:growing_rule_reentered_after_cut+no_commit+accepted': 1500},
}
N_BASE = {'quick': 256, 'thorough': 6400}


def plan(tier, seed):
    k = 16 if tier == 'quick' else 64
    return [{'seed': seed, 'shard': i, 'n': N_BASE[tier] // k, 'tier': tier} for i in range(k)]


F_BASE = dict(G.FEATURES, cut=False, skipto=False, dot=False, const=False, void=False, empty=False, fail=False,
              eof=True, la=True, skipgroup=False, names=True, over=False)


def base_grammar(rng):
    """cut-free grammar rich in the scopes the statement names"""
    def body(depth, calls):
        r = rng.random()
        if depth <= 0 or r < 0.15:
            k = rng.random()
            if k < 0.6:
                return L.Tok(rng.choice('abc'))
            if k < 0.8 and calls:
                # a rule include is its right hand side in place: a cut in there commits the INCLUDING option
                return (L.Include if rng.random() < 0.3 else L.Call)(rng.choice(calls))
            if k < 0.95:
                return L.Pat(rng.choice(['a', 'b+', '[ab]']))
            # a constant that fails to evaluate: a SEMANTIC failure raised inside whatever scopes are open; a cut passed
            # in this rule must still not commit the caller's options (REF computes both readings of its scope)
            return L.Const(rng.choice(R.FAILING_CONSTS))
        sub = lambda: body(depth - 1, calls)  # noqa: E731
        if r < 0.40:
            return L.Seq(tuple(sub() for _ in range(rng.choice([2, 2, 3]))))
        if r < 0.55:
            return L.Group(L.Choice(tuple(sub() for _ in range(rng.choice([2, 2, 3])))))
        if r < 0.65:
            return L.Opt(sub())
        if r < 0.78:
            return (L.Clo if rng.random() < 0.6 else L.PClo)(sub())
        if r < 0.90:
            return L.Join(L.Tok(','), sub(), rng.random() < 0.4, rng.random() < 0.4)
        if rng.random() < 0.6:
            # a lookahead around scopes: a cut in an option / optional / iteration INSIDE it commits that scope (and so
            # decides what the lookahead answers); nothing of it may reach the scope the lookahead stands in
            return (L.LA if rng.random() < 0.5 else L.NLA)(L.Group(sub()))
        return L.Group(sub())

    nr = rng.choice([1, 2, 2, 3])
    names = ['start', 'x', 'y'][:nr]
    rules = []
    for i, n in enumerate(names):
        calls = names[i + 1:]
        b = L.Choice(tuple(body(2, calls) for _ in range(rng.choice([2, 2, 3])))) if rng.random() < 0.6 else body(3, calls)
        rules.append(L.Rule(n, b))
    return L.Grammar(rules)


def positions(e, path=()):
    """all (path, index) places where a cut can be inserted: into every Seq, and around single elements of
    options / optionals / closure and join bodies / rule bodies (treated as 1-element sequences)"""
    out = []
    if isinstance(e, L.Seq):
        for i in range(len(e.items) + 1):
            out.append((path, i))
    kids = L.children(e)
    for ci, c in enumerate(kids):
        if not isinstance(c, L.Seq) and isinstance(e, (L.Choice, L.Opt, L.Clo, L.PClo, L.Join, L.Group)) \
                and not (isinstance(e, L.Join) and ci == 0):
            out.append((path + (ci,), 'wrap0'))
            out.append((path + (ci,), 'wrap1'))
        out.extend(positions(c, path + (ci,)))
    return out


def insert(e, path, idx):
    if not path:
        if idx == 'wrap0':
            return L.Seq((L.Cut(), e))
        if idx == 'wrap1':
            return L.Seq((e, L.Cut()))
        items = list(e.items)
        items.insert(idx, L.Cut())
        return L.Seq(tuple(items))
    kids = L.children(e)
    kids[path[0]] = insert(kids[path[0]], path[1:], idx)
    return L.rebuild(e, kids)


def variants(rng, g, cap):
    allpos = []
    for ri, r in enumerate(g.rules):
        if not isinstance(r.body, L.Seq):
            allpos.append((ri, (), 'wrap0'))
            allpos.append((ri, (), 'wrap1'))
        for path, idx in positions(r.body):
            allpos.append((ri, path, idx))
    rng.shuffle(allpos)
    out = []
    for ri, path, idx in allpos[:cap]:
        rules = list(g.rules)
        rules[ri] = L.Rule(rules[ri].name, G.normalise(insert(rules[ri].body, path, idx)))
        out.append(L.Grammar(rules))
    # a few pairs
    for _ in range(min(3, len(allpos) // 2)):
        (r1, p1, i1), (r2, p2, i2) = rng.sample(allpos, 2)
        if r1 == r2:
            continue
        rules = list(g.rules)
        rules[r1] = L.Rule(rules[r1].name, G.normalise(insert(rules[r1].body, p1, i1)))
        rules[r2] = L.Rule(rules[r2].name, G.normalise(insert(rules[r2].body, p2, i2)))
        out.append(L.Grammar(rules))
    return out


def inputs_for(rng, g, cap):
    seen = []
    body = g.rules[0].body
    for _ in range(6):
        s = G.derive(rng, g, body)
        for k in range(len(s) + 1):
            seen.append(s[:k])
            for t in 'abc,':
                seen.append(s[:k] + t)
                if rng.random() < 0.3:
                    seen.append(s[:k] + ' ' + t + s[k:])
    out = list(dict.fromkeys(seen))
    rng.shuffle(out)
    return out[:cap]


def plain(parse, g, text):
    from tatsu.exceptions import FailedParse
    try:
        return ('ok', canon(parse(text, heart=StepHeart(D.step_budget(g, text)))))
    except FailedParse:
        return ('fail',)
    except RecursionError:
        return ('EXC', 'RecursionError')
    except Exception as e:  # noqa: BLE001
        return ('EXC', type(e).__name__, str(e)[:80])


PARSE_CONFIGS = [{}, {}, {}, {'memoization': False}, {'prune_memos_on_cut': False}, {'perlinememos': 0.01}]
LR_PARSE_CONFIGS = [c for c in PARSE_CONFIGS if c.get('memoization', True)]


def check_variant(acc, g0, gv, texts, base_case, origin, family=None):
    # the cut must commit under every memoization configuration; left-recursive grammars are not run with memoization off
    # (docs/directives.rst: setting memoization to False disables left recursion)
    configs = LR_PARSE_CONFIGS if family == 'lr' else PARSE_CONFIGS
    cfg = configs[h64('C05cfg', L.grammar_text(gv)) % len(configs)]
    acc.count('config:' + ('+'.join(sorted(cfg)) or 'defaults'))
    case = (LRCase if family == 'lr' else D.Case)(gv, 'start', parse_settings=cfg)
    acc.count('variants')
    if any(isinstance(x, L.Include) and any(isinstance(y, L.Cut) for y in L.walk(gv.rule(x.name).body))
           for r in gv.rules for x in L.walk(r.body)):
        acc.count('variants_with_cut_reached_through_include')
    if case.model is None:
        acc.evaluations += 1
        acc.violation('exc:build:' + case.build_error[0], f'model construction failed: {case.build_error}',
                      {'grammar': L.to_json(gv), 'grammar_text': L.grammar_text(gv), 'text': '', 'base': L.to_json(g0)})
        return
    gen_cls = None
    plain_model = None
    runaway = 0
    for idx, text in enumerate(texts):
        tag, a, b, r = D.compare(case, text)
        acc.evaluations += 1
        if tag == 'ref-budget':
            acc.count('ref_budget')
            continue
        if family == 'lr':
            lr_observe(acc, a, r)
        if tag in ('exc:StepBudget', 'exc:RecursionError'):
            runaway += 1
        if r.cut_failures:
            acc.count('cut_committed')
            for k, v in r.cut_scopes.items():
                acc.count('scope:' + k, v)
            acc.nontriv(L.grammar_text(gv), text)
        if tag is not None:
            g2, t2 = D.shrink_case(gv, 'start', text, tag, parse_settings=cfg)
            c2 = D.Case(g2, 'start', parse_settings=cfg)
            tag2, a2, b2, r2 = D.compare(c2, t2)
            if tag2 != tag:
                g2, t2, a2, b2, r2 = gv, text, a, b, r
            scopes = '+'.join(sorted(r2.cut_scopes)) or 'no-commit'
            cfgname = '+'.join(sorted(cfg)) or 'defaults'
            more = ''
            if r2.lr_growth:
                more += f' [left recursion: seed growing at {sorted(r2.lr_heads)}]'
            if r2.cut_failures == 0:
                # no failure was committed: the statement's last clause applies as well - say what the cut-free grammar gives
                b02 = D.Case(strip_cuts(g2), 'start', parse_settings=cfg).tatsu(t2)
                more += (f' [no failure was committed by a cut; the same grammar WITHOUT the cuts gives {b02}'
                         + (': the cut changed the result of an input the committed path parses]' if b02 != b2 else ']'))
            acc.violation(f'{tag}/scopes:{scopes}/{kind_sig(g2)}' + ('/lr-grown' if r2.lr_growth else '')
                          + ('' if not cfg else f'/config:{cfgname}'),
                          f'cut semantics differ from the documented scope rules ({tag}): grammar {L.grammar_text(g2).strip()!r} '
                          f'input {t2!r} REF={a2} TATSU={b2}' + more,
                          D.witness(g2, 'start', t2, a2, b2, r2, origin=origin))
            if runaway >= 2:
                break
            continue
        # metamorphic relation against the cut-free grammar (real code both sides)
        if r.cut_failures == 0:
            b0 = base_case.tatsu(text)
            acc.count('metamorphic_checked')
            if b0 != b:
                acc.violation(f'metamorphic/{kind_sig(gv)}',
                              f'no failure was committed by a cut, yet removing the cuts changes the result: {L.grammar_text(gv).strip()!r} '
                              f'input {text!r} WITH={b} WITHOUT={b0}',
                              D.witness(gv, 'start', text, b0, b, r, origin=origin, base=L.to_json(g0)))
        else:
            b0 = base_case.tatsu(text)
            if b0 != b:
                acc.count('cut_changed_outcome')
        # generated parser
        if gen_cls is None:
            try:
                plain_model = L.to_model(gv, name='T')
                gen_cls = gen_parser(plain_model)[0]
            except Exception as e:  # noqa: BLE001
                acc.violation('gen-build:' + type(e).__name__, f'code generation failed: {e} for {L.grammar_text(gv)!r}',
                              D.witness(gv, 'start', text, a, b, r, origin=origin))
                gen_cls = False
        if gen_cls and (family != 'lr' or idx % 3 == 0):
            m_out = plain(lambda t, **kw: plain_model.parse(t, **kw, **cfg), gv, text)
            g_out = plain(lambda t, **kw: gen_cls().parse(t, **kw, **cfg), gv, text)
            acc.count('gen_compared')
            if m_out != g_out:
                # naming defects of generated code are C02's business; here only accept/reject (the cut's effect)
                if m_out[0] != g_out[0]:
                    acc.violation(f'gen-accept/{"+".join(sorted(r.cut_scopes)) or "no-commit"}',
                                  f'generated parser and model disagree on accept/reject with cuts: {L.grammar_text(gv).strip()!r} '
                                  f'input {text!r} MODEL={m_out} GEN={g_out}',
                                  D.witness(gv, 'start', text, m_out, g_out, r, origin=origin))
                else:
                    acc.count('gen_ast_differs_same_accept')


def strip_cuts(g):
    def rw(e):
        kids = [rw(k) for k in L.children(e) if not isinstance(k, L.Cut)]
        if isinstance(e, L.Seq):
            return kids[0] if len(kids) == 1 else L.Seq(tuple(kids)) if kids else L.Void()
        return L.rebuild(e, kids) if L.children(e) else e
    return L.Grammar([L.Rule(r.name, G.normalise(rw(r.body)), r.decorators, r.params, r.kwparams, r.base) for r in g.rules],
                     dict(g.directives), tuple(g.keywords))


def nested_choice_grammar(rng):
    """a choice nested in a group as ONE option of an outer choice; the inner option reaches a cut directly, through a
    rule include (the cut is then in place: it commits the INNER choice) or through a rule call (the cut stays in the
    rule); the outer options share the prefix so that the outer choice must (or must not) try them after the cut"""
    T = L.Tok
    t1, t2, t3, t4 = rng.sample('abcd', 4)
    how = rng.choice(['include', 'include', 'call', 'inline'])
    cutseq = L.Seq((T(t1), L.Cut(), T(t2)))
    a1 = {'include': L.Include('inc'), 'call': L.Call('inc'), 'inline': cutseq}[how]
    if rng.random() < 0.3:
        a1 = L.Seq((a1, L.Opt(T(t3))))
    if rng.random() < 0.35:
        # an optional directly around another scope ([ {x} ], [ [x] ], [ s.{x} ]): the inner scope fails after the cut, the
        # outer optional has seen no cut and matches nothing
        inner_scope = rng.choice([L.Clo(a1), L.Opt(a1), L.Join(T(','), a1, False, rng.random() < 0.5), L.Group(L.Clo(a1))])
        body = L.Seq((L.Opt(inner_scope), rng.choice([L.Clo(L.Dot()), L.Pat('.*'), L.Seq((T(t1), T(t4)))])))
        rules = [L.Rule('start', L.Call('body') if rng.random() < 0.5 else L.Seq((L.Call('body'), L.EOF()))), L.Rule('body', body)]
        if how != 'inline':
            rules.append(L.Rule('inc', cutseq))
        return L.Grammar(rules), 'optwrap-' + how
    a2 = rng.choice([T(t3), L.Seq((T(t1), T(t4))), L.Seq((T(t3), T(t1)))])
    inner = L.Group(L.Choice((a1, a2) if rng.random() < 0.7 else (a2, a1)))
    if rng.random() < 0.25:
        inner = L.Group(L.Choice((inner, T(t4))))      # one more level of nesting
    outs = [inner, L.Seq((T(t1), T(t4))), rng.choice([T(t3), L.Seq((T(t1), T(t3))), L.Seq((T(t4), T(t2)))])]
    if rng.random() < 0.5:
        outs = [outs[1], outs[0], outs[2]] if rng.random() < 0.5 else [outs[2], outs[0], outs[1]]
    body = L.Choice(tuple(outs[:rng.choice([2, 3])] if outs[0] is inner or rng.random() < 0.5 else outs))
    if not any(o is inner for o in body.opts):
        body = L.Choice((inner, *body.opts))
    shape = rng.choice(['plain', 'eof', 'closure', 'optional'])
    if shape == 'plain':
        start = L.Call('body')
    elif shape == 'eof':
        start = L.Seq((L.Call('body'), L.EOF()))
    elif shape == 'closure':
        start = L.Seq((L.PClo(L.Call('body')), L.EOF()))
    else:
        start = L.Seq((L.Opt(L.Call('body')), L.Clo(L.Dot())))
    rules = [L.Rule('start', start), L.Rule('body', body)]
    if how != 'inline':
        rules.append(L.Rule('inc', cutseq))
    return L.Grammar(rules), how


def lookahead_semfail_grammar(rng):
    """a lookahead whose body passes a cut and then meets a SEMANTIC failure (a constant that fails to evaluate) inside an
    inner scope; the lookahead stands at the head of one option of an outer choice.  Whatever the lookahead answers, its cut
    and its states must be gone afterwards: the outer choice still tries its other options"""
    T = L.Tok
    t1, t2, t3, t4 = rng.sample('abcd', 4)
    fc = L.Const(rng.choice(R.FAILING_CONSTS))
    inner = rng.choice([L.Group(L.Choice((fc, T(t2)))), L.Opt(fc), L.Group(L.Choice((T(t2), fc))), L.Clo(L.Seq((T(t2), fc))),
                        L.Opt(L.Seq((T(t2), fc)))])
    body = L.Seq((T(t1), L.Cut(), inner) if rng.random() < 0.7 else (T(t1), inner, L.Cut()))
    la = (L.NLA if rng.random() < 0.6 else L.LA)(L.Group(body))
    opts = [L.Seq((la, T(t1), T(t3))), L.Seq((T(t1), T(t4)))]
    if rng.random() < 0.4:
        opts.append(L.Seq((T(t1), T(t2))))
    start = L.Choice(tuple(opts))
    if rng.random() < 0.5:
        return L.Grammar([L.Rule('start', L.Seq((L.Call('body'), L.EOF()))), L.Rule('body', start)]), 'la-semfail'
    return L.Grammar([L.Rule('start', start)]), 'la-semfail'


def nested_choice_inputs(rng):
    import itertools
    out = []
    for n in range(0, 4):
        for t in itertools.product('abcd', repeat=n):
            out.append(' '.join(t))
    extra = [' '.join(rng.choice('abcd') for _ in range(rng.choice([4, 5]))) for _k in range(40)]
    rng.shuffle(out)
    return out[:70] + extra


def run_nested(desc, acc):
    for i in range(desc['n'] // 2 + 1):
        rng = random.Random(h64('C05', 'nested', desc['seed'], desc['shard'], i))
        gv, how = nested_choice_grammar(rng) if i % 4 != 3 else lookahead_semfail_grammar(rng)
        gv = L.Grammar([L.Rule(r.name, G.normalise(r.body)) for r in gv.rules])
        g0 = strip_cuts(gv)
        base_case = D.Case(g0, 'start')
        if base_case.model is None:
            acc.count('base_build_failed')
            continue
        acc.count('nested_choice_family')
        acc.count('nested_choice_family:' + how)
        check_variant(acc, g0, gv, nested_choice_inputs(rng), base_case, {'shard': desc['shard'], 'i': i, 'family': 'nested-choice'})


# ------------------------------------------------------------------ left-recursive base grammars
LR_OPS = ['+', '-', '*', '/']
N_LR = {'quick': 2, 'thorough': 8}          # base grammars per shard
LR_VARIANTS = {'quick': 9, 'thorough': 14}
LR_TEXTS = {'quick': 44, 'thorough': 70}


def lr_base_grammar(rng):
    """cut-free layered expression grammar whose layers are DIRECTLY left recursive (each rule calls itself, lower layers and,
    inside brackets, the top layer - never a higher layer at its own start position), with several left-recursive options per
    rule: options that share the operator prefix and differ in what follows the operand (e = e '+' t ';' | e '+' t | t),
    options with optionals / closures / joins / nested choices after the recursion, postfix, index and call forms; atoms
    with parentheses, lists and dotted numbers; different start shapes.  -> (grammar, tags)"""
    T, C, S = L.Tok, L.Call, L.Seq
    nlayers = rng.choice([1, 1, 2])
    ops = rng.sample(LR_OPS, 4)
    layers = ['e', 'm'][:nlayers]
    tags = set()
    rules = []
    for i, x in enumerate(layers):
        nxt = layers[i + 1] if i + 1 < nlayers else 't'
        op, op2 = ops[2 * i], ops[2 * i + 1]

        def tail(kind, o, nxt=nxt, op2=op2):
            return {
                'bin': lambda: (T(o), C(nxt)),
                'term': lambda: (T(o), C(nxt), T(';')),
                'optmark': lambda: (T(o), L.Opt(T('!')), C(nxt)),
                'optsuffix': lambda: (T(o), C(nxt), L.Opt(S((T('!'), C(nxt))))),
                'clo': lambda: (T(o), C(nxt), L.Clo(S((T('.'), C(nxt))))),
                'postfix': lambda: (T('!'),),
                'index': lambda: (T('['), C('e'), T(']')),
                'call': lambda: (T('('), L.Join(T(','), C('e'), False, rng.random() < 0.5), T(')')),
                'opgroup': lambda: (L.Group(L.Choice((T(o), T(op2)))), C(nxt)),
            }[kind]()

        lr = []
        n_lr = rng.choice([1, 2, 2, 2, 3])
        if n_lr >= 2 and rng.random() < 0.7:
            # two left-recursive options with the same prefix `x op nxt`: the first one needs more input after the operand
            extra = rng.choice([(T(';'),), (T('!'),), (T('.'), C(nxt)), (L.PClo(T('!')),), (L.Opt(T('!')), T(';')),
                                (T('['), C('e'), T(']'))])
            pair = [S((C(x), T(op), C(nxt), *extra)), S((C(x), T(op), C(nxt)))]
            if rng.random() < 0.15:
                pair.reverse()
            lr += pair
            tags.add('shared-prefix')
        else:
            lr.append(S((C(x), *tail(rng.choice(['bin', 'term', 'optmark', 'optsuffix', 'clo', 'opgroup']), op))))
            if n_lr >= 2:
                lr.append(S((C(x), *tail(rng.choice(['bin', 'term', 'optmark', 'clo']), op2))))
        if n_lr >= 3 or rng.random() < 0.2:
            k = rng.choice(['postfix', 'index', 'call', 'bin'])
            lr.insert(rng.randrange(len(lr) + 1), S((C(x), *tail(k, op2))))
            tags.add('tail:' + k)
        opts = list(lr)
        if rng.random() < 0.2:
            opts.insert(rng.choice([0, len(opts)]), S((T('-'), C(x))))      # unary prefix, right recursive
            tags.add('unary')
        opts.append(C(nxt))
        rules.append(L.Rule(x, L.Choice(tuple(opts))))
    atom = []
    if rng.random() < 0.85:
        atom.append(S((T('('), C('e'), T(')'))))
        tags.add('parens')
    if rng.random() < 0.25:
        atom.append(S((T('['), L.Join(T(','), C('e'), True, rng.random() < 0.5), T(']'))))
        tags.add('list-atom')
    atom.append(S((C('num'), L.Clo(S((T('.'), C('num')))))) if rng.random() < 0.2 else C('num'))
    rules.append(L.Rule('t', L.Choice(tuple(atom)) if len(atom) > 1 else atom[0]))
    rules.append(L.Rule('num', L.Pat(r'\d')))
    k = rng.random()
    if k < 0.4:
        start = S((C('e'), L.EOF()))
    elif k < 0.6:
        start = C('e')
    elif k < 0.75:
        start = S((L.PClo(S((C('e'), T(';')))), L.EOF()))
    elif k < 0.9:
        start = S((L.Join(T(','), C('e'), True, rng.random() < 0.5), L.EOF()))
    else:
        start = S((C('e'), L.Opt(T(';')), L.EOF()))
    if nlayers > 1:
        tags.add('two-layers')
    return L.Grammar([L.Rule('start', start)] + rules), tags


def lr_min_cost(g):
    """rule -> length in tokens of a shortest sentence (fixpoint); used to end derivations"""
    INF = 10 ** 6
    cost = {r.name: INF for r in g.rules}

    def c(e):
        if isinstance(e, (L.Tok, L.Pat)):
            return 1
        if isinstance(e, L.Call):
            return cost[e.name]
        if isinstance(e, L.Seq):
            return min(INF, sum(c(i) for i in e.items))
        if isinstance(e, L.Choice):
            return min(c(o) for o in e.opts)
        if isinstance(e, (L.Opt, L.Clo)) or (isinstance(e, L.Join) and not e.positive):
            return 0
        if isinstance(e, (L.PClo, L.Group, L.Join)):
            return c(e.e)
        return 0
    changed = True
    while changed:
        changed = False
        for r in g.rules:
            v = c(r.body)
            if v < cost[r.name]:
                cost[r.name] = v
                changed = True
    return c


def lr_derive(rng, g, e, cost, depth=0):
    """a sentence of the (cut-free) grammar as a list of tokens; beyond a depth the cheapest alternatives are taken"""
    d = depth + 1
    deep = depth > 5
    if isinstance(e, L.Tok):
        return [e.s]
    if isinstance(e, L.Pat):
        return [rng.choice('123')]
    if isinstance(e, L.Call):
        return lr_derive(rng, g, g.rule(e.name).body, cost, d)
    if isinstance(e, L.Seq):
        return [t for i in e.items for t in lr_derive(rng, g, i, cost, d)]
    if isinstance(e, L.Choice):
        o = min(e.opts, key=cost) if deep or rng.random() < 0.3 else rng.choice(e.opts)
        return lr_derive(rng, g, o, cost, d)
    if isinstance(e, L.Group):
        return lr_derive(rng, g, e.e, cost, d)
    if isinstance(e, L.Opt):
        return lr_derive(rng, g, e.e, cost, d) if not deep and rng.random() < 0.5 else []
    if isinstance(e, (L.Clo, L.PClo)):
        n = (1 if isinstance(e, L.PClo) else 0) if deep else rng.choice([0, 1, 1, 2] if isinstance(e, L.Clo) else [1, 1, 2])
        return [t for _ in range(n) for t in lr_derive(rng, g, e.e, cost, d)]
    if isinstance(e, L.Join):
        n = (1 if e.positive else 0) if deep else rng.choice([1, 1, 2, 3] if e.positive else [0, 1, 2])
        out = []
        for i in range(n):
            if i:
                out += lr_derive(rng, g, e.sep, cost, d)
            out += lr_derive(rng, g, e.e, cost, d)
        return out
    return []


def lr_inputs(rng, g, cap):
    """sentences of the cut-free grammar; each with one token dropped (an operand's terminator goes missing AFTER the operand
    - and the cuts in it - was parsed), every prefix, every prefix continued by every token of the alphabet, a foreign token
    put in the middle; written without blanks, some with blanks"""
    cost = lr_min_cost(g)
    alphabet = sorted({x.s for r in g.rules for x in L.walk(r.body) if isinstance(x, L.Tok)}) + ['1']
    whole, near, edge = [], [], []
    for _ in range(8):
        s = lr_derive(rng, g, g.rules[0].body, cost)
        if len(s) > 14:
            continue
        whole.append(s)
        for k in range(len(s)):
            near.append(s[:k] + s[k + 1:])
            edge.append(s[:k])
            for t in alphabet:
                edge.append(s[:k] + [t])
                if rng.random() < 0.15:
                    near.append(s[:k] + [t] + s[k:])
        for t in alphabet:
            edge.append(s + [t])
    out = []
    for group, share in ((whole, cap), (near, cap // 2), (edge, cap)):
        rng.shuffle(group)
        seen = set(out)
        for s in group:
            text = (' ' if rng.random() < 0.15 else '').join(s)
            if text not in seen:
                seen.add(text)
                out.append(text)
                share -= 1
                if share <= 0 or len(out) >= cap:
                    break
    return out[:cap]


class ObsRef(R.Ref):
    """REF plus one coverage probe (no part of the oracle): how often a rule under seed growing was entered AGAIN at its growing
    position in the same growing round after a cut had been passed further right (the seed in use is older than the cut)"""

    def __init__(self, *a, **kw):
        super().__init__(*a, **kw)
        self.round = {}            # growing key -> [seed hits in this round, cut passed to the right after a hit]
        self.seed_reused_after_cut = 0
        self.cut_during_growth = 0

    def rule_body(self, r, pos):
        key = (r.name, pos)
        if key in self.growing:
            self.round[key] = [0, False]
        return super().rule_body(r, pos)

    def call(self, name, pos):
        p = pos if name.lstrip('_')[:1].isupper() else self.skip(pos)
        seed = self.growing.get((name, p))
        if seed is not None and seed['res'] is not None:
            st = self.round.setdefault((name, p), [0, False])
            if st[1]:
                self.seed_reused_after_cut += 1
            st[0] += 1
        return super().call(name, pos)

    def _ev(self, e, pos, st):
        if isinstance(e, L.Cut):
            for (n, p), seed in self.growing.items():
                if p < pos and seed['res'] is not None:
                    self.cut_during_growth += 1
                    rs = self.round.get((n, p))
                    if rs and rs[0]:
                        rs[1] = True
        return super()._ev(e, pos, st)


class LRCase(D.Case):
    def ref(self, text, max_steps=30000):
        r = ObsRef(self.g, text, settings=self.settings, max_steps=max_steps)
        try:
            end, val = r.parse(self.start)
            return ('ok', end, canon(val)), r
        except R.PFail:
            return ('fail',), r
        except (R.RefBudget, RecursionError):
            return ('budget',), r


def lr_observe(acc, a, r):
    """what the left-recursive family reached (evidence + floors)"""
    if r.lr_growth and a[0] == 'ok':
        acc.count('lr:accepted_after_growth')
        if 'Cut' in r.features:
            acc.count('lr:cut_passed+grown+accepted')
            if r.cut_failures == 0 and r.backtracks:
                acc.count('lr:cut_passed+grown+backtracked+no_commit')
    if r.lr_growth and r.cut_failures:
        acc.count('lr:cut_committed+grown')
    if getattr(r, 'cut_during_growth', 0):
        acc.count('lr:cut_passed_right_of_a_growing_rule')
    if getattr(r, 'seed_reused_after_cut', 0):
        acc.count('lr:growing_rule_reentered_after_cut')
        if a[0] == 'ok' and r.cut_failures == 0:
            acc.count('lr:growing_rule_reentered_after_cut+no_commit+accepted')


def run_lr(desc, acc):
    tier = desc['tier']
    for i in range(N_LR[tier]):
        rng = random.Random(h64('C05', 'lr', desc['seed'], desc['shard'], i))
        g0, tags = lr_base_grammar(rng)
        g0 = L.Grammar([L.Rule(r.name, G.normalise(r.body)) for r in g0.rules])
        lrec, _graph, _hidden, _nul = R.left_recursive_rules(g0)
        sccs = R.left_sccs(g0)
        if any(len(sccs[n]) > 1 for n in lrec):
            acc.count('lr_family:indirect_skipped')      # by construction never: the family is DIRECT left recursion
            continue
        base_case = D.Case(g0, 'start')
        if base_case.model is None:
            acc.count('base_build_failed')
            continue
        acc.count('lr_family')
        for t in sorted(tags):
            acc.count('lr_family:' + t)
        vs = variants(rng, g0, LR_VARIANTS[tier])
        texts = lr_inputs(rng, g0, LR_TEXTS[tier])
        for gv in vs:
            acc.count('lr_family:variants')
            check_variant(acc, g0, gv, texts, base_case, {'shard': desc['shard'], 'i': i, 'family': 'left-recursive'},
                          family='lr')
        if i == 0 and vs:
            acc.sample({'family': 'left-recursive', 'base': L.grammar_text(g0), 'variant': L.grammar_text(vs[0]), 'inputs': texts[:8]})


def run_shard(desc, acc):
    tier = desc['tier']
    run_nested(desc, acc)
    run_lr(desc, acc)
    for i in range(desc['n']):
        rng = random.Random(h64('C05', desc['seed'], desc['shard'], i))
        g0 = base_grammar(rng)
        g0 = L.Grammar([L.Rule(r.name, G.normalise(r.body)) for r in g0.rules])
        base_case = D.Case(g0, 'start')
        if base_case.model is None:
            acc.count('base_build_failed')
            continue
        vs = variants(rng, g0, 5 if tier == 'quick' else 8)
        texts = inputs_for(rng, g0, 40 if tier == 'quick' else 60)
        for gv in vs:
            check_variant(acc, g0, gv, texts, base_case, {'shard': desc['shard'], 'i': i})
        if i == 0 and vs:
            acc.sample({'base': L.grammar_text(g0), 'variant': L.grammar_text(vs[0]), 'inputs': texts[:8]})


def replay(w, acc):
    g = L.from_json(w['grammar'])
    case = D.Case(g, w.get('start', 'start'))
    tag, a, b, r = D.compare(case, w['text'])
    acc.evaluations += 1
    if tag and tag != 'ref-budget':
        acc.violation(f'{tag}/replay', f'cut semantics differ ({tag}): REF={a} TATSU={b}', w)


MANIFEST = {
    'technique': 'runtime monitoring: reference-model oracle for cut scopes over systematic cut insertion + metamorphic cut-free relation + model/generated differential',
    'level_text': 'cuts are inserted systematically at every position of every scope kind of generated grammars; inputs are built to fail right after '
                  'each cut in first and later iterations; every execution of the model is compared with REF and with the generated parser, and with '
                  'the cut-free grammar when no failure was committed; the base grammars include directly left-recursive expression grammars, where cuts '
                  'are passed while a seed is being grown',
    'level_note': 'trusted: vt/ref.py cut scopes (docs/syntax.rst); evidence lists how many failures were committed per scope kind; held = no '
                  'disagreement on those executions',
}
