"""C11 — reserved words are never accepted where a name is required.

Oracles: (1) the event log of a recording semantics object: no @name rule ever completes with a
value that is a declared keyword (upper-cased under ignorecase); (2) the metamorphic pair
"grammar with vs without the @name decorators / @@keyword lines"; (3) REF with the keyword check as
a failing predicate at the rule's exit; (4) model vs generated parser.  DESIGN.md section 3/C11.

Two further dimensions (sixth round):

* INPUT KIND.  `parse()` takes the text as a plain str or as a ready-made input object.  Every other text of a case is
  parsed a second time with the text handed over as `TextLines(text)`, legacy `tatsu.buffering.Buffer(text)`, the same
  two built with the parse-time settings, and every text class the GENERATED module itself defines (`TText`,
  `TBuffer`, with and without the parse-time settings).  A ready-made object tokenizes by the configuration IT carries
  (case of tokens, nameguard), which may differ from the parser's; the keyword comparison is the parser's business
  and follows the parser's ignorecase (directive or parse-time setting) whatever object brings the text.  REF is run
  with exactly that split (`ignorecase`/`nameguard` = what the object carries, `keyword_ignorecase` = the parser's),
  the event log is read on the model AND on the generated parser, and model and generated parser are compared under
  the same input kind.

* KEYWORD SWEEP.  Grammars that declare 1..60 keywords (reserved-word lists of real languages, synthetic short and
  long words, mixed case, non-ASCII, quoted non-identifier spellings), declared on ONE `@@keyword` line, on one line
  each, in chunks (all three through the grammar-text route) or given to the model constructor (object route).
  EVERY declared keyword is tried as a name (alone or after a plain identifier), together with a case variant, a
  prefix and a suffix, each under one input kind in rotation, on the model and on the generated parser.
"""
from __future__ import annotations

import random
import types

from .. import gen as G
from .. import lang as L
from .. import refdiff as D
from ..common import h64
from ..ref import canon, ref_run
from ..refdiff import step_budget
from ..semprobe import Recorder
from ..tsu import WRAP_START, StepHeart, wrapped

ID = 'C11'
LEVEL = 'exploration'
RULE = ('cases = (grammar with 1-3 @@keyword declarations (words, quoted, mixed case, non-ASCII case pairs) and @name rules over identifier '
        'patterns used in choices, closures, lookaheads, with keyword-token alternatives AFTER the name alternative; input of words drawn from '
        'keywords, their prefixes/suffixes, case variants and plain identifiers; ignorecase off / directive / parse-time setting); '
        'non-trivial = some @name rule matched text that IS a keyword (so the rejection decided something); distinct by (grammar text, settings, input). '
        'INPUT KINDS: every other text of a case is parsed again with the text handed over as a ready-made input object - TextLines(text), '
        'tatsu.buffering.Buffer(text), both built with the parse-time settings, and every text class the generated module defines (with and '
        'without the settings), kinds in rotation - on the wrapped model (REF with tokens matched as the object is configured, keywords compared '
        'as the parser is configured), on the model and on the generated parser with the event log; distinct by (grammar text, settings, input, kind). '
        'KEYWORD SWEEP: per shard 6 (quick) grammars with 1..60 declared keywords (reserved words of real languages as written/upper/capitalized, '
        'synthetic 1-14 character mixed-case words, non-ASCII words, quoted non-identifier spellings) declared on one @@keyword line / one line '
        'each / chunks (grammar-text route) or passed to the model constructor; EVERY declared keyword tried as a name input, plus case variants, '
        'prefixes, suffixes, each under one input kind (str included) in rotation, on the model and on the generated parser')
ASSUMPTIONS = [
    'REF: an @name rule whose value, as text (upper-cased under ignorecase), is a declared keyword fails like a syntax mismatch at rule exit',
    'the undecorated grammar is the reference for "accepted exactly as the undecorated rule would accept it" on inputs where no @name rule '
    'produced a keyword value in the undecorated run',
    'a ready-made input object (TextLines, Buffer, a generated text class) matches tokens by the configuration IT was built with (ignorecase, '
    'nameguard; the defaults when built from the text alone; the grammar directives for a generated text class); the keyword comparison of an '
    '@name rule follows the PARSER configuration (directive or parse-time ignorecase) whatever object brings the text.  REF takes the two as '
    'separate settings (ignorecase / keyword_ignorecase); with a plain str they are one setting',
    'the text classes of a generated module are found by duck typing (classes defined by the module that have newcursor()); if a generated '
    'module defines none, those kinds are noted as unobserved (no floor on them)',
]
FLOORS = {
    'quick': {'grammars_with_isname_spelling': 100, 'grammars_where_a_lookahead_over_the_name_rule_decides': 60, 'keyword_rejections': 2000, 'alternative_after_rejection': 700, 'nonkeyword_same_as_undecorated': 4000,
              'ignorecase_directive': 1500, 'ignorecase_setting': 1500, 'gen_compared': 6000, 'name_events': 9000,
              'case_variant_rejected': 800, 'in_lookahead': 250, 'in_closure': 1000, 'uppercase_name_rule': 1500, 'reused_after_flip': 6000, 'based_name_rule': 1200,
              'gen_name_events': 9000,
              # input kinds
              'kind_probes': 6000, 'kind_gen_compared': 6000, 'kind_keyword_rejections': 2000, 'input_kind:textlines': 700, 'input_kind:buffer': 700,
              'input_kind:textlines_set': 700, 'input_kind:buffer_set': 700, 'bare_input_under_ignorecase': 700,
              'bare_input_case_insensitive_rejection': 300,
              # keyword sweep
              'sweep_cases': 80, 'sweep_cases_10_or_more_keywords': 35, 'sweep_words_of_long_lists': 1500, 'sweep_rejections': 1000,
              'sweep_case_variant_rejected': 300, 'sweep_max_keywords': 40, 'sweep_cases_with_quoted_keyword': 30,
              'sweep_decl:one': 8, 'sweep_decl:several': 8, 'sweep_decl:chunks': 8, 'sweep_decl:object': 8},
    'thorough': {'keyword_rejections': 80000, 'nonkeyword_same_as_undecorated': 150000, 'gen_compared': 150000,
                 'kind_probes': 150000, 'bare_input_case_insensitive_rejection': 8000, 'sweep_cases': 2400,
                 'sweep_words_of_long_lists': 40000, 'sweep_rejections': 25000, 'sweep_max_keywords': 60},
}
N = {'quick': 1600, 'thorough': 40000}
PEAK_COUNTERS = ('sweep_max_keywords',)

KEYWORD_POOL = ['if', 'then', 'end', 'For', 'WHILE', 'in', 'straße', 'ınd', 'x1', 'no_t']
OTHER_WORDS = ['a', 'iff', 'i', 'thenx', 'en', 'foo', 'IF', 'If', 'iF', 'END', 'for', 'FOR', 'while', 'STRASSE', 'Straße', 'IND',
               'x', 'x12', 'no_', 'no_t2', 'b7']
IDENT_PATS = [r'[a-zA-Z_]\w*', r'\w+', r'[^\W\d]\w*', r'[a-zıßA-Z]+']


def plan(tier, seed):
    k = 16 if tier == 'quick' else 64
    return [{'seed': seed, 'shard': i, 'n': N[tier] // k, 'nsweep': N_SWEEP[tier] // k, 'tier': tier} for i in range(k)]


def gen_case(rng, kws=None, idpats=IDENT_PATS):
    """kws=None: the generic family (1-3 keywords of KEYWORD_POOL); a keyword list: the sweep family"""
    sweep = kws is not None
    if not sweep:
        kws = tuple(rng.sample(KEYWORD_POOL, rng.choice([1, 2, 3])))
    idpat = rng.choice(idpats)
    T = L.Tok
    # a token-style (upper-case) @name rule does not skip whitespace at its entry: put a void before each reference
    upper = rng.random() < 0.35
    names = {'ident': 'IDENT', 'other': 'Other'} if upper else {'ident': 'ident', 'other': 'other'}

    def C(name):
        if upper:
            return L.Group(L.Seq((L.Void(), L.Call(names[name]))))
        return L.Call(names[name])
    # keyword-token alternatives: all keywords in the generic family, three of them in a sweep
    kwtok = [T(k) for k in (rng.sample(kws, min(3, len(kws))) if sweep else kws)]
    shape = rng.choice(['stmt', 'closure', 'lookahead', 'choice_after', 'named', 'gather', 'two_names'])
    rules = []
    feats = {shape}
    if shape == 'stmt':
        body = L.Seq((L.PClo(L.Group(L.Choice((L.Seq((kwtok[0], C('ident'))), C('ident'))))), L.EOF()))
    elif shape == 'closure':
        body = L.Seq((L.Clo(C('ident')), L.Opt(rng.choice(kwtok)), L.Clo(C('ident')), L.EOF()))
        feats.add('in_closure')
    elif shape == 'lookahead':
        kwalt = rng.choice(kwtok)
        lrng = random.Random(h64('C11', 'lookahead', idpat, list(kws), upper))
        sub = lrng.choice(['then-name', 'then-pattern', 'negative'])
        if sub == 'then-name':
            item = L.Seq((L.LA(C('ident')), C('ident')))
        elif sub == 'then-pattern':
            # the lookahead alone decides: what it lets through is consumed by an UNDECORATED pattern
            item = L.Seq((L.LA(C('ident')), L.Void(), L.Pat(idpat)))
            feats.add('lookahead_decides')
        else:
            # `!ident` succeeds exactly on reserved words (and on what is no name at all)
            item = L.Seq((L.NLA(C('ident')), L.Void(), L.Pat(idpat)))
            kwalt = C('ident')
            feats.add('lookahead_decides')
        body = L.Seq((L.Clo(L.Group(L.Choice((item, kwalt)))), L.EOF()))
        feats.add('in_lookahead')
    elif shape == 'choice_after':
        body = L.Seq((L.Clo(L.Group(L.Choice((C('ident'), *kwtok)))), L.EOF()))
        feats.add('in_closure')
    elif shape == 'named':
        first = L.Named('n', L.Call(names['ident']))
        if upper:
            first = L.Group(L.Seq((L.Void(), first)))   # the void stays outside the name (naming a group is C02's business)
        body = L.Seq((first, L.Named('rest', L.Clo(L.Group(L.Choice((C('ident'), *kwtok))))), L.EOF()))
    elif shape == 'gather':
        body = L.Seq((L.Join(T(','), L.Group(L.Choice((C('ident'), rng.choice(kwtok)))), False, True), L.EOF()))
        feats.add('in_closure')
    else:
        rules.append(L.Rule(names['other'], L.Pat(r'\d+|' + idpat), decorators=('name',)))
        body = L.Seq((L.Clo(L.Group(L.Choice((C('ident'), C('other'), *kwtok)))), L.EOF()))
        feats.add('in_closure')
    if rng.random() < 0.25:
        # the @name rule is a BASED rule (ident < word): it takes the base rule's right hand side, not its decorators, and
        # keeps its own; the undecorated base rule must go on accepting keywords (it is used for the other alternative)
        base = 'Word' if upper else 'word'
        rules = [L.Rule(base, L.Pat(idpat)),
                 L.Rule(names['ident'], L.NLA(L.Pat('[.(]')), decorators=('name',), base=base)] + rules
        rules = [L.Rule('start', body)] + rules
        feats.add('based_name_rule')
    else:
        rules = [L.Rule('start', body), L.Rule(names['ident'], L.Pat(idpat), decorators=('name',))] + rules
    if upper:
        feats.add('uppercase_name_rule')
    directives = {}
    mode = rng.choice(['off', 'off', 'directive', 'setting'])
    settings = {}
    if mode == 'directive':
        directives['ignorecase'] = 'True'
    elif mode == 'setting':
        settings['ignorecase'] = True
    if rng.random() < 0.2:
        directives['nameguard'] = rng.choice(['True', 'False'])
    srng = random.Random(h64('C11', 'spelling', [r.name for r in rules], list(kws)))
    if srng.random() < 0.15:
        # the other accepted spelling of the decorator (@isname, exported as tatsu.isname) marks the same kind of rule
        rules = [L.Rule(r.name, r.body, tuple('isname' if d == 'name' else d for d in r.decorators), r.params, r.kwparams, r.base)
                 for r in rules]
        feats.add('isname_spelling')
    g = L.Grammar(rules, directives, kws)
    return g, settings, mode, feats


def gen_inputs(rng, g, n):
    out = []
    pool = list(g.keywords) + OTHER_WORDS + [k.upper() for k in g.keywords] + [k.lower() for k in g.keywords] + \
        [k.capitalize() for k in g.keywords] + [k + 'x' for k in g.keywords] + [k[:-1] for k in g.keywords if len(k) > 1]
    for _ in range(n):
        k = rng.choice([1, 2, 3, 4, 5])
        sep = rng.choice([' ', ' ', ',', ' , ', '\n'])
        out.append(sep.join(rng.choice(pool) for _ in range(k)))
    return out


def strip_names(g):
    return L.Grammar([L.Rule(r.name, r.body, tuple(d for d in r.decorators if d not in ('name', 'isname')), r.params, r.kwparams, r.base)
                      for r in g.rules], dict(g.directives), tuple(g.keywords))


def is_kw(val, kws, ignorecase):
    s = str(val)
    if ignorecase:
        return s.upper() in {k.upper() for k in kws}
    return s in kws


def plain(parse, g, text, settings, sem=None):
    from tatsu.exceptions import FailedParse
    kw = dict(settings)
    if sem is not None:
        kw['semantics'] = sem
    try:
        return ('ok', canon(parse(text, heart=StepHeart(step_budget(g, text)), **kw)))
    except FailedParse as e:
        return ('fail', type(e).__name__)
    except RecursionError:
        return ('EXC', 'RecursionError')
    except Exception as e:  # noqa: BLE001
        return ('EXC', type(e).__name__, str(e)[:80])


# ---------------------------------------------------------------- input kinds
# what the text of a parse is handed over as.  'str' is the plain string; the others are ready-made input objects.
BASE_KINDS = ['textlines', 'buffer', 'textlines_set', 'buffer_set']


def gen_module(model):
    """model -> (ParserClass, {name: text class defined by the generated module}) through the real code generator"""
    from tatsu.ngcodegen.ngparser_gen import pythongen
    src = pythongen(model)
    mod = types.ModuleType('vt_generated')
    exec(compile(src, '<generated>', 'exec'), mod.__dict__)  # noqa: S102
    cls = None
    texts = {}
    for k, v in mod.__dict__.items():
        if not (isinstance(v, type) and v.__module__ == 'vt_generated'):
            continue
        if k.endswith('Parser'):
            cls = v
        elif callable(getattr(v, 'newcursor', None)) and k == v.__name__:   # an input class (tatsu.input.Text is a protocol);
            # aliases (TTokenizer = TText) are the same class
            texts[k] = v
    return cls, texts


def kinds_of(text_classes):
    """all input kinds other than 'str' for a generated module exposing `text_classes`"""
    names = sorted(text_classes)
    return BASE_KINDS + ['gen:' + n for n in names] + ['gen_set:' + n for n in names]


def make_input(kind, text, settings, text_classes):
    """a FRESH input for one parse (a legacy Buffer has a position of its own)"""
    if kind == 'str':
        return text
    if kind in ('textlines', 'textlines_set'):
        from tatsu.input.textlines import TextLines
        return TextLines(text) if kind == 'textlines' else TextLines(text, **settings)
    if kind in ('buffer', 'buffer_set'):
        from tatsu.buffering import Buffer
        return Buffer(text) if kind == 'buffer' else Buffer(text, **settings)
    how, _, name = kind.partition(':')
    cls = text_classes[name]
    return cls(text) if how == 'gen' else cls(text, **settings)


def ref_settings(kind, g, settings, ignorecase):
    """REF's settings for one parse: tokens are matched by what the INPUT carries, keywords are compared by the PARSER's
    ignorecase.  str: directives + parse-time settings (TatSu builds the input from the parse configuration);
    TextLines(text)/Buffer(text): nothing; ..._set: the parse-time settings; a generated text class: the directives
    (baked into the class), plus the settings when they are passed to it."""
    d = L.directive_values(g.directives)
    if kind in ('textlines', 'buffer'):
        carried = {}
    elif kind in ('textlines_set', 'buffer_set'):
        carried = dict(settings)
    elif kind.startswith('gen:'):
        carried = d
    else:
        carried = {**d, **settings}
    return {'ignorecase': bool(carried.get('ignorecase')), 'nameguard': carried.get('nameguard'),
            'keyword_ignorecase': ignorecase}


def kind_class(kind):
    return kind.split(':')[0]


def outcome_of(fn):
    from tatsu.exceptions import FailedParse
    try:
        return fn()
    except FailedParse as e:
        return ('fail', type(e).__name__)
    except RecursionError:
        return ('EXC', 'RecursionError')
    except Exception as e:  # noqa: BLE001
        if type(e).__name__ == 'HeartDied':
            return ('EXC', 'StepBudget')
        return ('EXC', type(e).__name__, str(e)[:80])


def kind_probe(acc, g, wmodel, pmodel, gen, text_classes, settings, mode, kind, text, w, name_rules, gtext=None):
    """one text under one input kind: REF (split settings) vs the wrapped model, the event log of the model and of the
    generated parser, model vs generated parser.  -> True when REF refused a keyword somewhere in this parse"""
    ignorecase = mode != 'off'
    w = dict(w, kind=kind)
    kc = kind_class(kind)
    sfx = '' if kind == 'str' else '/input:' + kc
    desc = f'{gtext or L.grammar_text(g)!r} {text!r} {settings} text given as {kind}'
    budget = step_budget(g, text)

    def mk():
        return make_input(kind, text, settings, text_classes)

    a, r = ref_run(g, text, 'start', settings=ref_settings(kind, g, settings, ignorecase), max_steps=30000)
    acc.evaluations += 1
    acc.count('kind_probes')
    acc.count('input_kind:' + kc)
    if ignorecase and kc in ('textlines', 'buffer'):
        acc.count('bare_input_under_ignorecase')
    if a[0] == 'budget':
        acc.count('ref_budget')
        return False

    # (3) REF against the wrapped model (end position and value)
    def wrapped_run():
        res = wmodel.parse(mk(), start=WRAP_START, heart=StepHeart(budget), **settings)
        return ('ok', len(text) - len(res['r']), canon(res['v']))
    b = outcome_of(wrapped_run)
    if b[0] == 'fail':
        b = ('fail',)
    tag = D.relation(a, b, bool(r.nonw))
    if tag is not None:
        acc.violation(f'ref/{tag}/{mode}{sfx}', f'keyword handling differs from REF ({tag}): {desc} REF={a} TATSU={b}', w)
        return r.kw_rejected > 0
    if r.kw_rejected:
        acc.count('kind_keyword_rejections')
        acc.nontriv(L.grammar_text(g), repr(settings), text, kind)
        if ignorecase and kc in ('textlines', 'buffer'):
            acc.count('bare_input_case_insensitive_rejection')
        if a[0] == 'ok':
            acc.count('kind_alternative_after_rejection')

    # (1) event log, model and generated parser; (4) model vs generated parser under the same input kind
    outs = {}
    for side, parse in (('model', pmodel.parse), ('gen', (lambda t, **kw: gen().parse(t, **kw)) if gen is not None else None)):
        if parse is None:
            continue
        rec = Recorder()
        outs[side] = outcome_of(lambda: ('ok', canon(parse(mk(), heart=StepHeart(budget), semantics=rec, **settings))))  # noqa: B023
        for name, ast, params, kwp, pos in rec.events:
            if name in name_rules:
                acc.count('kind_name_events')
                if is_kw(ast, g.keywords, ignorecase):
                    who = '' if side == 'model' else '-gen'
                    acc.violation(f'keyword-accepted{who}/{mode}{sfx}',
                                  f'@name rule {name!r} of the {"model" if side == "model" else "generated parser"} completed with the keyword {ast!r}: {desc}', w)
    if 'gen' in outs:
        acc.count('kind_gen_compared')
        out, gout = outs['model'], outs['gen']
        if gout[0] != out[0] or (gout[0] == 'ok' and gout != out):
            acc.violation(f'gen/{mode}{sfx}', f'generated parser != model with keywords: {desc} MODEL={out} GEN={gout}', w)
    return r.kw_rejected > 0


def check(acc, g, settings, mode, feats, texts, origin, alt_off=None, alt_kinds=None):
    """alt_off: rotation offset of the input kinds given to every other text; alt_kinds: {text index: kind} (replay)"""
    ignorecase = mode != 'off'
    eff = dict(settings)
    if 'isname_spelling' in feats:
        acc.count('grammars_with_isname_spelling')
    if 'lookahead_decides' in feats:
        acc.count('grammars_where_a_lookahead_over_the_name_rule_decides')
    case = D.Case(g, 'start', settings=eff, parse_settings=settings)
    if case.model is None:
        acc.violation('exc:build:' + case.build_error[0], f'building failed: {case.build_error} {L.grammar_text(g)!r}',
                      {'grammar': L.to_json(g), 'grammar_text': L.grammar_text(g), 'text': '', 'settings': settings})
        return
    model = L.to_model(g, name='T')
    undecorated = L.to_model(strip_names(g), name='T')
    text_classes = {}
    try:
        gen, text_classes = gen_module(model)
    except Exception as e:  # noqa: BLE001
        acc.violation('gen-build:' + type(e).__name__, f'code generation failed: {e}',
                      {'grammar': L.to_json(g), 'grammar_text': L.grammar_text(g), 'text': '', 'settings': settings})
        gen = None
    if gen is not None and not text_classes:
        acc.note('the generated module defines no text class: the gen:/gen_set: input kinds are unobserved')
    kinds = kinds_of(text_classes)
    name_rules = {r.name for r in g.rules if 'name' in r.decorators or 'isname' in r.decorators}
    reused = [None]
    if 'uppercase_name_rule' in feats:
        acc.count('uppercase_name_rule', len(texts))
    if 'based_name_rule' in feats:
        acc.count('based_name_rule', len(texts))
    if mode == 'directive':
        acc.count('ignorecase_directive', len(texts))
    elif mode == 'setting':
        acc.count('ignorecase_setting', len(texts))
    for j, text in enumerate(texts):
        w = {'grammar': L.to_json(g), 'grammar_text': L.grammar_text(g), 'text': text, 'settings': settings, 'mode': mode,
             'origin': origin}
        # the same text handed over as a ready-made input object (every other text, kinds in rotation)
        alt = None
        if alt_kinds is not None:
            alt = alt_kinds.get(j)
        elif alt_off is not None and (j + alt_off) % 2 == 0:
            alt = kinds[(alt_off + j // 2) % len(kinds)]
        if alt is not None and (alt in kinds):
            kind_probe(acc, g, case.model, model, gen, text_classes, settings, mode, alt, text, w, name_rules)
        # (3) REF
        tag, a, b, r = D.compare(case, text)
        acc.evaluations += 1
        if tag not in (None, 'ref-budget'):
            acc.violation(f'ref/{tag}/{mode}', f'keyword handling differs from REF ({tag}): {L.grammar_text(g)!r} {text!r} {settings} REF={a} TATSU={b}', w)
            continue
        # (1) event log: no @name rule completes with a keyword
        rec = Recorder()
        out = plain(model.parse, g, text, settings, rec)
        for name, ast, params, kwp, pos in rec.events:
            if name in name_rules:
                acc.count('name_events')
                if is_kw(ast, g.keywords, ignorecase):
                    acc.violation(f'keyword-accepted/{mode}', f'@name rule {name!r} completed with the keyword {ast!r}: {L.grammar_text(g)!r} {text!r} {settings}', w)
        # (2) metamorphic: undecorated run tells which @name matches were keywords
        rec0 = Recorder()
        out0 = plain(undecorated.parse, g, text, settings, rec0)
        kw_hits = [e for e in rec0.events if e[0] in name_rules and is_kw(e[1], g.keywords, ignorecase)]
        if kw_hits:
            acc.count('keyword_rejections')
            acc.nontriv(L.grammar_text(g), repr(settings), text)
            for f in feats:
                if f.startswith('in_'):
                    acc.count(f)
            if any(str(e[1]) not in g.keywords for e in kw_hits):
                acc.count('case_variant_rejected')
            if out[0] == 'ok':
                acc.count('alternative_after_rejection')
        else:
            acc.count('nonkeyword_same_as_undecorated')
            if out != out0:
                acc.violation(f'nonkeyword-changed/{mode}',
                              f'no @name rule matched a keyword, yet the decorated grammar differs from the undecorated one: '
                              f'{L.grammar_text(g)!r} {text!r} {settings} WITH={out} WITHOUT={out0}', w)
        # (4) generated parser
        if gen is not None:
            recg = Recorder()
            gout = plain(lambda t, **kw: gen().parse(t, **kw), g, text, settings, recg)
            acc.count('gen_compared')
            for name, ast, params, kwp, pos in recg.events:
                if name in name_rules:
                    acc.count('gen_name_events')
                    if is_kw(ast, g.keywords, ignorecase):
                        acc.violation(f'keyword-accepted-gen/{mode}', f'@name rule {name!r} of the generated parser completed with the keyword {ast!r}: '
                                                                     f'{L.grammar_text(g)!r} {text!r} {settings}', w)
            # ... and one long-lived parser object: a parse under the opposite ignorecase setting in between must not matter
            if reused[0] is None:
                reused[0] = gen()
            flip = dict(settings, ignorecase=not ignorecase)
            plain(lambda t, **kw: reused[0].parse(t, **kw), g, text, flip)
            rout = plain(lambda t, **kw: reused[0].parse(t, **kw), g, text, settings)
            acc.count('reused_after_flip')
            if rout != gout:
                acc.violation(f'gen-reused-object/{mode}',
                              f'a generated parser object gives another result after a parse with ignorecase={not ignorecase} on the same object: '
                              f'{L.grammar_text(g)!r} {text!r} {settings} FRESH={gout} REUSED={rout}', w)
            if gout[0] != out[0] or (gout[0] == 'ok' and gout != out):
                acc.violation(f'gen/{mode}', f'generated parser != model with keywords: {L.grammar_text(g)!r} {text!r} {settings} MODEL={out} GEN={gout}', w)


# ---------------------------------------------------------------- keyword sweep
RESERVED = ('and array begin case const div do downto else end file for function goto if in label mod nil not of or packed '
            'procedure program record repeat set then to type until var while with select from where group by having order '
            'insert into values update delete create table index view join inner outer left right on as distinct union all '
            'exists between like is null true false def class return yield lambda import pass raise try except finally '
            'global nonlocal assert async await elif break continue del None True False').split()
UNICODE_WORDS = ['straße', 'ınd', 'Über', 'ñandú', 'čaj', 'İs', 'ß', 'été', 'λx', 'Ωmega', 'naïve', 'ǆem', 'ﬁn', 'ŉa']
QUOTED_WORDS = ['end-if', "don't", '1st', '42', 'not-in', '9', "o'clock", '3d', 'go-to', 'x-1', '-', "'"]
SWEEP_PATS = [r"[\w\-']+", r"[^\s,]+"]
SWEEP_SIZES = [1, 2, 3, 5, 8, 9, 10, 11, 12, 13, 14, 16, 18, 22, 27, 33, 40, 50, 60]
LETTERS = 'abcdefghijklmnopqrstuvwxyzABCDEFGHXYZ'
N_SWEEP = {'quick': 96, 'thorough': 2560}


def gen_words(rng, n):
    """n distinct keyword spellings: reserved words of real languages (as written, upper-cased, capitalized), synthetic
    words of 1..14 characters in mixed case, non-ASCII words, quoted (non-identifier) spellings"""
    out = []
    while len(out) < n:
        x = rng.random()
        if x < 0.55:
            wd = rng.choice(RESERVED)
            wd = rng.choice([wd, wd, wd.upper(), wd.capitalize()])
        elif x < 0.78:
            wd = rng.choice(LETTERS) + ''.join(rng.choice(LETTERS + '_0123456789') for _ in range(rng.choice([0, 0, 1, 2, 3, 5, 8, 13])))
        elif x < 0.89:
            wd = rng.choice(UNICODE_WORDS)
        else:
            wd = rng.choice(QUOTED_WORDS)
        if wd not in out:
            out.append(wd)
    return tuple(out)


def case_variant(rng, wd):
    vs = [v for v in (wd.upper(), wd.lower(), wd.capitalize(), wd.swapcase()) if v != wd]
    return rng.choice(vs) if vs else None


def gen_sweep(rng):
    """-> g, settings, mode, feats, layout, [(text, what)]: every declared keyword is tried as a name"""
    kws = gen_words(rng, rng.choice(SWEEP_SIZES))
    g, settings, mode, feats = gen_case(rng, kws=kws, idpats=IDENT_PATS + SWEEP_PATS)
    layout = rng.choice(['object', 'one', 'several', 'chunks'])
    if layout == 'chunks':
        sizes = []
        while sum(sizes) < len(kws):
            sizes.append(rng.choice([1, 2, 3, 5, 8]))
        layout = 'chunks:' + ','.join(map(str, sizes))
    words = []
    for wd in kws:
        words.append((wd, 'keyword'))
        v = case_variant(rng, wd)
        if v is not None and (mode != 'off' or rng.random() < 0.34):
            words.append((v, 'variant'))
        if len(wd) > 1 and rng.random() < 0.25:
            words.append((wd[:-1], 'prefix'))
        if rng.random() < 0.25:
            words.append((wd + rng.choice('xX_1'), 'suffix'))
    texts = [((rng.choice(['a ', 'b7 ', 'zz, ']) if rng.random() < 0.2 else '') + wd, what) for wd, what in words]
    return g, settings, mode, feats, layout, texts


def keyword_lines(kws, layout):
    def lit(k):
        return k if k.isidentifier() else repr(k)
    if layout == 'one':
        groups = [list(kws)]
    elif layout.startswith('chunks:'):
        groups, rest = [], list(kws)
        for n in map(int, layout.split(':')[1].split(',')):
            if rest:
                groups.append(rest[:n])
                rest = rest[n:]
        if rest:
            groups.append(rest)
    else:
        groups = [[k] for k in kws]
    return ['@@keyword :: ' + ' '.join(lit(k) for k in grp) for grp in groups]


def sweep_text(g, layout):
    """grammar text with the keywords declared as `layout` says (after the other directives)"""
    lines = L.grammar_text(L.Grammar(g.rules, dict(g.directives), ()), name='T').split('\n')
    k = 0
    while k < len(lines) and lines[k].startswith('@@'):
        k += 1
    return '\n'.join(lines[:k] + keyword_lines(g.keywords, layout) + lines[k:])


def check_sweep(acc, g, settings, mode, feats, layout, texts, origin, kind_off=0, only_kind=None):
    """texts: [(text, what)].  One model (the wrapped grammar: REF comparison through VTSTART, event log through the
    grammar's own start rule), one generated parser; every text under one input kind ('str' included) in rotation."""
    wg = wrapped(g, 'start')
    w0 = {'family': 'sweep', 'grammar': L.to_json(g), 'grammar_text': sweep_text(g, layout), 'layout': layout,
          'settings': settings, 'mode': mode, 'origin': origin, 'text': ''}
    try:
        if layout == 'object':
            model = L.to_model(wg, name='T')
        else:
            import tatsu
            model = tatsu.compile(sweep_text(wg, layout), name='T')
    except Exception as e:  # noqa: BLE001
        acc.violation('exc:build:' + type(e).__name__, f'building failed: {type(e).__name__}: {e} {sweep_text(g, layout)!r}', w0)
        return
    text_classes = {}
    try:
        gen, text_classes = gen_module(model)
    except Exception as e:  # noqa: BLE001
        acc.violation('gen-build:' + type(e).__name__, f'code generation failed: {e} {sweep_text(g, layout)!r}', w0)
        gen = None
    kinds = ['str'] + kinds_of(text_classes)
    name_rules = {r.name for r in g.rules if 'name' in r.decorators or 'isname' in r.decorators}
    n = len(g.keywords)
    acc.count('sweep_cases')
    acc.count('sweep_decl:' + layout.split(':')[0])
    acc.peak('sweep_max_keywords', n)
    if n >= 10:
        acc.count('sweep_cases_10_or_more_keywords')
    if any(not k.isidentifier() for k in g.keywords):
        acc.count('sweep_cases_with_quoted_keyword')
    if mode != 'off':
        acc.count('sweep_cases_ignorecase')
    for j, (text, what) in enumerate(texts):
        kind = only_kind or kinds[(kind_off + j) % len(kinds)]
        if kind not in kinds:
            continue
        acc.count('sweep_words')
        acc.count('sweep_word:' + what)
        if n >= 10:
            acc.count('sweep_words_of_long_lists')
        rejected = kind_probe(acc, g, model, model, gen, text_classes, settings, mode, kind, text,
                              dict(w0, text=text, what=what, j=j), name_rules,
                              gtext=f'[{n} keywords, declared: {layout}] ' + w0['grammar_text'])
        if rejected:
            acc.count('sweep_rejections')
            if what == 'variant':
                acc.count('sweep_case_variant_rejected')


def run_shard(desc, acc):
    for i in range(desc['n']):
        rng = random.Random(h64('C11', desc['seed'], desc['shard'], i))
        g, settings, mode, feats = gen_case(rng)
        texts = gen_inputs(rng, g, 8 if desc['tier'] == 'quick' else 10)
        check(acc, g, settings, mode, feats, texts, {'shard': desc['shard'], 'i': i}, alt_off=rng.randrange(64))
        if i == 0:
            acc.sample({'grammar': L.grammar_text(g), 'settings': settings, 'inputs': texts})
    for i in range(desc.get('nsweep', 0)):
        rng = random.Random(h64('C11', 'sweep', desc['seed'], desc['shard'], i))
        g, settings, mode, feats, layout, texts = gen_sweep(rng)
        check_sweep(acc, g, settings, mode, feats, layout, texts, {'shard': desc['shard'], 'sweep': i}, kind_off=rng.randrange(64))
        if i == 0:
            acc.sample({'family': 'sweep', 'grammar': sweep_text(g, layout), 'settings': settings, 'inputs': [t for t, _ in texts][:12]})


def replay(w, acc):
    g = L.from_json(w['grammar'])
    if w.get('family') == 'sweep':
        check_sweep(acc, g, w.get('settings', {}), w.get('mode', 'off'), set(), w.get('layout', 'object'),
                    [(w['text'], w.get('what', 'keyword'))], {'mode': 'replay'}, only_kind=w.get('kind', 'str'))
        return
    check(acc, g, w.get('settings', {}), w.get('mode', 'off'), set(), [w['text']], {'mode': 'replay'},
          alt_kinds={0: w['kind']} if w.get('kind') else None)


MANIFEST = {
    'technique': 'runtime monitoring: semantics-object event log ("@name never completes with a keyword", model and generated parser) + metamorphic decorated/undecorated pair + '
                 'reference-model oracle + model/generated differential, over input kinds (str / ready-made input objects) and keyword lists of 1..60 words',
    'level_text': 'generated keyword grammars x word inputs built from keywords, their prefixes/suffixes and case variants, under ignorecase off / directive / '
                  'parse-time setting; every @name completion is observed through the semantics object, non-keyword inputs must parse exactly as the undecorated grammar; '
                  'the text handed over as str, TextLines, legacy Buffer or a text class of the generated module; keyword lists of 1..60 words (one @@keyword line, '
                  'several, chunks, object route) with every declared keyword tried as a name on the model and on the generated parser',
    'level_note': 'trusted: vt/ref.py keyword predicate, Python str.upper() for case folding (what the statement calls case-insensitive comparison); '
                  'held = no violation on the listed executions',
}
