"""C11 — reserved words are never accepted where a name is required.

Oracles: (1) the event log of a recording semantics object: no @name rule ever completes with a
value that is a declared keyword (upper-cased under ignorecase); (2) the metamorphic pair
"grammar with vs without the @name decorators / @@keyword lines"; (3) REF with the keyword check as
a failing predicate at the rule's exit; (4) model vs generated parser.  DESIGN.md section 3/C11.
"""
from __future__ import annotations

import random

from .. import gen as G
from .. import lang as L
from .. import refdiff as D
from ..common import h64
from ..ref import canon
from ..refdiff import step_budget
from ..semprobe import Recorder
from ..tsu import StepHeart, gen_parser

ID = 'C11'
LEVEL = 'exploration'
RULE = ('cases = (grammar with 1-3 @@keyword declarations (words, quoted, mixed case, non-ASCII case pairs) and @name rules over identifier '
        'patterns used in choices, closures, lookaheads, with keyword-token alternatives AFTER the name alternative; input of words drawn from '
        'keywords, their prefixes/suffixes, case variants and plain identifiers; ignorecase off / directive / parse-time setting); '
        'non-trivial = some @name rule matched text that IS a keyword (so the rejection decided something); distinct by (grammar text, settings, input)')
ASSUMPTIONS = [
    'REF: an @name rule whose value, as text (upper-cased under ignorecase), is a declared keyword fails like a syntax mismatch at rule exit',
    'the undecorated grammar is the reference for "accepted exactly as the undecorated rule would accept it" on inputs where no @name rule '
    'produced a keyword value in the undecorated run',
]
FLOORS = {
    'quick': {'keyword_rejections': 2000, 'alternative_after_rejection': 700, 'nonkeyword_same_as_undecorated': 4000,
              'ignorecase_directive': 1500, 'ignorecase_setting': 1500, 'gen_compared': 6000, 'name_events': 9000,
              'case_variant_rejected': 800, 'in_lookahead': 250, 'in_closure': 1000, 'uppercase_name_rule': 1500, 'reused_after_flip': 6000, 'based_name_rule': 1200},
    'thorough': {'keyword_rejections': 80000, 'nonkeyword_same_as_undecorated': 150000, 'gen_compared': 150000},
}
N = {'quick': 1600, 'thorough': 40000}

KEYWORD_POOL = ['if', 'then', 'end', 'For', 'WHILE', 'in', 'straße', 'ınd', 'x1', 'no_t']
OTHER_WORDS = ['a', 'iff', 'i', 'thenx', 'en', 'foo', 'IF', 'If', 'iF', 'END', 'for', 'FOR', 'while', 'STRASSE', 'Straße', 'IND',
               'x', 'x12', 'no_', 'no_t2', 'b7']
IDENT_PATS = [r'[a-zA-Z_]\w*', r'\w+', r'[^\W\d]\w*', r'[a-zıßA-Z]+']


def plan(tier, seed):
    k = 16 if tier == 'quick' else 64
    return [{'seed': seed, 'shard': i, 'n': N[tier] // k, 'tier': tier} for i in range(k)]


def gen_case(rng):
    kws = tuple(rng.sample(KEYWORD_POOL, rng.choice([1, 2, 3])))
    idpat = rng.choice(IDENT_PATS)
    T = L.Tok
    # a token-style (upper-case) @name rule does not skip whitespace at its entry: put a void before each reference
    upper = rng.random() < 0.35
    names = {'ident': 'IDENT', 'other': 'Other'} if upper else {'ident': 'ident', 'other': 'other'}

    def C(name):
        if upper:
            return L.Group(L.Seq((L.Void(), L.Call(names[name]))))
        return L.Call(names[name])
    kwtok = [T(k) for k in kws]
    shape = rng.choice(['stmt', 'closure', 'lookahead', 'choice_after', 'named', 'gather', 'two_names'])
    rules = []
    feats = {shape}
    if shape == 'stmt':
        body = L.Seq((L.PClo(L.Group(L.Choice((L.Seq((kwtok[0], C('ident'))), C('ident'))))), L.EOF()))
    elif shape == 'closure':
        body = L.Seq((L.Clo(C('ident')), L.Opt(rng.choice(kwtok)), L.Clo(C('ident')), L.EOF()))
        feats.add('in_closure')
    elif shape == 'lookahead':
        body = L.Seq((L.Clo(L.Group(L.Choice((L.Seq((L.LA(C('ident')), C('ident'))), rng.choice(kwtok))))), L.EOF()))
        feats.add('in_lookahead')
    elif shape == 'choice_after':
        body = L.Seq((L.Clo(L.Group(L.Choice((C('ident'), *kwtok)))), L.EOF()))
        feats.add('in_closure')
    elif shape == 'named':
        first = L.Named('n', L.Call(names['ident']))
        if upper:
            first = L.Group(L.Seq((L.Void(), first)))   # the void stays outside the name (naming a group is C02's business)
        body = L.Seq((first, L.Named('rest', L.Clo(L.Group(L.Choice((C('ident'), *kwtok))))), L.EOF()))
    elif shape == 'gather':
        body = L.Seq((L.Join(T(','), L.Group(L.Choice((C('ident'), rng.choice(kwtok)))), False, True), L.EOF()))
        feats.add('in_closure')
    else:
        rules.append(L.Rule(names['other'], L.Pat(r'\d+|' + idpat), decorators=('name',)))
        body = L.Seq((L.Clo(L.Group(L.Choice((C('ident'), C('other'), *kwtok)))), L.EOF()))
        feats.add('in_closure')
    if rng.random() < 0.25:
        # the @name rule is a BASED rule (ident < word): it takes the base rule's right hand side, not its decorators, and
        # keeps its own; the undecorated base rule must go on accepting keywords (it is used for the other alternative)
        base = 'Word' if upper else 'word'
        rules = [L.Rule(base, L.Pat(idpat)),
                 L.Rule(names['ident'], L.NLA(L.Pat('[.(]')), decorators=('name',), base=base)] + rules
        rules = [L.Rule('start', body)] + rules
        feats.add('based_name_rule')
    else:
        rules = [L.Rule('start', body), L.Rule(names['ident'], L.Pat(idpat), decorators=('name',))] + rules
    if upper:
        feats.add('uppercase_name_rule')
    directives = {}
    mode = rng.choice(['off', 'off', 'directive', 'setting'])
    settings = {}
    if mode == 'directive':
        directives['ignorecase'] = 'True'
    elif mode == 'setting':
        settings['ignorecase'] = True
    if rng.random() < 0.2:
        directives['nameguard'] = rng.choice(['True', 'False'])
    g = L.Grammar(rules, directives, kws)
    return g, settings, mode, feats


def gen_inputs(rng, g, n):
    out = []
    pool = list(g.keywords) + OTHER_WORDS + [k.upper() for k in g.keywords] + [k.lower() for k in g.keywords] + \
        [k.capitalize() for k in g.keywords] + [k + 'x' for k in g.keywords] + [k[:-1] for k in g.keywords if len(k) > 1]
    for _ in range(n):
        k = rng.choice([1, 2, 3, 4, 5])
        sep = rng.choice([' ', ' ', ',', ' , ', '\n'])
        out.append(sep.join(rng.choice(pool) for _ in range(k)))
    return out


def strip_names(g):
    return L.Grammar([L.Rule(r.name, r.body, tuple(d for d in r.decorators if d not in ('name', 'isname')), r.params, r.kwparams, r.base)
                      for r in g.rules], dict(g.directives), tuple(g.keywords))


def is_kw(val, kws, ignorecase):
    s = str(val)
    if ignorecase:
        return s.upper() in {k.upper() for k in kws}
    return s in kws


def plain(parse, g, text, settings, sem=None):
    from tatsu.exceptions import FailedParse
    kw = dict(settings)
    if sem is not None:
        kw['semantics'] = sem
    try:
        return ('ok', canon(parse(text, heart=StepHeart(step_budget(g, text)), **kw)))
    except FailedParse as e:
        return ('fail', type(e).__name__)
    except RecursionError:
        return ('EXC', 'RecursionError')
    except Exception as e:  # noqa: BLE001
        return ('EXC', type(e).__name__, str(e)[:80])


def check(acc, g, settings, mode, feats, texts, origin):
    ignorecase = mode != 'off'
    eff = dict(settings)
    case = D.Case(g, 'start', settings=eff, parse_settings=settings)
    if case.model is None:
        acc.violation('exc:build:' + case.build_error[0], f'building failed: {case.build_error} {L.grammar_text(g)!r}',
                      {'grammar': L.to_json(g), 'grammar_text': L.grammar_text(g), 'text': '', 'settings': settings})
        return
    model = L.to_model(g, name='T')
    undecorated = L.to_model(strip_names(g), name='T')
    try:
        gen = gen_parser(model)[0]
    except Exception as e:  # noqa: BLE001
        acc.violation('gen-build:' + type(e).__name__, f'code generation failed: {e}',
                      {'grammar': L.to_json(g), 'grammar_text': L.grammar_text(g), 'text': '', 'settings': settings})
        gen = None
    name_rules = {r.name for r in g.rules if 'name' in r.decorators}
    reused = [None]
    if 'uppercase_name_rule' in feats:
        acc.count('uppercase_name_rule', len(texts))
    if 'based_name_rule' in feats:
        acc.count('based_name_rule', len(texts))
    if mode == 'directive':
        acc.count('ignorecase_directive', len(texts))
    elif mode == 'setting':
        acc.count('ignorecase_setting', len(texts))
    for text in texts:
        w = {'grammar': L.to_json(g), 'grammar_text': L.grammar_text(g), 'text': text, 'settings': settings, 'mode': mode,
             'origin': origin}
        # (3) REF
        tag, a, b, r = D.compare(case, text)
        acc.evaluations += 1
        if tag not in (None, 'ref-budget'):
            acc.violation(f'ref/{tag}/{mode}', f'keyword handling differs from REF ({tag}): {L.grammar_text(g)!r} {text!r} {settings} REF={a} TATSU={b}', w)
            continue
        # (1) event log: no @name rule completes with a keyword
        rec = Recorder()
        out = plain(model.parse, g, text, settings, rec)
        for name, ast, params, kwp, pos in rec.events:
            if name in name_rules:
                acc.count('name_events')
                if is_kw(ast, g.keywords, ignorecase):
                    acc.violation(f'keyword-accepted/{mode}', f'@name rule {name!r} completed with the keyword {ast!r}: {L.grammar_text(g)!r} {text!r} {settings}', w)
        # (2) metamorphic: undecorated run tells which @name matches were keywords
        rec0 = Recorder()
        out0 = plain(undecorated.parse, g, text, settings, rec0)
        kw_hits = [e for e in rec0.events if e[0] in name_rules and is_kw(e[1], g.keywords, ignorecase)]
        if kw_hits:
            acc.count('keyword_rejections')
            acc.nontriv(L.grammar_text(g), repr(settings), text)
            for f in feats:
                if f.startswith('in_'):
                    acc.count(f)
            if any(str(e[1]) not in g.keywords for e in kw_hits):
                acc.count('case_variant_rejected')
            if out[0] == 'ok':
                acc.count('alternative_after_rejection')
        else:
            acc.count('nonkeyword_same_as_undecorated')
            if out != out0:
                acc.violation(f'nonkeyword-changed/{mode}',
                              f'no @name rule matched a keyword, yet the decorated grammar differs from the undecorated one: '
                              f'{L.grammar_text(g)!r} {text!r} {settings} WITH={out} WITHOUT={out0}', w)
        # (4) generated parser
        if gen is not None:
            gout = plain(lambda t, **kw: gen().parse(t, **kw), g, text, settings)
            acc.count('gen_compared')
            # ... and one long-lived parser object: a parse under the opposite ignorecase setting in between must not matter
            if reused[0] is None:
                reused[0] = gen()
            flip = dict(settings, ignorecase=not ignorecase)
            plain(lambda t, **kw: reused[0].parse(t, **kw), g, text, flip)
            rout = plain(lambda t, **kw: reused[0].parse(t, **kw), g, text, settings)
            acc.count('reused_after_flip')
            if rout != gout:
                acc.violation(f'gen-reused-object/{mode}',
                              f'a generated parser object gives another result after a parse with ignorecase={not ignorecase} on the same object: '
                              f'{L.grammar_text(g)!r} {text!r} {settings} FRESH={gout} REUSED={rout}', w)
            if gout[0] != out[0] or (gout[0] == 'ok' and gout != out):
                acc.violation(f'gen/{mode}', f'generated parser != model with keywords: {L.grammar_text(g)!r} {text!r} {settings} MODEL={out} GEN={gout}', w)


def run_shard(desc, acc):
    for i in range(desc['n']):
        rng = random.Random(h64('C11', desc['seed'], desc['shard'], i))
        g, settings, mode, feats = gen_case(rng)
        texts = gen_inputs(rng, g, 8 if desc['tier'] == 'quick' else 10)
        check(acc, g, settings, mode, feats, texts, {'shard': desc['shard'], 'i': i})
        if i == 0:
            acc.sample({'grammar': L.grammar_text(g), 'settings': settings, 'inputs': texts})


def replay(w, acc):
    g = L.from_json(w['grammar'])
    check(acc, g, w.get('settings', {}), w.get('mode', 'off'), set(), [w['text']], {'mode': 'replay'})


MANIFEST = {
    'technique': 'runtime monitoring: semantics-object event log ("@name never completes with a keyword") + metamorphic decorated/undecorated pair + reference-model oracle + model/generated differential',
    'level_text': 'generated keyword grammars x word inputs built from keywords, their prefixes/suffixes and case variants, under ignorecase off / directive / '
                  'parse-time setting; every @name completion is observed through the semantics object, non-keyword inputs must parse exactly as the undecorated grammar',
    'level_note': 'trusted: vt/ref.py keyword predicate, Python str.upper() for case folding (what the statement calls case-insensitive comparison); '
                  'held = no violation on the listed executions',
}
